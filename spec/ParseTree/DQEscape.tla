------------------------------ MODULE DQEscape ------------------------------
(* Escape sequences of double-quoted strings (website/ref/language.md, "Double-quoted string";
   pkg/parse Primary.doubleQuotedInner) as data, for C02:

     an escape is [k, ds]:  k = "x" (\xHH), "u" (\uHHHH), "U" (\UHHHHHHHH): ds = hex digits 0..15
                            k = "o" (\DDD): ds = octal digits,  k = "c" (\cX and \^X): ds = <<code of X>>
     Valid(e)     the escape text is complete and denotes something: \x any byte; \u, \U a Unicode
                  scalar value (<= 10FFFF, not a surrogate D800..DFFF); octal <= 255 (0377);
                  control X in 3F..5F.  Only valid escapes are generated (the real parser accepts
                  more; the generator stays inside what the reference calls valid).
     Complete(e)  all Need(k) digits are present.
   Theorem (M): every proper digit-prefix of a valid escape is INCOMPLETE -- the text can still be
   continued to a valid program, so the parser may report only a partial error (at the end of the
   input) on it, whatever value the digits read so far denote.
   Special(e): some proper prefix of the digits denotes a value that is NOT a scalar (a surrogate
   reached after 4..7 digits of a longer valid \U escape), or an octal prefix at the 0377 boundary:
   the cases where judging the digits read so far would go wrong.  G: every generated escape is
   printed; the executor embeds it in programs `put "..."`, checks validity and cuts at EVERY byte. *)
EXTENDS Integers, Sequences, TLC, Json
DS == {0, 8, 13, 15}          \* hex digit representatives: 0 8 d f
OS == {0, 3, 7}               \* octal digit representatives

RECURSIVE Val(_, _)
Val(ds, b) == IF ds = << >> THEN 0 ELSE Val(SubSeq(ds, 1, Len(ds) - 1), b) * b + ds[Len(ds)]
Base(k) == IF k = "o" THEN 8 ELSE 16
Need(k) == CASE k = "x" -> 2 [] k = "u" -> 4 [] k = "U" -> 8 [] k = "o" -> 3 [] k = "c" -> 1
Surrogate(v) == v >= 55296 /\ v <= 57343
Scalar(v) == v >= 0 /\ v <= 1114111 /\ ~Surrogate(v)
Complete(e) == Len(e.ds) = Need(e.k)
Valid(e) == /\ Complete(e)
            /\ CASE e.k = "x" -> TRUE
                 [] e.k \in {"u", "U"} -> Scalar(Val(e.ds, 16))
                 [] e.k = "o" -> Val(e.ds, 8) <= 255
                 [] e.k = "c" -> e.ds[1] >= 63 /\ e.ds[1] <= 95
Cut(e, m) == [e EXCEPT !.ds = SubSeq(e.ds, 1, m)]
PrefixesIncomplete(e) == \A m \in 0..(Len(e.ds) - 1) : ~Complete(Cut(e, m))
Special(e) == \E m \in 1..(Len(e.ds) - 1) :
                 \/ e.k \in {"u", "U"} /\ ~Scalar(Val(SubSeq(e.ds, 1, m), 16))
                 \/ e.k = "o" /\ Val(SubSeq(e.ds, 1, m), 8) * 8 > 255

\* \U: 000ddddd and 0010dddd (everything else over DS is beyond 10FFFF)
UDigits == {<<0, 0, 0>> \o t : t \in [1..5 -> DS]} \cup {<<0, 0, 1, 0>> \o t : t \in [1..4 -> DS]}
All == {[k |-> "x", ds |-> t] : t \in [1..2 -> DS]} \cup {[k |-> "u", ds |-> t] : t \in [1..4 -> DS]}
       \cup {[k |-> "U", ds |-> t] : t \in UDigits} \cup {[k |-> "o", ds |-> t] : t \in [1..3 -> OS]}
       \cup {[k |-> "c", ds |-> <<c>>] : c \in {63, 64, 65, 95}}
VARIABLE e
Init == e \in {x \in All : Valid(x)}
Next == UNCHANGED e
Theorem == Valid(e) => PrefixesIncomplete(e)
Emit == PrintT(ToJson([k |-> e.k, ds |-> e.ds, special |-> Special(e)]))
=============================================================================
