----------------------------- MODULE MCParseTree -----------------------------
(* M for C01: every sequence of trace lines over sources of length <= N (and trees of at most
   MaxNodes nodes with at most MaxKids children each, at most MaxErrs errors) is offered to the
   automaton of ParseTree.tla; the tree it has read is kept in the history variable `hist`.
   Theorem checked by TLC:   Accepted => Tiled
   where Tiled is the DECLARATIVE statement of losslessness over the recorded tree (parent
   links, children tile the parent's range in order, every text is the slice of its range, the
   leaf texts concatenate to the source -- or to src[0..k) with an error starting at k).
   This guards against a vacuous automaton: whatever it accepts is a lossless tree.
   NonVacuous (checked as a reachability fact by the executor through the -coverage counts
   and by the Witness* invariants being VIOLATED in MCParseTreeWitness.cfg) shows it accepts
   something.

   Two text modes, as in the traces: bytes = TRUE (source over {0,1}, N <= NB, TLC compares
   the bytes) and bytes = FALSE (the comparison is a boolean of the line).                 *)
EXTENDS ParseTree, TLC
CONSTANTS N, NB, MaxNodes, MaxKids, MaxErrs
VARIABLES hist, ended
vars == <<ptvars, hist, ended>>

Bits == {0, 1}
SeqsUpTo(S, k) == UNION {[1..m -> S] : m \in 0..k}

Init == /\ PTInit /\ hist = << >> /\ ended = FALSE

Begin == /\ ~ended
         /\ \E b \in BOOLEAN, m \in 0..N :
              /\ b => m <= NB
              /\ \E s \in (IF b THEN [1..m -> Bits] ELSE {<< >>}) :
                   LET e == [n |-> m, src |-> s, bytes |-> b] IN BeginG(e) /\ BeginE(e)
         /\ UNCHANGED <<hist, ended>>

\* every candidate node line; the guards of the automaton select (the partial guards are
\* evaluated as early as their fields are chosen, only to keep the enumeration cheap)
Node == /\ Len(hist) < MaxNodes
        /\ \E f \in 0..N, t \in 0..N :
             LET r == [from |-> f, to |-> t] IN
             /\ RangeOK(r) /\ TileOK(r)
             /\ \E p \in 0..nid, c \in 0..MaxKids :
                  /\ ParentOK([par |-> p])
                  /\ \E tx \in (IF bytes THEN SeqsUpTo(Bits, NB) ELSE {<< >>}),
                        ok \in (IF bytes THEN {TRUE} ELSE BOOLEAN),
                        len \in (IF bytes THEN {0} ELSE 0..N) :
                       LET e == [id |-> nid + 1, par |-> p, from |-> f, to |-> t, nc |-> c,
                                 text |-> tx, tok |-> ok, tl |-> len] IN
                       /\ IF c = 0 THEN LeafG(e) /\ TextOK(e) /\ LeafE(e)
                                   ELSE EnterG(e) /\ TextOK(e) /\ EnterE(e)
                       /\ hist' = Append(hist, e)
        /\ UNCHANGED ended

Exit == ExitG /\ ExitE /\ UNCHANGED <<hist, ended>>

Err == /\ Cardinality(errs) < MaxErrs
       /\ \E f \in 0..N, t \in 0..N :
            LET e == [from |-> f, to |-> t, partial |-> (f = n)] IN ErrG(e) /\ ErrE(e)
       /\ UNCHANGED <<hist, ended>>

UnparsedTail == /\ \E k \in 0..N : LET e == [k |-> k] IN TailG(e) /\ TailE(e)
                /\ UNCHANGED <<hist, ended>>

End == EndG /\ EndE /\ ended' = TRUE /\ UNCHANGED hist

Next == Begin \/ Node \/ Exit \/ Err \/ UnparsedTail \/ End

---------------------------------------------------------------------------
Accepted == ended

Kids(p)  == SelectSeq(hist, LAMBDA x : x.par = p.id)
Leaves   == SelectSeq(hist, LAMBDA x : x.nc = 0)
Slice(f, t) == SubSeq(src, f + 1, t)
RECURSIVE Cat(_)
Cat(s) == IF s = << >> THEN << >> ELSE Head(s).text \o Cat(Tail(s))

Tiled ==
  /\ Len(hist) >= 1
  /\ \A i \in 1..Len(hist) :
       LET x == hist[i] IN
       /\ x.id = i
       /\ (i = 1) = (x.par = 0)                       \* exactly one root, read first
       /\ x.par < x.id                                \* the parent was read before
       /\ 0 <= x.from /\ x.from <= x.to /\ x.to <= n  \* contiguous range inside the source
       /\ IF bytes THEN x.text = Slice(x.from, x.to)   \* text is the slice of the range
                   ELSE x.tok /\ x.tl = x.to - x.from
       /\ LET ks == Kids(x) IN
          /\ Len(ks) = x.nc
          /\ x.nc > 0 =>                               \* children tile the range, in order
               /\ ks[1].from = x.from
               /\ ks[Len(ks)].to = x.to
               /\ \A j \in 1..Len(ks) - 1 : ks[j].to = ks[j+1].from
  /\ hist[1].from = 0
  /\ LET ls == Leaves IN                               \* leaves concatenate to the source ..
     /\ Len(ls) >= 1
     /\ ls[1].from = 0
     /\ \A j \in 1..Len(ls) - 1 : ls[j].to = ls[j+1].from
     /\ ls[Len(ls)].to = hist[1].to
     /\ bytes => Cat(ls) = Slice(0, hist[1].to)
  /\ \/ hist[1].to = n                                 \* .. all of it,
     \/ \E x \in errs : x.from = hist[1].to            \* or up to the reported unparsed tail
  /\ \A x \in errs : 0 <= x.from /\ x.from <= x.to /\ x.to <= n

Theorem == Accepted => Tiled
Sanity  == PosIsNext /\ Closed /\ StackNested

\* witnesses (expected to be VIOLATED: they show that the automaton accepts non-trivial trees)
WitnessDeep == ~(Accepted /\ Len(hist) = MaxNodes /\ \E x \in DOMAIN hist : hist[x].par >= 2)
WitnessTail == ~(Accepted /\ hist[1].to < n)
=============================================================================
