--------------------------- MODULE TraceParseTree ---------------------------
(* V for C01: a recorded batch of tree walks of the REAL parser is read line by line and every
   line must be a step of the automaton of ParseTree.tla.  One TLC state per line.

   trace.ndjson -- one JSON object per line, `ev` selects the action:
     {"ev":"begin","i":<input no>,"n":..,"bytes":true|false,"src":[..]}        Begin  (Reset)
     {"ev":"enter","id","par","from","to","nc","text":[..],"tok","tl","kind"}   Enter
     {"ev":"leaf", "id","par","from","to","nc":0,"text":[..],"tok","tl","kind"} Leaf
     {"ev":"exit"}                                                              Exit
     {"ev":"err","from","to","partial"}                                         Err
     {"ev":"tail","k"}                                                          UnparsedTail
     {"ev":"end"}                                                               End
     {"ev":"crash","what"}                                                      (no action)
     {"ev":"stop"}                        end of the batch (flushes an unfinished input)
   `kind` (Go type of the node) is coverage information and never enters a guard.

   So that one rejected input does not hide the others of its batch, a line that no action
   accepts is REPORTED, not deadlocked on:  PrintT(<<"BAD", input, line, why>>)  and the rest
   of that input is skipped (bad = TRUE) until the next Begin.  A node line whose structural
   guard holds but whose TEXT guard fails is reported and then walked on (the structure of the
   rest of the tree is still judged).  The executor turns every BAD line into a rejection.   *)
EXTENDS ParseTree, TLC, Json

Trace == ndJsonDeserialize("trace.ndjson")

VARIABLES l, cur, bad
vars == <<ptvars, l, cur, bad>>

Init == PTInit /\ l = 1 /\ cur = 0 /\ bad = FALSE

Report(why) == PrintT(<<"BAD", cur, l, why>>)
Skip        == UNCHANGED ptvars
Reject(why) == Report(why) /\ bad' = TRUE /\ Skip /\ UNCHANGED cur

\* which conjunct of the node guard fails (diagnostic only)
WhyNode(e) == IF phase # "tree" THEN "node-after-root"
              ELSE IF ~RangeOK(e) THEN "range"
              ELSE IF ~IdOK(e) THEN "walk-order"
              ELSE IF ~ParentOK(e) THEN "parent"
              ELSE IF ~CountOK(e) THEN "child-count"
              ELSE IF ~TileOK(e) THEN "tile"
              ELSE "concat"
WhyExit == IF phase # "tree" \/ stack = << >> THEN "exit-without-node"
           ELSE IF Top.seen # Top.nc THEN "child-count" ELSE "tile-end"
WhyEnd  == IF phase = "tree" THEN "unclosed" ELSE "root-short"

Step(e) ==
  IF e.ev = "begin" THEN
       /\ (IF phase # "idle" /\ ~bad THEN Report("unfinished") ELSE TRUE)
       /\ BeginE(e) /\ cur' = e.i /\ bad' = FALSE
  ELSE IF e.ev = "stop" THEN
       /\ (IF phase # "idle" /\ ~bad THEN Report("unfinished") ELSE TRUE)
       /\ Skip /\ UNCHANGED <<cur, bad>>
  ELSE IF bad THEN Skip /\ UNCHANGED <<cur, bad>>
  ELSE IF e.ev = "enter" THEN
       IF EnterG(e) THEN /\ (IF TextOK(e) THEN TRUE ELSE Report("text"))
                         /\ EnterE(e) /\ UNCHANGED <<cur, bad>>
                    ELSE Reject(WhyNode(e))
  ELSE IF e.ev = "leaf" THEN
       IF LeafG(e) /\ e.nc = 0 THEN /\ (IF TextOK(e) THEN TRUE ELSE Report("text"))
                                    /\ LeafE(e) /\ UNCHANGED <<cur, bad>>
                               ELSE Reject(WhyNode(e))
  ELSE IF e.ev = "exit" THEN
       IF ExitG THEN ExitE /\ UNCHANGED <<cur, bad>> ELSE Reject(WhyExit)
  ELSE IF e.ev = "err" THEN
       IF ErrG(e) THEN ErrE(e) /\ UNCHANGED <<cur, bad>> ELSE Reject("error-range")
  ELSE IF e.ev = "tail" THEN
       IF TailG(e) THEN TailE(e) /\ UNCHANGED <<cur, bad>> ELSE Reject("tail-unreported")
  ELSE IF e.ev = "end" THEN
       IF EndG THEN EndE /\ UNCHANGED <<cur, bad>> ELSE Reject(WhyEnd)
  ELSE Reject("crash")

Next == l <= Len(Trace) /\ Step(Trace[l]) /\ l' = l + 1

Inv == PosIsNext /\ Closed /\ StackNested
=============================================================================
