CONSTANT N = 5
INIT Init
NEXT Next
INVARIANT PartialAtEnd
INVARIANT PrefixPartial
INVARIANT KeepsReading
INVARIANT Rule
