---------------------------- MODULE MCElvSyntax ----------------------------
(* Generator configuration of ElvSyntax: TLC expands the derivation state machine from
   Chunk with nesting fuel D,
     exhaustively (breadth first) over all leftmost derivations of at most S expansions, or
     by seeded random walks (-simulate) of at most -depth expansions,
   and prints every completed program (token sequence) as one JSON array. *)
EXTENDS ElvSyntax, TLC, Json
CONSTANTS D, S
Init == form = <<NT("Chunk", D)>>
Next == Expand
Bound == TLCGet("level") <= S
Emit == Done => PrintT(ToJson(Tokens))
=============================================================================
