---------------------------- MODULE MCElvSyntax ----------------------------
(* Generator configuration of ElvSyntax: TLC expands the derivation state machine from
   Chunk with nesting fuel D,
     exhaustively (breadth first) over all leftmost derivations of at most S expansions, or
     by seeded random walks (-simulate) of at most S expansions,
   and prints every completed program (token sequence) as one JSON array. *)
EXTENDS ElvSyntax, TLC, Json
CONSTANT S
VARIABLE steps
Init == form = <<NT("Chunk", D)>> /\ steps = 0
Next == steps < S /\ Expand /\ steps' = steps + 1 /\ steps' + Need(form', 1) <= S
Emit == Done => PrintT(ToJson(Tokens))
=============================================================================
