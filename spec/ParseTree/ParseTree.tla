------------------------------ MODULE ParseTree ------------------------------
(* C01 -- parsing is total and lossless.

   A TREE-WALK AUTOMATON.  It reads the pre-order walk of the tree returned by the real parser
   (parse.Parse; the walk uses only parse.Children / Range / SourceText / Parent and
   parse.UnpackErrors) and accepts exactly the walks of lossless trees.  There is no second
   parser: the oracle is structural.

   State
     n       length of the source in bytes
     src     the source bytes (a sequence of 0..255), or << >> when the input is long and the
             executor ships only the result of the byte comparison (bytes = FALSE)
     bytes   whether src was shipped
     phase   "idle"  no input under examination
             "tree"  walking the tree
             "errs"  the root has been closed; parse errors are being read
             "tail"  the unparsed tail has been accounted for (UnparsedTail happened)
     stack   the open nodes, innermost last: [id, from, to, next, nc, seen]
               next = where the next child has to start, seen = children read so far
     pos     number of source bytes covered by the leaves read so far (= end of the last leaf)
     nid     id of the last node read (ids are the pre-order numbers 1, 2, ...)
     rootTo  end of the root's range once the root is closed
     errs    the parse errors read so far: set of [from, to, partial]

   Actions = one per trace line.  An action is split into a guard  XxxG(e)  and an effect
   XxxE(e)  so that the trace module can report a line that no action accepts instead of
   deadlocking; the action proper is  XxxG(e) /\ XxxE(e).  THE GUARDS ARE THE PROPERTY:

     Begin(n, src)              a new source text
     Enter(id,par,from,to,nc,text)   a node with nc >= 1 children
        range     0 <= from <= to <= n
        parent    Parent(node) is the innermost open node (par = top.id; root: par = 0)
        tile      from = top.next  (starts where the previous sibling ended / where the
                  parent starts: no gap, no overlap, in order)  and  to <= top.to
        count     the parent still expects a child (top.seen < top.nc)
        text      SourceText(node) = src[from..to)                       (EnterText)
     Leaf(id,par,from,to,text)  a node without children: as Enter, and additionally
        concat    from = pos: its text continues the concatenation of the leaves so far
     Exit                       closes the innermost node; only when its children reached its
                                end (top.next = top.to) and all nc of them were read
     Err(from,to,partial)       a parse error; positioned inside the source 0<=from<=to<=n
     UnparsedTail(k)            NAMED ACCEPTED DEVIATION.  When the parser stops early the root
                                covers only [0,k), k < n, and parser.done reports the rest
                                with an "unexpected rune" error that starts exactly at k.  The
                                statement's "leaves concatenate back to the original text" is
                                read together with this fourth anchored mechanism ("trailing
                                unparsed text is reported"): accepted iff some error has
                                from = k = rootTo; the leaves then concatenate to src[0..k).
     End                        the input is finished: the root was closed and covers [0,n),
                                or UnparsedTail happened.
     Crash                      (panic or watchdog expiry inside parse.Parse) -- there is no
                                such action: the line is never accepted.

   Unspecified: nothing about Err.partial (that is C02, see SmartEnter.tla), nothing about the
   kinds of nodes, the number or the messages of the errors.                                *)
EXTENDS Integers, Sequences, FiniteSets

VARIABLES n, src, bytes, phase, stack, pos, nid, rootTo, errs
ptvars == <<n, src, bytes, phase, stack, pos, nid, rootTo, errs>>

Top == stack[Len(stack)]
Pop == SubSeq(stack, 1, Len(stack) - 1)

PTInit == /\ n = 0 /\ src = << >> /\ bytes = FALSE /\ phase = "idle" /\ stack = << >>
          /\ pos = 0 /\ nid = 0 /\ rootTo = -1 /\ errs = {}

---------------------------------------------------------------------------
BeginG(e) == phase = "idle"
BeginE(e) == /\ n' = e.n /\ src' = e.src /\ bytes' = e.bytes /\ phase' = "tree"
             /\ stack' = << >> /\ pos' = 0 /\ nid' = 0 /\ rootTo' = -1 /\ errs' = {}

---------------------------------------------------------------------------
RangeOK(e)  == 0 <= e.from /\ e.from <= e.to /\ e.to <= n
IdOK(e)     == e.id = nid + 1
ParentOK(e) == IF stack = << >> THEN e.par = 0 ELSE e.par = Top.id
TileOK(e)   == IF stack = << >> THEN e.from = 0 /\ nid = 0
               ELSE e.from = Top.next /\ e.to <= Top.to
CountOK(e)  == IF stack = << >> THEN TRUE ELSE Top.seen < Top.nc
ConcatOK(e) == e.from = pos

\* the structural part of the guard of Enter / Leaf
NodeG(e) == phase = "tree" /\ RangeOK(e) /\ IdOK(e) /\ ParentOK(e) /\ TileOK(e) /\ CountOK(e)

\* the text part: bytes compared here when shipped; otherwise the executor evaluated the
\* primitive "SourceText(node) == src[from:to]" (e.tok) and ships the length
TextOK(e) == IF bytes THEN e.text = SubSeq(src, e.from + 1, e.to)
             ELSE e.tok /\ e.tl = e.to - e.from

EnterG(e) == NodeG(e) /\ e.nc >= 1
EnterE(e) == /\ stack' = Append(stack, [id |-> e.id, from |-> e.from, to |-> e.to,
                                        next |-> e.from, nc |-> e.nc, seen |-> 0])
             /\ nid' = e.id
             /\ UNCHANGED <<n, src, bytes, phase, pos, rootTo, errs>>

\* a closed child (leaf, or node at Exit) ending at t is credited to its parent
Credit(st, t) == [st EXCEPT ![Len(st)].next = t, ![Len(st)].seen = @ + 1]

LeafG(e) == NodeG(e) /\ ConcatOK(e)
LeafE(e) == /\ nid' = e.id /\ pos' = e.to
            /\ IF stack = << >>
               THEN rootTo' = e.to /\ phase' = "errs" /\ stack' = stack
               ELSE stack' = Credit(stack, e.to) /\ UNCHANGED <<rootTo, phase>>
            /\ UNCHANGED <<n, src, bytes, errs>>

ExitG == phase = "tree" /\ (IF stack = << >> THEN FALSE ELSE Top.next = Top.to /\ Top.seen = Top.nc)
ExitE == /\ IF Len(stack) = 1
            THEN rootTo' = Top.to /\ phase' = "errs" /\ stack' = << >>
            ELSE stack' = Credit(Pop, Top.to) /\ UNCHANGED <<rootTo, phase>>
         /\ UNCHANGED <<n, src, bytes, pos, nid, errs>>

ErrG(e) == phase = "errs" /\ RangeOK(e)
ErrE(e) == /\ errs' = errs \cup {[from |-> e.from, to |-> e.to, partial |-> e.partial]}
           /\ UNCHANGED <<n, src, bytes, phase, stack, pos, nid, rootTo>>

TailG(e) == phase = "errs" /\ e.k = rootTo /\ e.k < n /\ \E x \in errs : x.from = e.k
TailE(e) == phase' = "tail" /\ UNCHANGED <<n, src, bytes, stack, pos, nid, rootTo, errs>>

EndG == (phase = "errs" /\ rootTo = n) \/ phase = "tail"
EndE == phase' = "idle" /\ UNCHANGED <<n, src, bytes, stack, pos, nid, rootTo, errs>>

---------------------------------------------------------------------------
(* Invariants of the automaton (checked in MCParseTree, and in every state of every validated
   trace): the bytes covered by the leaves are always where the next child must start. *)
PosIsNext == IF phase = "tree" /\ stack # << >> THEN Top.next = pos /\ pos <= Top.to ELSE TRUE
Closed    == phase \in {"errs", "tail"} => (stack = << >> /\ rootTo = pos /\ 0 <= rootTo /\ rootTo <= n)
StackNested == \A i \in 1..Len(stack) - 1 :
                 /\ stack[i].from <= stack[i+1].from /\ stack[i+1].to <= stack[i].to
                 /\ stack[i].next = stack[i+1].from
=============================================================================
