INIT Init
NEXT Next
INVARIANT Theorem
INVARIANT Emit
