----------------------------- MODULE SmartEnter -----------------------------
(* C02 -- errors in prefixes of valid programs are partial; Enter keeps reading.

   State (one prefix under examination)
     n         length in bytes of the text given to the parser
     pv        the text is a proper rune-boundary prefix of a syntactically valid program
     errs      the parse errors: set of [from, to, partial]
     decision  what the Enter key did: "none" (not pressed yet) | "newline" | "submit"

   Actions (shaped like the code)
     ParsePrefix(n, pv, E)   parse.Parse returned the error set E.  Mechanism of
                             parser.errorp: an error is marked partial iff its range starts at
                             len(src)  -- in the model E ranges over all sets built that way;
                             for pv the set is restricted by the hypothesis PrefixHyp (that is
                             the empirical content of the property, judged on the real parser).
     Enter                   edit.isSyntaxComplete / smart-enter: a newline is inserted iff
                             some error starts at the very end of the text, else the code is
                             submitted.

   Properties (the statement of C02), as predicates over a recorded case
   c = [len, prefix, errs, enter, area]  and as invariants of the model:
     PartialAtEnd     \A e : e.partial => e.from = n
     PrefixPartial    pv => \A e : e.partial
     KeepsReading     pv /\ errs # {} => decision = "newline"
     Rule             decision = "newline" <=> \E e : e.from = n      (the documented rule; the
                      model's theorem is that Rule and the two mechanisms give KeepsReading)

   PartialAtEnd (the statement's second sentence is not restricted to prefixes) and the error
   ranges are judged on every recorded text, also on texts that are not prefixes of valid
   programs (c.prefix = FALSE); PrefixPartial and KeepsReading only on prefixes.

   Unspecified(c): a prefix that parses cleanly.  The statement's "for every such prefix"
   speaks about prefixes with errors; what Enter does on a clean prefix (the code submits) is
   left open, both decisions are accepted.                                                  *)
EXTENDS Integers, FiniteSets, Sequences

\* ---- the rule over a recorded case (errs is a sequence of records) ----
ErrSet(c)       == {c.errs[i] : i \in 1..Len(c.errs)}
InRange(c)      == \A e \in ErrSet(c) : 0 <= e.from /\ e.from <= e.to /\ e.to <= c.len
PartialAtEndC(c)  == \A e \in ErrSet(c) : e.partial => e.from = c.len
PrefixPartialC(c) == c.prefix => \A e \in ErrSet(c) : e.partial
Unspecified(c)  == ErrSet(c) = {}
\* c.enter: the hook edit.VerifIsSyntaxComplete said "not complete" (Enter inserts a newline);
\* c.area: -1 not driven, 1 the real smart-enter builtin inserted a newline into the real code
\* area, 0 it did not
KeepsReadingC(c) == (c.prefix /\ ~Unspecified(c)) => (c.enter /\ c.area # 0)
CaseOK(c) == InRange(c) /\ PartialAtEndC(c) /\ PrefixPartialC(c) /\ KeepsReadingC(c)
Why(c) == IF ~InRange(c) THEN "error-range"
          ELSE IF ~PartialAtEndC(c) THEN "partial-not-at-end"
          ELSE IF ~PrefixPartialC(c) THEN "prefix-nonpartial-error"
          ELSE IF ~c.enter THEN "enter-submits" ELSE "code-area-submits"

\* ---- the model ----
CONSTANT N
VARIABLES n, pv, errs, decision
vars == <<n, pv, errs, decision>>

Ranges(m) == {r \in (0..m) \X (0..m) : r[1] <= r[2]}
MkErr(r, m) == [from |-> r[1], to |-> r[2], partial |-> (r[1] = m)]       \* parser.errorp
PrefixHyp(E) == \A e \in E : e.partial

Init == n = 0 /\ pv = FALSE /\ errs = {} /\ decision = "none"
ParsePrefix == /\ decision = "none" /\ errs = {} /\ n = 0
               /\ \E m \in 0..N, p \in BOOLEAN : \E r1 \in Ranges(m), r2 \in Ranges(m), j \in 0..2 :
                    LET R == IF j = 0 THEN {} ELSE IF j = 1 THEN {r1} ELSE {r1, r2}   \* at most 2 errors
                        E == {MkErr(r, m) : r \in R} IN
                    /\ p => PrefixHyp(E)
                    /\ n' = m /\ pv' = p /\ errs' = E
               /\ UNCHANGED decision
Enter == /\ decision = "none"
         /\ decision' = IF \E e \in errs : e.from = n THEN "newline" ELSE "submit"  \* isSyntaxComplete
         /\ UNCHANGED <<n, pv, errs>>
Next == ParsePrefix \/ Enter

PartialAtEnd  == \A e \in errs : e.partial => e.from = n
PrefixPartial == pv => \A e \in errs : e.partial
KeepsReading  == (pv /\ errs # {} /\ decision # "none") => decision = "newline"
Rule          == decision # "none" => (decision = "newline" <=> \E e \in errs : e.from = n)
=============================================================================
