CONSTANT N = 0
INIT JInit
NEXT JNext
INVARIANT Inv
