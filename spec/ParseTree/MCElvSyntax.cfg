CONSTANTS D = 1 S = 6
INIT Init
NEXT Next
INVARIANT Emit
