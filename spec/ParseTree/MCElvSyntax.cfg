CONSTANTS D = 1 S = 12
INIT Init
NEXT Next
CONSTRAINT Bound
INVARIANT Emit
