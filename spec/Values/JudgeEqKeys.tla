----------------------------- MODULE JudgeEqKeys -----------------------------
(* V for C08: long random histories recorded on real maps (vals.Map and the builtins), judged step
   by step against EqKeys.  One recorded step (all fields always present):
     [h, s       history id and step number (s = 1 is the first step on the history's initial map)
      op         "assoc" | "dissoc" | "has-key" | "index"
      c, r, x    class (1..n), representative, value (0 for none)
      pre, post  PROJECTION of the real map before/after the step: sequence over the classes giving the
                 value bound to the class (0 = absent), obtained by iterating the real map and
                 attributing every entry to the class whose representatives it is eq to
      dups       number of surplus entries: entries whose class already had an entry (must be 0)
      strays     entries that belong to no class and are no filler (must be 0)
      len        real length minus the number of filler keys
      found, val what the step returned (has-key / index; FALSE, 0 for the others)]
   The step relation is EqKeys' (Assoc/Dissoc/HasKey/Index on a class-keyed function). *)
EXTENDS Integers, Sequences, FiniteSets, TLC, Json
Cases == ndJsonDeserialize("cases.ndjson")
VARIABLE k
Init == k = 0
Next == k < Len(Cases) /\ k' = k + 1

Count(s) == Cardinality({i \in 1..Len(s) : s[i] # 0})
SpecPost(c) == CASE c.op = "assoc"  -> [c.pre EXCEPT ![c.c] = c.x]
                 [] c.op = "dissoc" -> [c.pre EXCEPT ![c.c] = 0]
                 [] OTHER           -> c.pre
Why(c, prev) ==
     (IF c.post # SpecPost(c) THEN {"post-state"} ELSE {})
\cup (IF c.dups # 0 THEN {"two-eq-keys"} ELSE {})
\cup (IF c.strays # 0 THEN {"stray-key"} ELSE {})
\cup (IF c.len # Count(c.post) THEN {"len"} ELSE {})
\cup (IF c.op = "has-key" /\ c.found # (c.pre[c.c] # 0) THEN {"has-key"} ELSE {})
\cup (IF c.op = "index" /\ (c.found # (c.pre[c.c] # 0) \/ c.val # c.pre[c.c]) THEN {"index"} ELSE {})
\cup (IF prev.h = c.h /\ prev.s + 1 = c.s /\ prev.post # c.pre THEN {"persistence"} ELSE {})

Inv == k = 0 \/ LET w == Why(Cases[k], IF k = 1 THEN [h |-> -1, s |-> 0, post |-> <<>>] ELSE Cases[k - 1])
                IN \A e \in w : PrintT(<<"BAD", k, e>>)     \* one short line per reason (TLC wraps long values)
=============================================================================
