-------------------------------- MODULE Order --------------------------------
(* Theorems of C09 as predicates over index sets and relations given as operators on indices.
   They are applied twice: to the specification's own relations over a value universe (M: is the
   documentation consistent?) and to relation matrices OBSERVED on the real code (V).

     eq(i, j)   \in BOOLEAN          "eq reports i and j equal"
     refl(i)    \in BOOLEAN          whether eq is REQUIRED to be reflexive at i (no NaN inside)
     cmp(i, j)  \in {-1, 0, 1, UNCMP} compare; UNCMP = 2 = uncomparable (exception)
     tot(i, j)  \in {-1, 0, 1}       compare &total
     ty(i)                            type name of i

   I is the set the FIRST index ranges over, J the set of the others: the model checker splits the
   work by I = {a} per state; judges use I = J. *)
EXTENDS Integers

UNCMP == 2

EqReflexive(I, eq(_, _), refl(_)) == \A i \in I : refl(i) => eq(i, i)
EqIrreflexiveAtNaN(I, eq(_, _), refl(_)) == \A i \in I : ~refl(i) => ~eq(i, i)
EqSymmetric(I, J, eq(_, _))       == \A i \in I, j \in J : eq(i, j) => eq(j, i)
EqTransitive(I, J, eq(_, _))      == \A i \in I, j \in J : eq(i, j) => \A k \in J : eq(j, k) => eq(i, k)

\* compare outputs 0 for eq values
EqImpliesCmp0(I, J, eq(_, _), cmp(_, _)) == \A i \in I, j \in J : eq(i, j) => cmp(i, j) = 0

\* antisymmetry: cmp(j, i) is the mirror image of cmp(i, j) (uncomparable mirrors to uncomparable)
Mirror(s) == IF s = UNCMP THEN UNCMP ELSE -s
CmpAntisymmetric(I, J, cmp(_, _)) == \A i \in I, j \in J : cmp(j, i) = Mirror(cmp(i, j))

\* transitivity of the preorder "cmp <= 0", strictness included:
\* i <= j <= k  =>  i <= k, and i < k as soon as one of the two steps is strict
CmpTransitive(I, J, cmp(_, _)) ==
  \A i \in I, j \in J : cmp(i, j) \in {-1, 0} =>
    \A k \in J : cmp(j, k) \in {-1, 0} =>
       (IF cmp(i, j) = 0 /\ cmp(j, k) = 0 THEN cmp(i, k) = 0 ELSE cmp(i, k) = -1)

TotTotal(I, J, tot(_, _)) == \A i \in I, j \in J : tot(i, j) \in {-1, 0, 1}

\* compare &total agrees with compare wherever compare is defined
TotAgreesWithCmp(I, J, cmp(_, _), tot(_, _)) ==
  \A i \in I, j \in J : cmp(i, j) # UNCMP => tot(i, j) = cmp(i, j)

\* compare &total groups by type: no value of another type lies between (or ties with) two values
\* of one type
TotGrouped(I, J, tot(_, _), ty(_)) ==
  \A i \in I, j \in J : (ty(j) # ty(i) /\ tot(i, j) \in {-1, 0}) =>
    \A k \in J : ty(k) = ty(i) => tot(j, k) = 1
=============================================================================
