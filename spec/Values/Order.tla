-------------------------------- MODULE Order --------------------------------
(* Theorems of C09 as predicates over index sets and relations given as operators on indices.
   They are applied twice: to the specification's own relations over a value universe (M: is the
   documentation consistent?) and to relation matrices OBSERVED on the real code (V).

     eq(i, j)   \in BOOLEAN          "eq reports i and j equal"
     refl(i)    \in BOOLEAN          whether eq is REQUIRED to be reflexive at i (no NaN inside)
     cmp(i, j)  \in {-1, 0, 1, UNCMP} compare; UNCMP = 2 = uncomparable (exception)
     tot(i, j)  \in {-1, 0, 1}       compare &total
     ty(i)                            type name of i

   I is the set the FIRST index ranges over, J the set of the others: the model checker splits the
   work by I = {a} per state; judges use I = J. *)
EXTENDS Integers

UNCMP == 2

EqReflexive(I, eq(_, _), refl(_)) == \A i \in I : refl(i) => eq(i, i)
EqIrreflexiveAtNaN(I, eq(_, _), refl(_)) == \A i \in I : ~refl(i) => ~eq(i, i)
EqSymmetric(I, J, eq(_, _))       == \A i \in I, j \in J : eq(i, j) => eq(j, i)
EqTransitive(I, J, eq(_, _))      == \A i \in I, j \in J : eq(i, j) => \A k \in J : eq(j, k) => eq(i, k)

\* compare outputs 0 for eq values
EqImpliesCmp0(I, J, eq(_, _), cmp(_, _)) == \A i \in I, j \in J : eq(i, j) => cmp(i, j) = 0

\* antisymmetry: cmp(j, i) is the mirror image of cmp(i, j) (uncomparable mirrors to uncomparable)
Mirror(s) == IF s = UNCMP THEN UNCMP ELSE -s
CmpAntisymmetric(I, J, cmp(_, _)) == \A i \in I, j \in J : cmp(j, i) = Mirror(cmp(i, j))

\* transitivity of the preorder "cmp <= 0", strictness included:
\* i <= j <= k  =>  i <= k, and i < k as soon as one of the two steps is strict
CmpTransitive(I, J, cmp(_, _)) ==
  \A i \in I, j \in J : cmp(i, j) \in {-1, 0} =>
    \A k \in J : cmp(j, k) \in {-1, 0} =>
       (IF cmp(i, j) = 0 /\ cmp(j, k) = 0 THEN cmp(i, k) = 0 ELSE cmp(i, k) = -1)

TotTotal(I, J, tot(_, _)) == \A i \in I, j \in J : tot(i, j) \in {-1, 0, 1}

\* compare &total agrees with compare wherever compare is defined
TotAgreesWithCmp(I, J, cmp(_, _), tot(_, _)) ==
  \A i \in I, j \in J : cmp(i, j) # UNCMP => tot(i, j) = cmp(i, j)

\* compare &total groups by type: no value of another type lies between (or ties with) two values
\* of one type
TotGrouped(I, J, tot(_, _), ty(_)) ==
  \A i \in I, j \in J : (ty(j) # ty(i) /\ tot(i, j) \in {-1, 0}) =>
    \A k \in J : ty(k) = ty(i) => tot(j, k) = 1

(* Rank formulation (O(n^2) instead of O(n^3)).  For a relation tot on a finite set J let
   below(i) = number of j with tot(j, i) = -1.  THEOREM: tot is a total preorder (total,
   antisymmetric in the sense above, transitive with strictness) iff
   tot(i, j) = Sign(below(i) - below(j)) for all i, j.   (<=: a relation induced by an integer-valued
   function is a total preorder.  =>: in a total preorder i < j implies below(i) < below(j) because
   everything below i is below j and i itself is below j but not below i; i ~ j implies equal counts.)
   rk(i) must be below(i); RankIsCount checks that, TotRanked the equation. *)
SignOf(n) == IF n < 0 THEN -1 ELSE IF n > 0 THEN 1 ELSE 0
RankIsCount(I, J, tot(_, _), rk(_), card(_)) == \A i \in I : rk(i) = card({j \in J : tot(j, i) = -1})
TotRanked(I, J, tot(_, _), rk(_)) == \A i \in I, j \in J : tot(i, j) = SignOf(rk(i) - rk(j))
\* grouped by type, given lo(t)/hi(t) = least/greatest rank among the values of type t (tys = all types)
TotGroupedByRank(I, tys, rk(_), ty(_), lo(_), hi(_)) ==
  \A i \in I : /\ lo(ty(i)) <= rk(i) /\ rk(i) <= hi(ty(i))
                /\ \A t \in tys : t # ty(i) => (rk(i) < lo(t) \/ rk(i) > hi(t))
=============================================================================
