INIT Init
NEXT Next
