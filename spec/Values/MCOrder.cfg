CONSTANT GEN = 0
CONSTANT NTR = 1
CONSTANT DIRECT = 0
INIT Init
NEXT Next
VIEW View
INVARIANT WellFormed
INVARIANT LEqRefl
INVARIANT LEqSym
INVARIANT LEqTrans
INVARIANT LEqCmp0
INVARIANT LCmpAnti
INVARIANT LCmpTrans
INVARIANT LTotTotal
INVARIANT LTotAnti
INVARIANT LTotTrans
INVARIANT LTotAgrees
INVARIANT LTotGrouped
INVARIANT LTotRanked
INVARIANT LTotGroupedR
INVARIANT LNumTotal
