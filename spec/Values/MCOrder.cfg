CONSTANT GEN = 0
INIT Init
NEXT Next
INVARIANT WellFormed
INVARIANT LEqRefl
INVARIANT LEqSym
INVARIANT LEqTrans
INVARIANT LEqCmp0
INVARIANT LCmpAnti
INVARIANT LCmpTrans
INVARIANT LTotTotal
INVARIANT LTotAnti
INVARIANT LTotTrans
INVARIANT LTotAgrees
INVARIANT LTotGrouped
INVARIANT LNumTotal
