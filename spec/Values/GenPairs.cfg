INIT Init
NEXT Next
VIEW View
INVARIANT Sane
INVARIANT Emit
