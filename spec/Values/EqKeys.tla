------------------------------- MODULE EqKeys -------------------------------
(* C08 -- values that are eq are the same map key.

   State.  m: a map keyed by Eq-CLASSES (not by values): a function from a subset of Classes to
   entries [x |-> value, r |-> representative used by the Assoc that created/overwrote the entry].
   A concrete key is a pair <<c, r>>: representative r (a differently constructed but eq value) of
   class c.  Because the state is keyed by class, the specification IS the statement "representatives
   are interchangeable": no action's outcome depends on r, and a map cannot hold two eq keys.
   `r` in an entry is history only (which representative the implementation retains as the stored
   key object is Unspecified and never observed through this module).
   fill \in {0,1}: whether the real map additionally holds filler keys, eq to no class (the executor
   concretises fill = 1 as 1..2000 keys chosen by their real hash bits); it never changes.

   Actions (one per operation of vals.Map / the builtins has-key, indexing, assoc, dissoc):
     HasKey(c, r)     observes whether the class is present
     Index(c, r)      observes the value, or "missing" (exception / ok = false)
     Assoc(c, r, x)   m' = m with class c bound to x
     Dissoc(c, r)     m' = m without class c (absent: unchanged)
   Every action leaves an observation in `last`:
     [op, c, r, x, found, val, len, neq]   len = number of class keys; neq = number of keys of the
                                           map that are eq to <<c, r>> after the action.
   Properties: NoTwoEqKeys (neq <= 1 always), LenIsClassCount, RepIndependent (the observation part
   found/val/len/neq of every enabled read is the same for all representatives of a class).
   Unspecified: which representative a map retains; order of keys in iteration. *)
EXTENDS Integers, FiniteSets, Sequences
CONSTANTS Classes, Reps, Vals
VARIABLES m, fill, last

NoVal == 0                       \* Vals must not contain 0
Keys  == Classes \X Reps

Present(mm, c) == c \in DOMAIN mm
Lookup(mm, c)  == IF Present(mm, c) THEN mm[c].x ELSE NoVal
WithKey(mm, c, r, x) == [d \in (DOMAIN mm) \cup {c} |-> IF d = c THEN [x |-> x, r |-> r] ELSE mm[d]]
Without(mm, c) == [d \in (DOMAIN mm) \ {c} |-> mm[d]]
Obs(op, c, r, x, mm) == [op |-> op, c |-> c, r |-> r, x |-> x,
                         found |-> Present(mm, c), val |-> Lookup(mm, c),
                         len |-> Cardinality(DOMAIN mm),
                         neq |-> IF Present(mm, c) THEN 1 ELSE 0]

TypeOK == /\ DOMAIN m \subseteq Classes
          /\ \A c \in DOMAIN m : m[c].x \in Vals /\ m[c].r \in Reps
          /\ fill \in {0, 1}

Init == /\ m = [c \in {} |-> 0]
        /\ fill \in {0, 1}
        /\ last = Obs("new", 0, 0, NoVal, m)

HasKey(c, r)   == /\ last' = Obs("has-key", c, r, NoVal, m) /\ UNCHANGED <<m, fill>>
Index(c, r)    == /\ last' = Obs("index", c, r, NoVal, m)   /\ UNCHANGED <<m, fill>>
Assoc(c, r, x) == /\ m' = WithKey(m, c, r, x)
                  /\ last' = Obs("assoc", c, r, x, m') /\ UNCHANGED fill
Dissoc(c, r)   == /\ m' = Without(m, c)
                  /\ last' = Obs("dissoc", c, r, NoVal, m') /\ UNCHANGED fill

Mutate == \E c \in Classes, r \in Reps : Dissoc(c, r) \/ \E x \in Vals : Assoc(c, r, x)
Read   == \E c \in Classes, r \in Reps : HasKey(c, r) \/ Index(c, r)
Next   == Mutate \/ Read

NoTwoEqKeys     == last.neq <= 1
LenIsClassCount == last.len = Cardinality(DOMAIN m)
RepIndependent  == \A c \in Classes, r1, r2 \in Reps :
                     LET o1 == Obs("index", c, r1, NoVal, m)  o2 == Obs("index", c, r2, NoVal, m)
                     IN o1.found = o2.found /\ o1.val = o2.val /\ o1.len = o2.len /\ o1.neq = o2.neq
\* the effect of a mutation is visible through EVERY representative, and only on its class
MutationSeenByAllReps ==
  [][\A c \in Classes :
       /\ (last'.op = "assoc" /\ last'.c = c)  => Lookup(m', c) = last'.x
       /\ (last'.op = "dissoc" /\ last'.c = c) => ~Present(m', c)
       /\ (last'.op \in {"assoc", "dissoc"} /\ last'.c # c) => Lookup(m', c) = Lookup(m, c)
       /\ (last'.op \in {"has-key", "index"}) => Lookup(m', c) = Lookup(m, c)]_<<m, fill, last>>
=============================================================================
