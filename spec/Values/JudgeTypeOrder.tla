--------------------------- MODULE JudgeTypeOrder ---------------------------
(* The order compare &total puts between values of different types is unspecified but must be
   consistent within a session: the table of signs observed between the 8 types (Values!Types) must
   be a strict total order.  One case = [to |-> 8 x 8 table]. *)
EXTENDS Values, TLC, Json
Cases == ndJsonDeserialize("cases.ndjson")
VARIABLE k
Init == k = 0
Next == k < Len(Cases) /\ k' = k + 1
Inv == k = 0 \/ TypeOrderOK(Cases[k].to) \/ PrintT(<<"BAD", k, "type-order">>)
=============================================================================
