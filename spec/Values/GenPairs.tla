------------------------------ MODULE GenPairs ------------------------------
(* G for C09 (and the pool for C08's hash implication): every ordered pair (i, j) of the value pool
   with the outcome the documentation prescribes, printed as JSON for the Go executor:
     POOL lines   {"pool": i, "term": <value term>}
     pair lines   {"a": i, "b": j, "eq": bool, "cmp": -1|0|1|2(uncomparable),
                   "tot": -1|0|1| 100+10*ta+tb (= sign of the session's type order between type
                          indices ta, tb: resolved by the executor from the observed type table,
                          whose consistency is judged by JudgeTypeOrder),
                   "num": both are numbers, "lt","le","ne": prescribed results of < <= == ,
                   "relunspec": a NaN operand (the builtin docs do not say; either result accepted)}
   The initial state holds the pool; its successors are the N*N pairs. *)
EXTENDS Values, TLC, Json
VARIABLES i, j, u

Init == i = 0 /\ j = 0 /\ u = Pool
        /\ \A k \in 1..Len(u) : PrintT(ToJson([pool |-> k, term |-> u[k]]))
Next == i = 0 /\ i' \in 1..Len(u) /\ j' \in 1..Len(u) /\ UNCHANGED u
View == <<i, j>>

Case == LET x == u[i]  y == u[j]
            nn == x.t = "num" /\ y.t = "num"
        IN [a |-> i, b |-> j,
            eq  |-> EqDoc(x, y),
            cmp |-> CmpDoc(x, y),
            tot |-> CmpTotalSym(x, y),
            num |-> nn,
            lt  |-> IF nn THEN NumLt(x.v, y.v) ELSE FALSE,
            le  |-> IF nn THEN NumLe(x.v, y.v) ELSE FALSE,
            ne  |-> IF nn THEN NumEqual(x.v, y.v) ELSE FALSE,
            relunspec |-> IF nn THEN NumRelUnspecified(x.v, y.v) ELSE FALSE]
Emit == i = 0 \/ PrintT(ToJson(Case))
\* sanity of every emitted expectation
Sane == i = 0 \/ LET c == Case IN /\ (c.eq => c.cmp = 0)
                                  /\ (c.cmp # UNC => c.tot = c.cmp)
                                  /\ (c.num /\ ~c.relunspec => (c.lt = (c.cmp = -1) /\ c.le = (c.cmp \in {-1, 0}) /\ c.ne = (c.cmp = 0)))
=============================================================================
