------------------------------- MODULE Values -------------------------------
(* The abstract Elvish value universe and the documented relations on it (C08, C09; reusable by
   C04, C10).  Self-contained: EXTENDS only standard modules, no CONSTANTs.

   VALUE TERMS (records with exactly the fields t, v; JSON: {"t":..,"v":..}):
     Nil                 [t |-> "nil",  v |-> 0]
     Bool(b)             [t |-> "bool", v |-> b]            b \in BOOLEAN
     Str(bs)             [t |-> "str",  v |-> bs]           bs = sequence of bytes 0..255 (TLC cannot index
                                                            strings; a string IS its byte sequence)
     Num(a)              [t |-> "num",  v |-> a]            a = number atom, see below
     List(s)             [t |-> "list", v |-> s]            s = sequence of value terms
     Map(ps)             [t |-> "map",  v |-> ps]           ps = sequence of <<key, value>> pairs in
                                                            CONSTRUCTION (insertion) order, keys pairwise
                                                            not EqDoc.  Every relation below ignores the order.
     Fn(id), Ns(id)      [t |-> "fn"|"ns", v |-> id]        closures / namespaces: identity only (id = string)
   A map term has several REPRESENTATIONS in the real code, all the same abstract value (EqDoc, SameKey and every
   rule "eq values hash equally" range over representation pairs): an ordinary map (any insertion order), and a
   FIELD MAP = Go struct with exported fields (typed bool/int/float64/string fields or `any` fields; keys are the
   dash-case field names).  The executors build all of them natively (valpool.Builder.Go variant 3, c08 fmTyped/fmAny/fmScore).
   Always test the tag (x.t) before touching x.v; never use TLA+ "=" on whole terms as a stand-in
   for Elvish equality (EqDoc is coarser: -0.0/+0.0, map order).

   NUMBER ATOMS are records [id, cls, ex, nan, rk]:
     id   literal text "<c>:<text>"; c = i (int) | z (bigint) | r (rat) | f (float); <text> is what
          (num <text>) takes, except that exact atoms may abbreviate 10^k as 1e<k>.
     cls  representation class "int" | "bigint" | "rat" | "float" (int = fits the 64-bit Go int,
          bigint = integer outside it, rat = non-integral rational, always in lowest terms)
     ex   exactness (cls # "float")
     nan  TRUE only for NaN
     rk   RANK: position in the MATHEMATICAL total order of the numbers of one pool/case.
          a.rk < b.rk  iff  value(a) < value(b) as real numbers (extended by -Inf/+Inf);
          a.rk = b.rk  iff  the values are mathematically equal (i:0, f:0.0, f:-0.0 share a rank).
          NaN carries rk = 0 and is never compared by rank.
     TLC has 32-bit integers and no floats, so it cannot derive rk from id: for the pool below rk is a
     hand-written, reviewed table (the executors re-derive it with math/big and refuse to run on a
     mismatch: "table audit"); for recorded random cases (V) the executor computes the ranks of the
     numbers of ONE case with math/big and ships them as data (trusted primitive: exact comparison of
     two rationals / IEEE doubles converted exactly by big.Rat.SetFloat64).

   RELATIONS (from website/ref/language.md "Number", builtin docs of eq, compare, <, <=, ==):
     EqDoc(a, b)        eq: same type and value.  Numbers: same exactness and same mathematical value
                        (an exact number has ONE representation, so exact 3 from any computation is eq to 3;
                        (num 1) is NOT eq to (num 1.0)); NaN is not eq to anything, nor is a container
                        holding NaN eq to itself.  +0.0 eq -0.0.  Lists pointwise, maps as sets of pairs.
     CmpDoc(a, b)       compare: -1 | 0 | 1 | UNC (uncomparable => exception).  Booleans false < true;
                        numbers by mathematical value, NaN = NaN and below every other number; strings
                        by bytes; lists lexicographically with elements compared recursively; any other
                        same-type pair: 0 if EqDoc else UNC; different types: UNC.
     CmpTotalSym(a, b)  compare &total, as a SYMBOLIC sign: -1 | 0 | 1 | TypeSym(ta, tb) where
                        TypeSym(ta, tb) = 100 + 10*TypeIdx(ta) + TypeIdx(tb) stands for "the sign of the
                        unspecified but session-consistent internal order between types ta # tb".
                        Resolve(sym, TR) turns it into a sign for a concrete type ranking TR.
     Unspecified: the order between different types (only consistency is required: TypeOrderOK);
     what counts as one "type" among functions (only closures are in the universe);
     which representative of an Eq class a map retains as key.
   SameKey(a, b) == EqDoc(a, b): the map-key identity demanded by C08. *)
EXTENDS Integers, Sequences, FiniteSets

(* ------------------------------ terms ------------------------------ *)
Nil      == [t |-> "nil",  v |-> 0]
Bool(b)  == [t |-> "bool", v |-> b]
Str(bs)  == [t |-> "str",  v |-> bs]
Num(a)   == [t |-> "num",  v |-> a]
List(s)  == [t |-> "list", v |-> s]
Map(ps)  == [t |-> "map",  v |-> ps]
Fn(id)   == [t |-> "fn",   v |-> id]
Ns(id)   == [t |-> "ns",   v |-> id]

Types    == <<"nil", "bool", "num", "str", "list", "map", "fn", "ns">>
TypeIdx(t) == CHOOSE i \in 1..Len(Types) : Types[i] = t

UNC == 2                                   \* "uncomparable"
Sign(n) == IF n < 0 THEN -1 ELSE IF n > 0 THEN 1 ELSE 0

(* ------------------------------ numbers ------------------------------ *)
A(id, cls, rk) == [id |-> id, cls |-> cls, ex |-> (cls # "float"), nan |-> FALSE, rk |-> rk]
NaNAtom        == [id |-> "f:NaN", cls |-> "float", ex |-> FALSE, nan |-> TRUE, rk |-> 0]

NumEq(a, b)  == a.ex = b.ex /\ ~a.nan /\ ~b.nan /\ a.rk = b.rk
NumCmp(a, b) == IF a.nan THEN (IF b.nan THEN 0 ELSE -1)
                ELSE IF b.nan THEN 1 ELSE Sign(a.rk - b.rk)
\* mathematical (numeric) relations behind the builtins <, <=, ==; NaN operands: Unspecified
NumLt(a, b)  == a.rk < b.rk
NumLe(a, b)  == a.rk <= b.rk
NumEqual(a, b) == a.rk = b.rk
NumRelUnspecified(a, b) == a.nan \/ b.nan

(* The number pool.  Ranks are spaced by 10 so that atoms can be inserted later.
   2^53 = 9007199254740992   2^63 = 9223372036854775808   2^64 = 18446744073709551616 *)
NumPool == <<
  A("f:-Inf",                          "float",  10),
  A("z:-9223372036854775809",          "bigint", 20),      \* -2^63-1
  A("i:-9223372036854775808",          "int",    30),      \* -2^63 = least int
  A("f:-9223372036854775808.0",        "float",  30),
  A("i:-9007199254740993",             "int",    40),      \* -2^53-1 (not a double)
  A("i:-9007199254740992",             "int",    50),
  A("f:-9007199254740992.0",           "float",  50),
  A("i:-2",                            "int",    60),
  A("r:-3/2",                          "rat",    70),
  A("f:-1.5",                          "float",  70),
  A("i:-1",                            "int",    80),
  A("f:-1.0",                          "float",  80),
  A("r:-1/2",                          "rat",    90),
  A("f:-0.5",                          "float",  90),
  A("i:0",                             "int",    100),
  A("f:0.0",                           "float",  100),
  A("f:-0.0",                          "float",  100),
  A("r:1/1e400",                       "rat",    110),     \* below every positive double
  A("f:5e-324",                        "float",  115),     \* least positive (subnormal) double
  A("r:1/10",                          "rat",    120),
  A("f:0.1",                           "float",  125),     \* the double nearest 0.1 is above 1/10
  A("f:0.3333333333333333",            "float",  130),     \* the double nearest 1/3 is below 1/3
  A("r:1/3",                           "rat",    135),
  A("r:1/2",                           "rat",    140),
  A("f:0.5",                           "float",  140),
  A("i:1",                             "int",    150),
  A("f:1.0",                           "float",  150),
  A("r:1000000000000000000000000000001/1000000000000000000000000000000", "rat", 155),  \* 1 + 10^-30
  A("r:3/2",                           "rat",    160),
  A("f:1.5",                           "float",  160),
  A("i:2",                             "int",    170),
  A("f:2.0",                           "float",  170),
  A("i:3",                             "int",    180),
  A("f:3.0",                           "float",  180),
  A("i:9007199254740991",              "int",    190),     \* 2^53-1
  A("f:9007199254740991.0",            "float",  190),
  A("i:9007199254740992",              "int",    200),     \* 2^53
  A("f:9007199254740992.0",            "float",  200),
  A("r:18014398509481985/2",           "rat",    205),     \* 2^53 + 1/2
  A("i:9007199254740993",              "int",    210),     \* 2^53+1 (not a double)
  A("i:9007199254740994",              "int",    220),     \* 2^53+2
  A("f:9007199254740994.0",            "float",  220),
  A("i:9223372036854775807",           "int",    230),     \* 2^63-1 = greatest int (not a double)
  A("z:9223372036854775808",           "bigint", 240),     \* 2^63
  A("f:9223372036854775808.0",         "float",  240),
  A("z:9223372036854775809",           "bigint", 250),
  A("z:10000000000000000000",          "bigint", 260),     \* 10^19, exactly the double 1e19
  A("f:1e19",                          "float",  260),
  A("z:18446744073709551616",          "bigint", 270),     \* 2^64
  A("f:18446744073709551616.0",        "float",  270),
  A("z:1e30",                          "bigint", 280),
  A("f:1e300",                         "float",  290),
  A("z:1e400",                         "bigint", 300),     \* above every finite double
  A("f:+Inf",                          "float",  310),
  NaNAtom >>

NumById(id) == NumPool[CHOOSE j \in 1..Len(NumPool) : NumPool[j].id = id]   \* (no LET: TLC would not cache constants built from it)
\* number term from the pool by id.  Written out (not Num(NumById(id))): TLC does not pre-evaluate and
\* cache constant definitions whose body passes a parameter through two operator levels.
NA(id) == [t |-> "num", v |-> NumPool[CHOOSE j \in 1..Len(NumPool) : NumPool[j].id = id]]

\* well-formedness of a set of number atoms sharing one rank scale
NumTableOK(S) ==
  /\ \A a \in S : a.ex = (a.cls # "float") /\ (a.nan => a.cls = "float")
  /\ \A a, b \in S : (a.ex /\ b.ex /\ a.rk = b.rk) => a.id = b.id      \* exact numbers are canonical
  /\ \A a, b \in S : a.id = b.id => a = b

(* ------------------------------ strings ------------------------------ *)
RECURSIVE LexInts(_, _)                     \* byte-wise lexicographic order of two int sequences
LexInts(s1, s2) ==
  IF s1 = <<>> THEN (IF s2 = <<>> THEN 0 ELSE -1)
  ELSE IF s2 = <<>> THEN 1
  ELSE IF Head(s1) # Head(s2) THEN Sign(Head(s1) - Head(s2))
  ELSE LexInts(Tail(s1), Tail(s2))

(* ------------------------------ eq ------------------------------ *)
RECURSIVE EqDoc(_, _)
EqDoc(a, b) ==
  IF a.t # b.t THEN FALSE
  ELSE CASE a.t = "nil"  -> TRUE
         [] a.t = "bool" -> a.v = b.v
         [] a.t = "str"  -> a.v = b.v
         [] a.t = "num"  -> NumEq(a.v, b.v)
         [] a.t = "list" -> /\ Len(a.v) = Len(b.v)
                            /\ \A i \in 1..Len(a.v) : EqDoc(a.v[i], b.v[i])
         [] a.t = "map"  -> /\ Len(a.v) = Len(b.v)
                            /\ \A i \in 1..Len(a.v) : \E j \in 1..Len(b.v) :
                                 EqDoc(a.v[i][1], b.v[j][1]) /\ EqDoc(a.v[i][2], b.v[j][2])
         [] OTHER        -> a.v = b.v            \* fn, ns: identity

SameKey(a, b) == EqDoc(a, b)

RECURSIVE HasNaN(_)
HasNaN(a) ==
  CASE a.t = "num"  -> a.v.nan
    [] a.t = "list" -> \E i \in 1..Len(a.v) : HasNaN(a.v[i])
    [] a.t = "map"  -> \E i \in 1..Len(a.v) : HasNaN(a.v[i][1]) \/ HasNaN(a.v[i][2])
    [] OTHER        -> FALSE

RECURSIVE WF(_)                             \* well-formed term
WF(a) ==
  CASE a.t = "list" -> \A i \in 1..Len(a.v) : WF(a.v[i])
    [] a.t = "map"  -> /\ \A i \in 1..Len(a.v) : WF(a.v[i][1]) /\ WF(a.v[i][2])
                       /\ \A i, j \in 1..Len(a.v) : i # j => ~EqDoc(a.v[i][1], a.v[j][1])
    [] OTHER        -> TRUE

(* ------------------------------ compare ------------------------------ *)
RECURSIVE CmpDoc(_, _)
CmpDoc(a, b) ==
  IF a.t # b.t THEN UNC
  ELSE CASE a.t = "bool" -> (IF a.v = b.v THEN 0 ELSE IF b.v THEN -1 ELSE 1)
         [] a.t = "num"  -> NumCmp(a.v, b.v)
         [] a.t = "str"  -> LexInts(a.v, b.v)
         [] a.t = "list" ->
              LET n  == IF Len(a.v) < Len(b.v) THEN Len(a.v) ELSE Len(b.v)
                  D  == {i \in 1..n : CmpDoc(a.v[i], b.v[i]) # 0}
              IN IF D = {} THEN Sign(Len(a.v) - Len(b.v))
                 ELSE LET i == CHOOSE k \in D : \A l \in D : k <= l IN CmpDoc(a.v[i], b.v[i])
         [] OTHER        -> (IF EqDoc(a, b) THEN 0 ELSE UNC)

TypeSym(ta, tb) == 100 + 10 * TypeIdx(ta) + TypeIdx(tb)
IsTypeSym(s)    == s >= 100
RECURSIVE CmpTotalSym(_, _)
CmpTotalSym(a, b) ==
  IF a.t # b.t THEN TypeSym(a.t, b.t)
  ELSE IF a.t = "list" THEN
         LET n  == IF Len(a.v) < Len(b.v) THEN Len(a.v) ELSE Len(b.v)
             D  == {i \in 1..n : CmpTotalSym(a.v[i], b.v[i]) # 0}
         IN IF D = {} THEN Sign(Len(a.v) - Len(b.v))
            ELSE LET i == CHOOSE k \in D : \A l \in D : k <= l IN CmpTotalSym(a.v[i], b.v[i])
       ELSE LET c == CmpDoc(a, b) IN IF c = UNC THEN 0 ELSE c

\* TR: a ranking of the types, [1..Len(Types) -> Int], injective
Resolve(s, TR) == IF IsTypeSym(s)
                  THEN Sign(TR[(s - 100) \div 10] - TR[(s - 100) % 10])
                  ELSE s
CmpTotalDoc(a, b, TR) == Resolve(CmpTotalSym(a, b), TR)

\* an observed table of signs between types, obs \in [1..n -> [1..n -> {-1,0,1}]], is a strict
\* total order on the types (what "consistent during one session" demands)
TypeOrderOK(obs) ==
  LET n == Len(Types) IN
  /\ \A i \in 1..n : obs[i][i] = 0
  /\ \A i, j \in 1..n : i # j => (obs[i][j] \in {-1, 1} /\ obs[j][i] = -obs[i][j])
  /\ \A i, j, k \in 1..n : (obs[i][j] = -1 /\ obs[j][k] = -1) => obs[i][k] = -1

(* ------------------------------ the value pool ------------------------------ *)
S(bs) == [t |-> "str", v |-> bs]     \* written out, see NA
StrPool == <<
  S(<<>>), S(<<97>>), S(<<97, 98>>), S(<<98>>), S(<<122>>),            \* "" a ab b z
  S(<<97, 255>>), S(<<255>>),                                           \* a\xff  \xff  (invalid UTF-8)
  S(<<97, 195, 169>>), S(<<195, 169>>),                                 \* aé  é
  S(<<239, 191, 191>>), S(<<240, 144, 128, 128>>),                      \* U+FFFF  U+10000 (byte order = code point order)
  S(<<49>>), S(<<49, 48>>), S(<<57>>), S(<<49, 46, 48>>) >>            \* 1 10 9 1.0 : number-like, compared as strings

AtomPool == <<Nil, Bool(FALSE), Bool(TRUE)>>
            \o [i \in 1..Len(NumPool) |-> Num(NumPool[i])]
            \o StrPool
            \o <<Fn("f1"), Fn("f2"), Ns("n1"), Ns("n2")>>

(* TLC pre-evaluates and caches a constant definition only if it can establish its level; that fails
   (silently: the definition is then re-evaluated at every use, 1000x slower) when a defined
   constant occurs inside TWO nested applications of user operators, e.g. List(<<Num(NaNAtom)>>).
   Hence: nested terms are built from named sub-terms, one constructor application per definition. *)
sa == S(<<97>>)   sb == S(<<98>>)   sx == S(<<120>>)   sy == S(<<121>>)
nanv == [t |-> "num", v |-> NaNAtom]
l0   == List(<<>>)
l1   == List(<<NA("i:1")>>)
lz   == List(<<NA("f:0.0")>>)
lnz  == List(<<NA("f:-0.0")>>)
m0   == Map(<<>>)
ma1  == Map(<< <<sa, NA("i:1")>> >>)
mbz  == Map(<< <<sb, NA("f:0.0")>> >>)
mbnz == Map(<< <<sb, NA("f:-0.0")>> >>)
ListPool == <<
  l0, l1, List(<<NA("f:1.0")>>), List(<<NA("i:2")>>),
  List(<<NA("i:1"), NA("i:2")>>), List(<<NA("i:1"), NA("i:2"), NA("i:3")>>),
  List(<<sa>>), List(<<sa, NA("i:1")>>), List(<<NA("i:1"), sa>>), List(<<sb>>),
  List(<<nanv>>), lz, lnz, List(<<NA("i:0")>>),
  List(<<l0>>), List(<<l1>>), List(<<l1, NA("i:2")>>),
  List(<<lnz>>), List(<<lz>>),
  List(<<Nil>>), List(<<Bool(TRUE)>>), List(<<Bool(FALSE)>>),
  List(<<NA("i:9007199254740993")>>), List(<<NA("f:9007199254740992.0")>>),
  List(<<m0>>), List(<<ma1>>), List(<<Fn("f1")>>),
  List(<<NA("i:1"), nanv>>) >>

MapPool == <<
  m0,
  ma1, Map(<< <<sa, NA("f:1.0")>> >>),
  Map(<< <<sa, NA("f:0.0")>> >>), Map(<< <<sa, NA("f:-0.0")>> >>),
  Map(<< <<sa, NA("i:1")>>, <<sb, NA("i:2")>> >>), Map(<< <<sb, NA("i:2")>>, <<sa, NA("i:1")>> >>),
  Map(<< <<NA("i:0"), sx>>, <<NA("f:0.0"), sy>> >>), Map(<< <<NA("f:-0.0"), sy>>, <<NA("i:0"), sx>> >>),
  Map(<< <<sa, nanv>> >>),
  Map(<< <<sa, l1>> >>), Map(<< <<l1, sa>> >>),
  Map(<< <<sa, mbz>> >>), Map(<< <<sa, mbnz>> >>) >>

Pool == AtomPool \o ListPool \o MapPool

PoolOK == /\ NumTableOK({NumPool[i] : i \in 1..Len(NumPool)})
          /\ \A i \in 1..Len(Pool) : WF(Pool[i])
          /\ \A i, j \in 1..Len(Pool) : i # j => Pool[i] # Pool[j]

(* ------------------------------ generated universes (M) ------------------------------ *)
SeqsUpTo(X, n) == UNION {[1..k -> X] : k \in 0..n}
ListsOver(X, n) == {List(s) : s \in SeqsUpTo(X, n)}
\* maps with at most n entries, keys from K (pairwise non-eq within a map), values from X; one
\* construction order per key sequence (both orders of a two-entry map are generated)
MapsOver(K, X, n) ==
  {Map(ps) : ps \in {q \in SeqsUpTo(K \X X, n) :
                       \A i, j \in 1..Len(q) : i # j => ~EqDoc(q[i][1], q[j][1])}}
=============================================================================
