------------------------------- MODULE EmitPool -------------------------------
(* Prints the value pool of Values.tla (one JSON line per value) for executors that only need the
   terms (C08's hash implication). *)
EXTENDS Values, TLC, Json
VARIABLE x
Init == x = 0 /\ \A k \in 1..Len(Pool) : PrintT(ToJson([pool |-> k, term |-> Pool[k]]))
Next == FALSE /\ x' = x
=============================================================================
