----------------------------- MODULE JudgeHashEq -----------------------------
(* C08, the pure implication: for every recorded pair of real values, "eq reports them equal" implies
   "they hash identically".  One case: [eq |-> what vals.Equal answered, hasheq |-> Hash(a) = Hash(b),
   speceq |-> -1 | 0 | 1: what EqDoc prescribes when the pair comes from the pool/terms (1 = eq,
   0 = not eq, -1 = not known)].  A pair that the documentation makes eq but the code does not is
   C09's business; here it only must not make the check vacuous, so it is reported as well. *)
EXTENDS Integers, Sequences, TLC, Json
Cases == ndJsonDeserialize("cases.ndjson")
VARIABLE k
Init == k = 0
Next == k < Len(Cases) /\ k' = k + 1
CaseOK(c) == c.eq => c.hasheq
Inv == k = 0 \/ CaseOK(Cases[k]) \/ PrintT(<<"BAD", k, "eq-but-different-hash">>)
=============================================================================
