------------------------------- MODULE MCOrder -------------------------------
(* M for C09: the documentation's own relations (EqDoc, CmpDoc, CmpTotalDoc) satisfy the theorems of
   Order.tla on a finite universe: the reviewed pool (GEN = 0) plus all lists of length <= 2 and
   maps of <= 2 entries of depth <= 2 over a core of critical atoms (GEN = 1).
   One state per first index a; each invariant quantifies over all partners (pairs and triples). *)
EXTENDS Values, Order, TLC, SequencesExt
CONSTANT GEN
VARIABLE a

nan == Num(NaNAtom)
Core == {NA("i:0"), NA("f:0.0"), NA("f:-0.0"), nan, NA("i:1"), NA("f:1.0"), sa, Nil}
Sub  == {List(<<>>), List(<<NA("i:0")>>), List(<<nan>>), List(<<sa>>), List(<<NA("f:-0.0")>>),
         Map(<<>>), Map(<< <<sa, NA("f:0.0")>> >>)}
GenSet == ListsOver(Core \cup Sub, 2)
          \cup MapsOver({sa, NA("i:0"), NA("f:0.0"), NA("f:-0.0")},
                        {NA("i:1"), NA("f:-0.0"), nan, List(<<NA("f:0.0")>>)}, 2)
USet == {Pool[i] : i \in 1..Len(Pool)} \cup (IF GEN = 1 THEN GenSet ELSE {})
U == SetToSeq(USet)
N == Len(U)
I == 1..N

EqM  == [i \in I |-> [j \in I |-> EqDoc(U[i], U[j])]]
CmpM == [i \in I |-> [j \in I |-> CmpDoc(U[i], U[j])]]
TotS == [i \in I |-> [j \in I |-> CmpTotalSym(U[i], U[j])]]
Refl == [i \in I |-> ~HasNaN(U[i])]
Ty   == [i \in I |-> U[i].t]

\* three rankings of the 8 types: the law must hold whatever the unspecified type order is
TRs == << <<1, 2, 3, 4, 5, 6, 7, 8>>, <<8, 7, 6, 5, 4, 3, 2, 1>>, <<3, 7, 1, 5, 8, 2, 6, 4>> >>
TotM == [r \in 1..Len(TRs) |-> [i \in I |-> [j \in I |-> Resolve(TotS[i][j], TRs[r])]]]

Init == a \in I
Next == UNCHANGED a

eq(i, j)  == EqM[i][j]
cmp(i, j) == CmpM[i][j]

WellFormed   == WF(U[a])
LEqRefl      == EqReflexive({a}, eq, LAMBDA i : Refl[i]) /\ EqIrreflexiveAtNaN({a}, eq, LAMBDA i : Refl[i])
LEqSym       == EqSymmetric({a}, I, eq)
LEqTrans     == EqTransitive({a}, I, eq)
LEqCmp0      == EqImpliesCmp0({a}, I, eq, cmp)
LCmpAnti     == CmpAntisymmetric({a}, I, cmp)
LCmpTrans    == CmpTransitive({a}, I, cmp)
LTotTotal    == \A r \in 1..Len(TRs) : TotTotal({a}, I, LAMBDA i, j : TotM[r][i][j])
LTotAnti     == \A r \in 1..Len(TRs) : CmpAntisymmetric({a}, I, LAMBDA i, j : TotM[r][i][j])
LTotTrans    == \A r \in 1..Len(TRs) : CmpTransitive({a}, I, LAMBDA i, j : TotM[r][i][j])
LTotAgrees   == \A r \in 1..Len(TRs) : TotAgreesWithCmp({a}, I, cmp, LAMBDA i, j : TotM[r][i][j])
LTotGrouped  == \A r \in 1..Len(TRs) : TotGrouped({a}, I, LAMBDA i, j : TotM[r][i][j], LAMBDA i : Ty[i])
\* within numbers the order is total and NaN is least
LNumTotal    == \A j \in I : (Ty[a] = "num" /\ Ty[j] = "num") => cmp(a, j) # UNC

ASSUME PoolOK
ASSUME PrintT(<<"UNIVERSE", N>>)
=============================================================================
