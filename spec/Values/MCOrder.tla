------------------------------- MODULE MCOrder -------------------------------
(* M for C09: the documentation's own relations (EqDoc, CmpDoc, CmpTotalDoc) satisfy the theorems of
   Order.tla on a finite universe: the reviewed pool (GEN = 0) plus all lists of length <= 2 and
   maps of <= 2 entries of depth <= 2 over a core of critical atoms (GEN = 1).
   The initial state computes the universe and the relation matrices ONCE (state variables: TLC's
   caching of constant definitions is not dependable, see Values.tla); its successors are one state
   per first index a; each invariant quantifies over all partners (pairs and triples) of a. *)
EXTENDS Values, Order, TLC, SequencesExt
CONSTANTS GEN,      \* 0: the pool; 1: pool + generated containers
          NTR,      \* how many of the type rankings TRs are tried (1..3)
          DIRECT    \* 1: also check the O(n^3) formulations of the laws of compare &total
VARIABLES a, u, eqm, cmpm, totm, refl, rkm, lom, him

Core == {NA("i:0"), NA("f:0.0"), NA("f:-0.0"), nanv, NA("i:1"), NA("f:1.0"), sa, Nil}
Sub  == {l0, List(<<NA("i:0")>>), List(<<nanv>>), List(<<sa>>), lnz, m0, Map(<< <<sa, NA("f:0.0")>> >>)}
GenSet == ListsOver(Core \cup Sub, 2)
          \cup MapsOver({sa, NA("i:0"), NA("f:0.0"), NA("f:-0.0")}, {NA("i:1"), NA("f:-0.0"), nanv, lz}, 2)
USet == {Pool[i] : i \in 1..Len(Pool)} \cup (IF GEN = 1 THEN GenSet ELSE {})

\* three rankings of the 8 types: the laws must hold whatever the unspecified type order is
TRs == << <<1, 2, 3, 4, 5, 6, 7, 8>>, <<8, 7, 6, 5, 4, 3, 2, 1>>, <<3, 7, 1, 5, 8, 2, 6, 4>> >>

I == 1..Len(u)
TypeSet == {Types[i] : i \in 1..Len(Types)}

\* TLCEval forces the (otherwise lazily re-evaluated) function constructors into tables
Mat(n, f(_, _)) == TLCEval([i \in 1..n |-> TLCEval([j \in 1..n |-> f(i, j)])])
Init == /\ a = 0
        /\ u = SetToSeq(USet)
        /\ eqm  = Mat(Len(u), LAMBDA i, j : EqDoc(u[i], u[j]))
        /\ cmpm = Mat(Len(u), LAMBDA i, j : CmpDoc(u[i], u[j]))
        /\ totm = LET s == Mat(Len(u), LAMBDA i, j : CmpTotalSym(u[i], u[j]))
                  IN TLCEval([r \in 1..NTR |-> Mat(Len(u), LAMBDA i, j : Resolve(s[i][j], TRs[r]))])
        /\ refl = TLCEval([i \in 1..Len(u) |-> ~HasNaN(u[i])])
        /\ rkm  = TLCEval([r \in 1..NTR |-> TLCEval([i \in 1..Len(u) |->
                      Cardinality({j \in 1..Len(u) : totm[r][j][i] = -1})])])
        /\ lom  = TLCEval([r \in 1..NTR |-> [t \in TypeSet |->
                      LET RS == {rkm[r][i] : i \in {k \in 1..Len(u) : u[k].t = t}}
                      IN IF RS = {} THEN 0 ELSE CHOOSE x \in RS : \A y \in RS : x <= y]])
        /\ him  = TLCEval([r \in 1..NTR |-> [t \in TypeSet |->
                      LET RS == {rkm[r][i] : i \in {k \in 1..Len(u) : u[k].t = t}}
                      IN IF RS = {} THEN -1 ELSE CHOOSE x \in RS : \A y \in RS : x >= y]])
        /\ PrintT(<<"UNIVERSE", Len(u)>>)
Next == a = 0 /\ a' \in I /\ UNCHANGED <<u, eqm, cmpm, totm, refl, rkm, lom, him>>
View == a

eq(i, j)  == eqm[i][j]
cmp(i, j) == cmpm[i][j]
R == 1..NTR

WellFormed   == IF a = 0 THEN (GEN = 1 \/ Len(u) = Len(Pool))     \* pool entries pairwise distinct
                ELSE WF(u[a])
LEqRefl      == a = 0 \/ (EqReflexive({a}, eq, LAMBDA i : refl[i]) /\ EqIrreflexiveAtNaN({a}, eq, LAMBDA i : refl[i]))
LEqSym       == a = 0 \/ EqSymmetric({a}, I, eq)
LEqTrans     == a = 0 \/ EqTransitive({a}, I, eq)
LEqCmp0      == a = 0 \/ EqImpliesCmp0({a}, I, eq, cmp)
LCmpAnti     == a = 0 \/ CmpAntisymmetric({a}, I, cmp)
LCmpTrans    == a = 0 \/ CmpTransitive({a}, I, cmp)
LTotTotal    == a = 0 \/ \A r \in R : TotTotal({a}, I, LAMBDA i, j : totm[r][i][j])
LTotAnti     == a = 0 \/ \A r \in R : CmpAntisymmetric({a}, I, LAMBDA i, j : totm[r][i][j])
LTotTrans    == a = 0 \/ DIRECT = 0 \/ \A r \in R : CmpTransitive({a}, I, LAMBDA i, j : totm[r][i][j])
LTotRanked   == a = 0 \/ \A r \in R : /\ RankIsCount({a}, I, LAMBDA i, j : totm[r][i][j], LAMBDA i : rkm[r][i], Cardinality)
                                       /\ TotRanked({a}, I, LAMBDA i, j : totm[r][i][j], LAMBDA i : rkm[r][i])
LTotGroupedR == a = 0 \/ \A r \in R : TotGroupedByRank({a}, TypeSet, LAMBDA i : rkm[r][i], LAMBDA i : u[i].t,
                                                        LAMBDA t : lom[r][t], LAMBDA t : him[r][t])
LTotAgrees   == a = 0 \/ \A r \in R : TotAgreesWithCmp({a}, I, cmp, LAMBDA i, j : totm[r][i][j])
LTotGrouped  == a = 0 \/ DIRECT = 0 \/ \A r \in R : TotGrouped({a}, I, LAMBDA i, j : totm[r][i][j], LAMBDA i : u[i].t)
\* within numbers compare is total
LNumTotal    == a = 0 \/ \A j \in I : (u[a].t = "num" /\ u[j].t = "num") => cmp(a, j) # UNC

ASSUME NumTableOK({NumPool[i] : i \in 1..Len(NumPool)})
=============================================================================
