------------------------------ MODULE MCEqKeys ------------------------------
(* M + G for C08.  Exhaustive small model of EqKeys: 3 classes x 2 representatives, 2 values,
   fill \in {0,1}, behaviours of DEPTH mutating steps; after every mutating step the model reads the
   map through EVERY representative of every class (the Read actions of EqKeys, folded into the
   recorded step so that behaviours differing only in reads are not enumerated separately).
   `hist` records the behaviour: one entry per step with what the specification prescribes:
     [op, c, r, x, len, reads |-> <<per class: [has, val]>>]
   Behaviours of full depth are printed as JSON (their prefixes are replayed on the way).
   MODE = "M": plain exploration of EqKeys!Next (reads and writes) with the invariants, no history. *)
EXTENDS EqKeys, TLC, Json
CONSTANTS DEPTH, MODE
VARIABLES hist

ClassSeq == <<1, 2, 3>>
ReadsOf(mm) == [i \in 1..Len(ClassSeq) |-> [has |-> Present(mm, ClassSeq[i]), val |-> Lookup(mm, ClassSeq[i])]]
Step(o, mm) == [op |-> o.op, c |-> o.c, r |-> o.r, x |-> o.x, len |-> o.len, reads |-> ReadsOf(mm)]

MCInit == Init /\ hist = <<>>
MCNext == IF MODE = "M"
          THEN Len(hist) < DEPTH /\ Next /\ hist' = Append(hist, 0)
          ELSE Len(hist) < DEPTH /\ Mutate /\ hist' = Append(hist, Step(last', m'))

\* reads through every representative agree with the class-level prescription recorded in hist
ReadsAgree == MODE = "M" \/ hist = <<>> \/
  LET s == hist[Len(hist)] IN
  \A i \in 1..Len(ClassSeq), r \in Reps :
     LET o == Obs("index", ClassSeq[i], r, NoVal, m) IN o.found = s.reads[i].has /\ o.val = s.reads[i].val

Emit == MODE = "M" \/ Len(hist) < DEPTH \/ PrintT(ToJson([fill |-> fill, steps |-> hist]))
=============================================================================
