CONSTANTS
  Classes = {1, 2, 3}
  Reps = {1, 2}
  Vals = {1, 2}
  DEPTH = 3
  MODE = "G"
INIT MCInit
NEXT MCNext
INVARIANT TypeOK
INVARIANT NoTwoEqKeys
INVARIANT LenIsClassCount
INVARIANT RepIndependent
INVARIANT ReadsAgree
INVARIANT Emit
PROPERTY MutationSeenByAllReps
