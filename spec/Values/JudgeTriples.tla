---------------------------- MODULE JudgeTriples ----------------------------
(* V for C09: recorded tuples of generated values with the relation matrices OBSERVED on the real
   code (vals.Equal/Cmp/CmpTotal or the builtins eq/compare/compare &total/< <= ==), judged against
   the documentation.  One case:
     [vals |-> <<term, ...>>          n >= 1 value terms (Values.tla); the number leaves carry ranks
                                       computed by the executor with math/big within this case
      eq, cmp, tot, lt, le, ne |-> n x n matrices of what the real code answered
                                       (cmp: 2 = exception "uncomparable"; lt/le/ne FALSE where not both numbers)
      to |-> 8 x 8 table of the signs compare &total gave between the types (observed once per session)
      via |-> "go" | "elvish", numrel |-> whether lt/le/ne were observed (builtins only)]
   Checked: (1) agreement with EqDoc / CmpDoc / CmpTotalSym resolved by `to` / numeric < <= == by rank
   (NaN operands of < <= == unspecified); (2) the theorems of Order.tla on the observed matrices
   themselves: eq reflexive (except through NaN), symmetric, transitive; eq => compare 0; compare
   antisymmetric and transitive; compare &total total, antisymmetric, transitive, agreeing with compare,
   grouping by type.  Rejections are printed as <<"BAD", k, what, i, j>>, one line each. *)
EXTENDS Values, Order, TLC, Json
Cases == ndJsonDeserialize("cases.ndjson")
VARIABLE k
Init == k = 0
Next == k < Len(Cases) /\ k' = k + 1

ResolveT(s, T) == IF IsTypeSym(s) THEN T[(s - 100) \div 10][(s - 100) % 10] ELSE s

Failures(c, checkTypeOrder) ==
  LET n == Len(c.vals)
      I == 1..n
      v(i) == c.vals[i]
      bothNum(i, j) == c.numrel /\ v(i).t = "num" /\ v(j).t = "num"
      eq(i, j)  == c.eq[i][j]
      cmp(i, j) == c.cmp[i][j]
      tot(i, j) == c.tot[i][j]
      P == I \X I
      law(name, ok) == IF ok THEN {} ELSE {<<name, 0, 0>>}
  IN  {<<"agree-eq", p[1], p[2]>>  : p \in {q \in P : eq(q[1], q[2]) # EqDoc(v(q[1]), v(q[2]))}}
 \cup {<<"agree-cmp", p[1], p[2]>> : p \in {q \in P : cmp(q[1], q[2]) # CmpDoc(v(q[1]), v(q[2]))}}
 \cup {<<"agree-tot", p[1], p[2]>> : p \in {q \in P : tot(q[1], q[2]) # ResolveT(CmpTotalSym(v(q[1]), v(q[2])), c.to)}}
 \cup {<<"agree-lt", p[1], p[2]>>  : p \in {q \in P : bothNum(q[1], q[2]) /\ ~NumRelUnspecified(v(q[1]).v, v(q[2]).v)
                                                      /\ c.lt[q[1]][q[2]] # NumLt(v(q[1]).v, v(q[2]).v)}}
 \cup {<<"agree-le", p[1], p[2]>>  : p \in {q \in P : bothNum(q[1], q[2]) /\ ~NumRelUnspecified(v(q[1]).v, v(q[2]).v)
                                                      /\ c.le[q[1]][q[2]] # NumLe(v(q[1]).v, v(q[2]).v)}}
 \cup {<<"agree-ne", p[1], p[2]>>  : p \in {q \in P : bothNum(q[1], q[2]) /\ ~NumRelUnspecified(v(q[1]).v, v(q[2]).v)
                                                      /\ c.ne[q[1]][q[2]] # NumEqual(v(q[1]).v, v(q[2]).v)}}
 \cup law("type-order", ~checkTypeOrder \/ TypeOrderOK(c.to))
 \cup law("eq-reflexive", EqReflexive(I, eq, LAMBDA i : ~HasNaN(v(i))))
 \cup law("eq-nan-irreflexive", EqIrreflexiveAtNaN(I, eq, LAMBDA i : ~HasNaN(v(i))))
 \cup law("eq-symmetric", EqSymmetric(I, I, eq))
 \cup law("eq-transitive", EqTransitive(I, I, eq))
 \cup law("eq-implies-cmp0", EqImpliesCmp0(I, I, eq, cmp))
 \cup law("cmp-antisymmetric", CmpAntisymmetric(I, I, cmp))
 \cup law("cmp-transitive", CmpTransitive(I, I, cmp))
 \cup law("tot-total", TotTotal(I, I, tot))
 \cup law("tot-antisymmetric", CmpAntisymmetric(I, I, tot))
 \cup law("tot-transitive", CmpTransitive(I, I, tot))
 \cup law("tot-agrees-with-cmp", TotAgreesWithCmp(I, I, cmp, tot))
 \cup law("tot-grouped", TotGrouped(I, I, tot, LAMBDA i : v(i).t))

\* the type table is the same in every case of a session: judged once per file
\* one short line per failure: TLC wraps long values over several lines, which the harness cannot read back
Inv == k = 0 \/ LET f == Failures(Cases[k], k = 1) IN \A e \in f : PrintT(<<"BAD", k, e[1], e[2], e[3]>>)
=============================================================================
