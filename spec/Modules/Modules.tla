------------------------------- MODULE Modules -------------------------------
(* C22 -- a module is evaluated at most once per interpreter and shared.

   The module cache of one interpreter (pkg/eval/builtin_special.go use / useFromFile / evalModule,
   Evaler.modules), from website/ref/language.md "Importing modules with use", "Relative imports",
   "Circular dependencies", "Re-importing".

   World W (a constant of each behaviour): sequence of modules [path, imports, fail]
     path     sequence of path segments below the root, without ".elv"   (<<"lib","d","b">>)
     imports  sequence of [spec, guard];  spec = [rel, up, segs]:
                rel: "./segs" (up = 0) or "../"*up + segs, resolved against the directory of the
                     importing FILE - or the working directory for code that is not from a file;
                not rel: looked up below the library directory LibDir.
              guard: the import stands inside  try { use .. } catch e { }  (its failure is survived)
     fail     "no" | "begin" (the body raises before its imports) | "end" (after them)
   The cache key of a module is its cleaned absolute path, i.e. the module itself.

   State s (one record, so that the walker TraceModules can iterate Step):
     cache[m]      0 or the token of the namespace installed for module m
     evalCount[m], failCount[m]
     stack         frames [m, pc, tok, dir, imports, fail] being evaluated; a top-level `use` is the
                   pseudo frame m = 0 with the single import
     exc           exception in flight  [k: none | fail | nosuch, m]
     ntok          tokens handed out (one per evaluation of a module body = namespace identity)
     binds         <<m, tok>>: some importer holds namespace tok for module m
     failed        tokens of evaluations that failed
     log           what the harness commands observe: tick(m, tok), saw(importer tok, pc, tok seen),
                   caught(importer tok, pc)
     busy, res     a top-level operation is running / result of the last one
   Actions = cases of Step:  UseHit (cached: bind), UseMiss -> EvalModuleBegin (INSTALL BEFORE EXEC:
   cache[m] := tok, push), NoSuchModule, BodyBegin, EvalModuleEnd (pop, the importer binds),
   Raise (body fails), EvalModuleFail (UNLOAD: cache[m] := 0, pop, the exception goes on),
   Catch (guarded import).  Nested uses see the partially evaluated namespace of a module that
   is still on the stack (cycles), because it is installed already.

   Properties: AtMostOnce (evalCount[m] <= 1 + failCount[m]), Shared (all importers of m that got a
   namespace whose evaluation did not fail hold the same one), FailedForgotten (the cache never
   holds a failed evaluation), InstalledWhileLoading (every module on the stack is in the cache),
   OneLive.   Unspecified: nothing. *)
EXTENDS Integers, Sequences, FiniteSets

LibDir == <<"lib">>
Dir(p) == SubSeq(p, 1, Len(p) - 1)
Spec(rel, up, segs) == [rel |-> rel, up |-> up, segs |-> segs]
NoPath == <<"..">>
Resolve(dir, sp) ==
  IF ~sp.rel THEN LibDir \o sp.segs
  ELSE IF sp.up > Len(dir) THEN NoPath
  ELSE SubSeq(dir, 1, Len(dir) - sp.up) \o sp.segs

ModAt(W, p) == LET S == {m \in 1..Len(W) : W[m].path = p} IN IF S = {} THEN 0 ELSE CHOOSE m \in S : TRUE

NoExc      == [k |-> "none", m |-> 0]
FailExc(m) == [k |-> "fail", m |-> m]
NoSuch     == [k |-> "nosuch", m |-> 0]

Start(W) == [cache |-> [m \in 1..Len(W) |-> 0], evalCount |-> [m \in 1..Len(W) |-> 0],
             failCount |-> [m \in 1..Len(W) |-> 0], stack |-> <<>>, exc |-> NoExc, ntok |-> 0,
             binds |-> {}, failed |-> {}, log |-> <<>>, busy |-> FALSE, res |-> NoExc]

(* a top-level `use spec` from a file in directory dir, or from non-file code with cwd = dir *)
StartOp(s, op) ==
  [s EXCEPT !.busy = TRUE, !.log = <<>>,
            !.stack = <<[m |-> 0, pc |-> 1, tok |-> 0, dir |-> op.dir, fail |-> "no",
                         imports |-> <<[spec |-> op.spec, guard |-> FALSE]>>]>>]

Top(s)     == s.stack[Len(s.stack)]
Pop(s)     == SubSeq(s.stack, 1, Len(s.stack) - 1)
SetTop(s, f) == [s.stack EXCEPT ![Len(s.stack)] = f]
Log(s, e)  == Append(s.log, e)
InImport(f) == 1 <= f.pc /\ f.pc <= Len(f.imports)

(* one step of the interpreter while a top-level operation is running *)
Step(W, s) ==
  LET f == Top(s) IN
  IF s.exc.k # "none" THEN
     IF InImport(f) /\ f.imports[f.pc].guard
     THEN \* Catch
          [s EXCEPT !.exc = NoExc, !.log = Log(s, [e |-> "caught", a |-> f.tok, b |-> f.pc, c |-> 0]),
                    !.stack = SetTop(s, [f EXCEPT !.pc = f.pc + 1])]
     ELSE \* EvalModuleFail: unload, propagate
          LET s1 == IF f.m = 0 THEN s
                    ELSE [s EXCEPT !.cache[f.m] = 0, !.failCount[f.m] = @ + 1, !.failed = @ \cup {f.tok}]
          IN IF Len(s.stack) = 1 THEN [s1 EXCEPT !.stack = <<>>, !.busy = FALSE, !.res = s.exc, !.exc = NoExc]
             ELSE [s1 EXCEPT !.stack = Pop(s)]
  ELSE IF f.pc = 0 THEN \* BodyBegin
     IF f.fail = "begin" THEN [s EXCEPT !.exc = FailExc(f.m)]
     ELSE [s EXCEPT !.stack = SetTop(s, [f EXCEPT !.pc = 1])]
  ELSE IF InImport(f) THEN
     LET t == ModAt(W, Resolve(f.dir, f.imports[f.pc].spec)) IN
     IF t = 0 THEN [s EXCEPT !.exc = NoSuch]                                   \* NoSuchModule
     ELSE IF s.cache[t] # 0
     THEN \* UseHit
          [s EXCEPT !.log = Log(s, [e |-> "saw", a |-> f.tok, b |-> f.pc, c |-> s.cache[t]]),
                    !.binds = @ \cup {<<t, s.cache[t]>>},
                    !.stack = SetTop(s, [f EXCEPT !.pc = f.pc + 1])]
     ELSE \* UseMiss -> EvalModuleBegin: install before exec
          LET tok == s.ntok + 1 IN
          [s EXCEPT !.ntok = tok, !.cache[t] = tok, !.evalCount[t] = @ + 1,
                    !.log = Log(s, [e |-> "tick", a |-> t, b |-> tok, c |-> 0]),
                    !.stack = Append(s.stack, [m |-> t, pc |-> 0, tok |-> tok, dir |-> Dir(W[t].path),
                                               fail |-> W[t].fail, imports |-> W[t].imports])]
  ELSE \* past the last import
     IF f.fail = "end" THEN [s EXCEPT !.exc = FailExc(f.m)]                    \* Raise
     ELSE IF Len(s.stack) = 1 THEN [s EXCEPT !.stack = <<>>, !.busy = FALSE, !.res = NoExc]
     ELSE \* EvalModuleEnd(ok): the importer binds the namespace
          LET p == s.stack[Len(s.stack) - 1] IN
          [s EXCEPT !.log = Log(s, [e |-> "saw", a |-> p.tok, b |-> p.pc, c |-> f.tok]),
                    !.binds = @ \cup {<<f.m, f.tok>>},
                    !.stack = [Pop(s) EXCEPT ![Len(s.stack) - 1] = [p EXCEPT !.pc = p.pc + 1]]]

RECURSIVE RunToIdle(_, _)
RunToIdle(W, s) == IF s.busy THEN RunToIdle(W, Step(W, s)) ELSE s
RunOp(W, s, op) == RunToIdle(W, StartOp(s, op))

(* ---- the property *)
AtMostOnce(W, s)      == \A m \in 1..Len(W) : s.evalCount[m] <= 1 + s.failCount[m]
Shared(W, s)          == \A b1, b2 \in s.binds : (b1[1] = b2[1] /\ b1[2] \notin s.failed /\ b2[2] \notin s.failed) => b1[2] = b2[2]
FailedForgotten(W, s) == \A m \in 1..Len(W) : s.cache[m] # 0 => s.cache[m] \notin s.failed
InstalledWhileLoading(W, s) == \A i \in 1..Len(s.stack) : s.stack[i].m # 0 => s.cache[s.stack[i].m] = s.stack[i].tok
\* evaluations of m that have not failed: at most one, and it is the cached one
OneLive(W, s)         == \A m \in 1..Len(W) : (s.evalCount[m] - s.failCount[m] = 1) <=> (s.cache[m] # 0)
=============================================================================
