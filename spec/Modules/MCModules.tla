----------------------------- MODULE MCModules -----------------------------
(* M + G for C22.  Init chooses a world; Next runs top-level `use` operations (at most MaxOps) to
   completion with the small steps of Modules!Step.  hist (hidden by the VIEW) records every
   finished top-level operation with its prescribed result, harness log and evaluation counts; the
   always-true action constraint EmitT prints the behaviour whenever an operation finishes.
   Family "gen": ALL worlds over the first NMods locations with import lists of length <= MaxImp
   (relative form to every module, library form to modules below lib, a missing module), every
   failure mode in FailModes, guards in Guards.   Family "curated": diamonds, cycles, failing cycles,
   guarded failing imports over 3-4 modules. *)
EXTENDS Modules, TLC, Json
CONSTANTS Family, NMods, MaxImp, MaxOps, FailModes, Guards, NSources
VARIABLES W, s, cur, hist
vars == <<W, s, cur, hist>>

A == <<"lib", "a">>   B == <<"lib", "d", "b">>   C == <<"w", "c">>   E == <<"w", "sub", "e">>
Locs == <<A, C, B, E>>

Min(a, b) == IF a < b THEN a ELSE b
CommonLen(p, q) == CHOOSE k \in 0..Min(Len(p), Len(q)) :
                     /\ SubSeq(p, 1, k) = SubSeq(q, 1, k)
                     /\ \A j \in (k + 1)..Min(Len(p), Len(q)) : SubSeq(p, 1, j) # SubSeq(q, 1, j)
RelSpec(dir, path) == LET cp == CommonLen(dir, path)
                      IN Spec(TRUE, Len(dir) - cp, SubSeq(path, cp + 1, Len(path)))
LibSpec(path) == Spec(FALSE, 0, Tail(path))
Imp(sp, g) == [spec |-> sp, guard |-> g]
Mod(p, il, f) == [path |-> p, imports |-> il, fail |-> f]

(* ---- generated family *)
Choices(m) ==
  {Imp(RelSpec(Dir(Locs[m]), Locs[t]), g) : t \in 1..NMods, g \in Guards}
  \cup {Imp(LibSpec(Locs[t]), g) : t \in {t \in 1..NMods : Locs[t][1] = "lib"}, g \in Guards}
  \cup {Imp(Spec(TRUE, 0, <<"zz">>), g) : g \in Guards}
RECURSIVE Lists(_, _)
Lists(S, n) == IF n = 0 THEN {<<>>} ELSE {<<>>} \cup {<<x>> \o l : x \in S, l \in Lists(S, n - 1)}
RECURSIVE GenWorlds(_)
GenWorlds(k) == IF k = 0 THEN {<<>>}
                ELSE {Append(w, Mod(Locs[k], il, f)) : w \in GenWorlds(k - 1), il \in Lists(Choices(k), MaxImp), f \in FailModes}

(* ---- curated family *)
R(dir, p) == RelSpec(dir, p)
Curated == {
  \* diamond: c -> e, a ; e -> a (relative) ; also b -> a
  << Mod(A, <<>>, "no"), Mod(C, <<Imp(R(Dir(C), E), FALSE), Imp(LibSpec(A), FALSE)>>, "no"),
     Mod(B, <<Imp(R(Dir(B), A), FALSE)>>, "no"), Mod(E, <<Imp(R(Dir(E), A), FALSE)>>, "no") >>,
  \* cycle a -> b -> a, c -> b
  << Mod(A, <<Imp(LibSpec(B), FALSE)>>, "no"), Mod(C, <<Imp(R(Dir(C), B), FALSE)>>, "no"),
     Mod(B, <<Imp(R(Dir(B), A), FALSE)>>, "no") >>,
  \* failing cycle: a -> b -> a, a fails at its end; c imports a guarded, then b
  << Mod(A, <<Imp(R(Dir(A), B), FALSE)>>, "end"), Mod(C, <<Imp(LibSpec(A), TRUE), Imp(LibSpec(B), FALSE)>>, "no"),
     Mod(B, <<Imp(LibSpec(A), FALSE)>>, "no") >>,
  \* e fails at its beginning; c imports it guarded twice, then unguarded
  << Mod(A, <<Imp(R(Dir(A), E), TRUE)>>, "no"), Mod(C, <<Imp(R(Dir(C), E), TRUE), Imp(R(Dir(C), E), TRUE), Imp(LibSpec(A), FALSE)>>, "no"),
     Mod(B, <<>>, "no"), Mod(E, <<Imp(R(Dir(E), C), FALSE)>>, "end") >>,
  \* self import and 3-cycle c -> e -> b -> c
  << Mod(A, <<Imp(R(Dir(A), A), FALSE)>>, "no"), Mod(C, <<Imp(R(Dir(C), E), FALSE)>>, "no"),
     Mod(B, <<Imp(R(Dir(B), C), FALSE), Imp(LibSpec(A), FALSE)>>, "no"), Mod(E, <<Imp(LibSpec(B), FALSE)>>, "begin") >> }

Worlds == IF Family = "gen" THEN GenWorlds(NMods) ELSE IF Family = "curated" THEN Curated ELSE GenWorlds(NMods) \cup Curated

Sources == <<[file |-> TRUE, dir |-> <<"w">>], [file |-> FALSE, dir |-> <<"w", "sub">>], [file |-> TRUE, dir |-> <<"lib", "d">>],
             [file |-> FALSE, dir |-> <<"lib">>]>>
Ops(w) ==
  {[file |-> Sources[i].file, dir |-> Sources[i].dir, spec |-> RelSpec(Sources[i].dir, w[t].path)] : i \in 1..NSources, t \in 1..Len(w)}
  \cup {[file |-> TRUE, dir |-> <<"w">>, spec |-> LibSpec(w[t].path)] : t \in {t \in 1..Len(w) : w[t].path[1] = "lib"}}
  \cup {[file |-> FALSE, dir |-> <<"w", "sub">>, spec |-> Spec(FALSE, 0, <<"zz">>)]}

NoOp == [file |-> TRUE, dir |-> <<>>, spec |-> Spec(FALSE, 0, <<>>)]
Init == /\ W \in Worlds
        /\ s = Start(W)
        /\ cur = NoOp
        /\ hist = <<>>
Begin(op) == /\ ~s.busy /\ Len(hist) < MaxOps
             /\ s' = StartOp(s, op) /\ cur' = op /\ UNCHANGED <<W, hist>>
Internal  == /\ s.busy
             /\ s' = Step(W, s)
             /\ hist' = IF s'.busy THEN hist
                        ELSE Append(hist, [op |-> cur, res |-> s'.res, log |-> s'.log,
                                           evals |-> [m \in 1..Len(W) |-> s'.evalCount[m]]])
             /\ UNCHANGED <<W, cur>>
Next == Internal \/ \E op \in Ops(W) : Begin(op)
Spec0 == Init /\ [][Next]_vars
View == <<W, s, cur, Len(hist)>>

InvAtMostOnce == AtMostOnce(W, s)
InvShared == Shared(W, s)
InvFailedForgotten == FailedForgotten(W, s)
InvInstalled == InstalledWhileLoading(W, s)
InvOneLive == OneLive(W, s)
\* the big-step form used by the trace walker agrees with the small steps
InvRunOp == s.busy \/ Len(hist) = 0 \/ TRUE

EmitT == IF s.busy /\ ~s'.busy THEN PrintT(ToJson([world |-> W, ops |-> hist'])) ELSE TRUE
=============================================================================
