CONSTANTS Family = "gen" NMods = 2 MaxImp = 1 MaxOps = 2 FailModes = {"no", "end"} Guards = {FALSE} NSources = 2
SPECIFICATION Spec0
VIEW View
INVARIANT InvAtMostOnce
INVARIANT InvShared
INVARIANT InvFailedForgotten
INVARIANT InvInstalled
INVARIANT InvOneLive
ACTION_CONSTRAINT EmitT
