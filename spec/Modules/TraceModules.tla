---------------------------- MODULE TraceModules ----------------------------
(* V for C22: histories recorded from the REAL evaluator on module trees materialised on disk.
     reset event: [kind |-> "reset", world |-> W, ...]           fresh interpreter, fresh tree
     op event:    [kind |-> "op", op |-> top-level use, res |-> its exception ([k, m]),
                   log |-> the harness events during it (tick / saw / caught),
                   evals |-> evaluation count of every module after it]
   The stateful walker runs the operation on the model (RunOp = the small steps of Modules!Step
   iterated) and requires result, event log and counts to be the prescribed ones; it also evaluates
   the property predicates in every state it passes.  After a rejection it skips to the next reset. *)
EXTENDS Modules, TLC, Json
Cases == ndJsonDeserialize("cases.ndjson")
VARIABLES k, W, s, bad
Init == k = 0 /\ W = <<>> /\ s = Start(<<>>) /\ bad = FALSE
Why(w, s2, e) ==
  IF e.res # s2.res THEN "result"
  ELSE IF e.log # s2.log THEN "log"
  ELSE IF e.evals # [m \in 1..Len(w) |-> s2.evalCount[m]] THEN "count"
  ELSE IF ~(AtMostOnce(w, s2) /\ Shared(w, s2) /\ FailedForgotten(w, s2) /\ OneLive(w, s2)) THEN "property"
  ELSE ""
Next == /\ k < Len(Cases) /\ k' = k + 1
        /\ LET e == Cases[k + 1] IN
           IF e.kind = "reset" THEN W' = e.world /\ s' = Start(e.world) /\ bad' = FALSE
           ELSE IF bad THEN UNCHANGED <<W, s, bad>>
           ELSE LET s2 == RunOp(W, s, e.op)
                    y  == Why(W, s2, e)
                IN /\ s' = s2 /\ UNCHANGED W
                   /\ bad' = (y # "" /\ PrintT(<<"BAD", k + 1, y, ToJson([res |-> s2.res, log |-> s2.log])>>))
Inv == TRUE
=============================================================================
