---------------------------- MODULE MCIndexConv ----------------------------
(* Exhaustive configuration + generator for C13.  Every initial state is one case (n, idx);
   TLC checks the design theorem on it and prints the case with the prescribed outcome. *)
EXTENDS IndexConv, TLC, Json
CONSTANT N
VARIABLES n, x
B == (-N - 2)..(N + 2)
IdxForms == {IntIdx(i) : i \in B}
            \cup {SliceIdx(ha, a, hb, b, ic) : ha \in BOOLEAN, a \in B, hb \in BOOLEAN, b \in B, ic \in BOOLEAN}
\* canonical: absent parts carry 0 so that equal indices are one case
Canon(y) == IF y.f = "int" THEN TRUE
            ELSE (y.ha \/ y.a = 0) /\ (y.hb \/ (y.b = 0 /\ ~y.incl))
Init == n \in 0..N /\ x \in {y \in IdxForms : Canon(y)}
Next == UNCHANGED <<n, x>>
Theorem == ImplMatchesRef(n, x)
RangeOK == LET r == Ref(n, x) IN r.ok => (0 <= r.lo /\ r.lo <= r.hi /\ r.hi <= n /\ (~r.slice => r.lo < n))
Emit == PrintT(ToJson([n |-> n, x |-> x, exp |-> Ref(n, x), unspec |-> Unspecified(n, x)]))
=============================================================================
