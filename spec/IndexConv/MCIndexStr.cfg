CONSTANT L = 2
INIT Init
NEXT Next
INVARIANT StrRangeOK
INVARIANT StrRefinesList
INVARIANT Emit
