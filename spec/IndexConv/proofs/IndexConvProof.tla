--------------------------- MODULE IndexConvProof ---------------------------
(* Unbounded version of the design theorem checked by TLC in MCIndexConv:
   for every length n and every index form, the code-shaped conversion equals the reference. *)
EXTENDS IndexConv, TLAPS

THEOREM IntForm ==
  ASSUME NEW n \in Nat, NEW i \in Int
  PROVE  Impl(n, IntIdx(i)) = Ref(n, IntIdx(i))
BY DEF Impl, Ref, IntIdx, Adjust, Bad, ElemOK, Pos, Elem, Rejected

THEOREM SliceForm ==
  ASSUME NEW n \in Nat, NEW a \in Int, NEW b \in Int,
         NEW ha \in BOOLEAN, NEW hb \in BOOLEAN, NEW ic \in BOOLEAN,
         ~Unspecified(n, SliceIdx(ha, a, hb, b, ic))
  PROVE  Impl(n, SliceIdx(ha, a, hb, b, ic)) = Ref(n, SliceIdx(ha, a, hb, b, ic))
BY DEF Impl, Ref, SliceIdx, Adjust, Bad, ElemOK, BoundOK, Pos, Slice, Rejected, Unspecified
=============================================================================
