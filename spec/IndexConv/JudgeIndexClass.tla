-------------------------- MODULE JudgeIndexClass --------------------------
(* V half of C13: recorded outcomes for index *classes* outside the integer forms.  The reference
   rules all of them out: an index is an integer (typed int or integer string) or a slice of
   integers; bounds beyond the length are out of range whatever their magnitude. *)
EXTENDS Integers, Sequences, TLC, Json
Cases == ndJsonDeserialize("cases.ndjson")
VARIABLE k
Init == k = 0
Next == k < Len(Cases) /\ k' = k + 1
RejectedClasses == {"hugepos", "hugeneg", "float", "rat", "bigint", "alpha", "empty", "threepart",
                    "spaces", "plus", "hex", "underscore", "hugeslice", "floatslice", "nil", "list"}
\* "plus", "hex", "underscore": strconv.Atoi accepts "+1" and rejects the others; the reference
\* says "number-like string" and does not pin those spellings down: Unspecified.
Unspec(c) == c.cls \in {"plus", "hex", "underscore"}
CaseOK(c) == \/ Unspec(c)
             \/ (c.cls \in RejectedClasses /\ ~c.ok)
Inv == k = 0 \/ CaseOK(Cases[k]) \/ PrintT(<<"BAD", k, Cases[k].cls>>)
=============================================================================
