------------------------------ MODULE IndexStr ------------------------------
(* String half of C13 (kept apart from IndexConv because tlapm rejects RECURSIVE operators). *)
EXTENDS IndexConv

(* ---------------- strings: byte offsets on rune boundaries ----------------
   A text is a sequence of rune byte-lengths (1..4).  Offsets are bytes. *)
RECURSIVE Sum(_)
Sum(t) == IF t = <<>> THEN 0 ELSE Head(t) + Sum(Tail(t))
Starts(t) == {Sum(SubSeq(t, 1, k)) : k \in 0..Len(t)}     \* rune boundaries incl. end
RuneLenAt(t, off) == LET k == CHOOSE k \in 1..Len(t) : Sum(SubSeq(t, 1, k - 1)) = off IN t[k]

RefStr(t, x) ==
  LET n == Sum(t)
      r == Ref(n, x)
  IN IF ~r.ok THEN Rejected
     ELSE IF r.slice
          THEN IF r.lo \in Starts(t) /\ r.hi \in Starts(t) THEN r ELSE Rejected
          ELSE IF r.lo \in Starts(t) /\ r.lo < n THEN Slice(r.lo, r.lo + RuneLenAt(t, r.lo)) ELSE Rejected

=============================================================================
