---------------------------- MODULE MCIndexStr ----------------------------
(* String half of C13: texts are sequences of rune byte-lengths; every initial state is a case. *)
EXTENDS IndexStr, TLC, Json
CONSTANT L      \* max number of runes
VARIABLES t, x
RECURSIVE TextsOf(_)
TextsOf(k) == IF k = 0 THEN {<<>>} ELSE {<<>>} \cup {<<r>> \o s : r \in 1..4, s \in TextsOf(k - 1)}
M == 4 * L
B == (-M - 2)..(M + 2)
IdxForms == {IntIdx(i) : i \in B}
            \cup {SliceIdx(ha, a, hb, b, ic) : ha \in BOOLEAN, a \in B, hb \in BOOLEAN, b \in B, ic \in BOOLEAN}
Canon(y) == IF y.f = "int" THEN TRUE
            ELSE (y.ha \/ y.a = 0) /\ (y.hb \/ (y.b = 0 /\ ~y.incl))
\* bounds further than 2 beyond the text's own length add nothing
Near(tt, y) == LET n == Sum(tt) IN
               IF y.f = "int" THEN y.i \in (-n - 2)..(n + 2)
               ELSE y.a \in (-n - 2)..(n + 2) /\ y.b \in (-n - 2)..(n + 2)
Init == t \in TextsOf(L) /\ x \in {y \in IdxForms : Canon(y) /\ Near(t, y)}
Next == UNCHANGED <<t, x>>
StrRangeOK == LET r == RefStr(t, x) IN r.ok => (r.lo \in Starts(t) /\ r.hi \in Starts(t) /\ r.lo <= r.hi)
StrRefinesList == RefStr(t, x).ok => Ref(Sum(t), x).ok
Emit == PrintT(ToJson([t |-> t, x |-> x, exp |-> RefStr(t, x), unspec |-> Unspecified(Sum(t), x)]))
=============================================================================
