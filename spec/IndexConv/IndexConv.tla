------------------------------ MODULE IndexConv ------------------------------
(* C13 -- list/string indexing and slicing, from "List" / "String" / "Indexing" of the language
   reference (website/ref/language.md).

   Ref(n, x)   declarative reference: what an index x denotes on a sequence of length n.
   Impl(n, x)  code-shaped transcription of vals.ConvertListIndex (parseIndexString +
               adjustAndCheckIndex, including the `..=-1` corner), used for the design theorem
               ~Unspecified(n, x) => Impl(n, x) = Ref(n, x)   (TLC: bounded; TLAPS: proofs/).
   Index forms:
     [f |-> "int",   i |-> Int]                                        typed int or numeric string
     [f |-> "slice", ha |-> BOOLEAN, a |-> Int, hb |-> BOOLEAN, b |-> Int, incl |-> BOOLEAN]
   Results: [ok, slice, lo, hi]: element lo (hi = lo+1) or half-open range lo..hi.

   Unspecified (accepted either way): an inclusive upper bound `..=b` with b = -n-1: element
   $li[b] does not exist, yet b+1 = -n is a valid exclusive bound; the code yields an empty slice. *)
EXTENDS Integers, Sequences

Rejected    == [ok |-> FALSE, slice |-> FALSE, lo |-> 0, hi |-> 0]
Elem(k)     == [ok |-> TRUE, slice |-> FALSE, lo |-> k, hi |-> k + 1]
Slice(a, b) == [ok |-> TRUE, slice |-> TRUE, lo |-> a, hi |-> b]

IntIdx(i)                  == [f |-> "int", i |-> i]
SliceIdx(ha, a, hb, b, ic) == [f |-> "slice", ha |-> ha, a |-> a, hb |-> hb, b |-> b, incl |-> ic]

(* ---------------- reference ---------------- *)
Pos(n, i)     == IF i >= 0 THEN i ELSE n + i
ElemOK(n, i)  == -n <= i /\ i < n          \* i names an existing element
BoundOK(n, i) == -n <= i /\ i <= n         \* i is a slice bound: an element position or the end

Ref(n, x) ==
  IF x.f = "int"
  THEN IF ElemOK(n, x.i) THEN Elem(Pos(n, x.i)) ELSE Rejected
  ELSE LET loOK == (~x.ha) \/ BoundOK(n, x.a)
           lo   == IF x.ha THEN Pos(n, x.a) ELSE 0
           hiOK == IF ~x.hb THEN TRUE
                   ELSE IF x.incl THEN ElemOK(n, x.b) ELSE BoundOK(n, x.b)
           hi   == IF ~x.hb THEN n
                   ELSE IF x.incl THEN Pos(n, x.b) + 1 ELSE Pos(n, x.b)
       IN IF loOK /\ hiOK /\ lo <= hi THEN Slice(lo, hi) ELSE Rejected

Unspecified(n, x) == x.f = "slice" /\ x.hb /\ x.incl /\ x.b = -n - 1

(* ---------------- code-shaped ---------------- *)
Bad == -1
Adjust(i, n, inclN) ==
  IF i < 0 THEN (IF i < -n THEN Bad ELSE i + n)
  ELSE IF inclN THEN (IF i > n THEN Bad ELSE i)
  ELSE (IF i >= n THEN Bad ELSE i)

Impl(n, x) ==
  IF x.f = "int"
  THEN LET k == Adjust(x.i, n, FALSE) IN IF k = Bad THEN Rejected ELSE Elem(k)
  ELSE LET i0 == IF x.ha THEN x.a ELSE 0
           j0 == IF ~x.hb THEN n
                 ELSE IF x.incl THEN (IF x.b = -1 THEN n ELSE x.b + 1) ELSE x.b
           i  == Adjust(i0, n, TRUE)
           j  == Adjust(j0, n, TRUE)
       IN IF i = Bad \/ j = Bad \/ j < i THEN Rejected ELSE Slice(i, j)

ImplMatchesRef(n, x) == Unspecified(n, x) \/ Impl(n, x) = Ref(n, x)

(* ---------------- assoc: exactly the addressed element changes ---------------- *)
RefAssoc(seq, x, v) ==
  LET r == Ref(Len(seq), x)
  IN IF r.ok /\ ~r.slice THEN [ok |-> TRUE, seq |-> [seq EXCEPT ![r.lo + 1] = v]]
     ELSE [ok |-> FALSE, seq |-> seq]
=============================================================================
