CONSTANT N = 6
INIT Init
NEXT Next
INVARIANT Theorem
INVARIANT RangeOK
INVARIANT Emit
