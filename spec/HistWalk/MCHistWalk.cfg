CONSTANTS MaxStored = 2 MaxSession = 2 MaxForeign = 1 MaxDel = 1 Texts <- T3 PrefixPool <- P3
SPECIFICATION Spec
VIEW View
INVARIANT AlgIsWalk
INVARIANT ViewProps
INVARIANT ForeignInvisible
INVARIANT SessionAboveUpper
INVARIANT PosInRange
INVARIANT EndsIdempotent
