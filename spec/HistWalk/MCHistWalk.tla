---------------------------- MODULE MCHistWalk ----------------------------
(* Exhaustive small model of a session walking its history (M) and generator of behaviours (G).
   Phases: commands are stored (PreAdd) -> StartSession -> AddHere / AddElsewhere / DelInDb /
   NewCursor / Prev / Next in any order.  In every state with a live, non-stale cursor the
   code-shaped cursor algorithm must return what the declarative walk returns (AlgIsWalk), and the
   view has the properties of the statement (ViewProps).  hist is hidden by the VIEW; the always-true
   action constraint EmitT prints, for every generated transition, one path to its source state plus
   the step, each step with the Get result the specification prescribes after it. *)
EXTENDS HistWalk, TLC, Json
CONSTANTS MaxStored, MaxSession, MaxForeign, MaxDel, Texts, PrefixPool
VARIABLES db, upper, session, foreign, ndel, live, stale, w, ac, hist
vars == <<db, upper, session, foreign, ndel, live, stale, w, ac, hist>>
T3 == {<<1>>, <<1, 2>>, <<2>>}     \* a, ab, b
T2 == {<<1>>, <<1, 2>>}            \* a, ab
P3 == {<<>>, <<1>>, <<1, 2>>}
P2 == {<<>>, <<1, 2>>}
NoW == [p |-> <<>>, d |-> FALSE, view |-> <<>>, pos |-> 0, slen |-> 0]
NoAc == AcInit(0, <<>>, <<>>, FALSE)
H0 == [a |-> "", t |-> <<>>, s |-> 0, p |-> <<>>, d |-> FALSE, n |-> 0, chk |-> FALSE, get |-> EOH]
Log(h) == hist' = Append(hist, [h EXCEPT !.chk = live' /\ ~stale', !.get = IF live' /\ ~stale' THEN WalkGet(w') ELSE EOH])
AddOp(t) == SOp("AddCmd", 0, t)
SessionSeqs == {session[i].n : i \in 1..Len(session)}

Init == /\ db = Empty /\ upper = 0 /\ session = <<>> /\ foreign = {} /\ ndel = 0
        /\ live = FALSE /\ stale = FALSE /\ w = NoW /\ ac = NoAc /\ hist = <<>>

PreAdd(t) == /\ upper = 0 /\ db.next < MaxStored
             /\ db' = Apply(db, AddOp(t))
             /\ UNCHANGED <<upper, session, foreign, ndel, live, stale, w, ac>>
             /\ Log([H0 EXCEPT !.a = "PreAdd", !.t = t, !.n = Res(db, AddOp(t)).n])
StartSession == /\ upper = 0
                /\ upper' = Res(db, SOp("NextCmdSeq", 0, <<>>)).n
                /\ UNCHANGED <<db, session, foreign, ndel, live, stale, w, ac>>
                /\ Log([H0 EXCEPT !.a = "Start"])
AddHere(t) == /\ upper > 0 /\ Len(session) < MaxSession
              /\ db' = Apply(db, AddOp(t))
              /\ session' = Append(session, [n |-> Res(db, AddOp(t)).n, t |-> t])
              /\ stale' = (stale \/ live)
              /\ UNCHANGED <<upper, foreign, ndel, live, w, ac>>
              /\ Log([H0 EXCEPT !.a = "AddHere", !.t = t, !.n = Res(db, AddOp(t)).n])
AddElsewhere(t) == /\ upper > 0 /\ Cardinality(foreign) < MaxForeign
                   /\ db' = Apply(db, AddOp(t))
                   /\ foreign' = foreign \cup {Res(db, AddOp(t)).n}
                   /\ UNCHANGED <<upper, session, ndel, live, stale, w, ac>>
                   /\ Log([H0 EXCEPT !.a = "AddElsewhere", !.t = t, !.n = Res(db, AddOp(t)).n])
DelInDb(s) == /\ upper > 0 /\ ndel < MaxDel /\ s \notin SessionSeqs
              /\ \E c \in db.cmds : c.seq = s
              /\ db' = Apply(db, SOp("DelCmd", s, <<>>))
              /\ ndel' = ndel + 1
              /\ stale' = (stale \/ (live /\ s < upper))
              /\ UNCHANGED <<upper, session, foreign, live, w, ac>>
              /\ Log([H0 EXCEPT !.a = "DelInDb", !.s = s])
NewCursor(p, d) == /\ upper > 0
                   /\ live' = TRUE /\ stale' = FALSE
                   /\ w' = NewWalk(db, upper, session, p, d)
                   /\ ac' = AcInit(upper, session, p, d)
                   /\ UNCHANGED <<db, upper, session, foreign, ndel>>
                   /\ Log([H0 EXCEPT !.a = "NewCursor", !.p = p, !.d = d])
Prev == /\ live
        /\ w' = WalkPrev(w) /\ ac' = AcPrev(db, ac)
        /\ UNCHANGED <<db, upper, session, foreign, ndel, live, stale>>
        /\ Log([H0 EXCEPT !.a = "Prev"])
Next == /\ live
        /\ w' = WalkNext(w) /\ ac' = AcNext(db, upper, ac)
        /\ UNCHANGED <<db, upper, session, foreign, ndel, live, stale>>
        /\ Log([H0 EXCEPT !.a = "Next"])
Step == \/ \E t \in Texts : PreAdd(t) \/ AddHere(t) \/ AddElsewhere(t)
        \/ StartSession
        \/ \E s \in 1..db.next : DelInDb(s)
        \/ \E p \in PrefixPool, d \in BOOLEAN : NewCursor(p, d)
        \/ Prev \/ Next
Spec == Init /\ [][Step]_vars
View == <<db, upper, session, foreign, ndel, live, stale, w, ac>>

\* ---- properties
AlgIsWalk == (live /\ ~stale) => AcGet(ac) = WalkGet(w)
ViewProps == (live /\ ~stale) => ViewOK(db, upper, session, foreign, w)
ForeignInvisible == (live /\ ~stale /\ AcGet(ac).ok) => AcGet(ac).n \notin foreign
SessionAboveUpper == \A i \in 1..Len(session) : session[i].n >= upper
PosInRange == w.pos \in 0..(Len(w.view) + 1)
\* stepping past an end is idempotent there; one step back from an end and forth again returns to it
EndsIdempotent == live => /\ (w.pos = 0 => WalkPrev(w) = w)
                          /\ (w.pos = Len(w.view) + 1 => WalkNext(w) = w)
                          /\ (w.pos > 0 => WalkNext(WalkPrev(w)) = w)
                          /\ (w.pos <= Len(w.view) => WalkPrev(WalkNext(w)) = w)
EmitT == PrintT(ToJson(hist'))
=============================================================================
