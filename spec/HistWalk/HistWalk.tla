------------------------------ MODULE HistWalk ------------------------------
(* C29 -- history navigation (pkg/cli/histutil: hybrid_store.go, db_store.go, mem_store.go,
   dedup_cursor.go) on top of the sequential store object of HistStore.tla.

   World
     db       the shared store (a HistStore state: cmds, next, ...), used by every session
     upper    the sequence number frozen when this session started (NextCmdSeq at NewHybridStore)
     session  the commands this session added, in order, as entries [n |-> db seq, t |-> text]
   The SESSION'S VIEW is   SessionView == [db entries with seq < upper, in seq order] \o session.
   Commands that other sessions add after the session started get seq >= upper and are in no view.

   1. The property, declaratively (the "walk"): a cursor made for (prefix p, de-duplication d) walks
      over   CursorView == the entries of SessionView matching p  (d: every text kept only at its most
      recent occurrence)   with a position pos in 0..Len+1: Len+1 = just after the newest entry (where a
      new cursor stands), 0 = before the oldest.  Prev/Next move by one and stay at 0 / Len+1;
      Get is the entry at pos, or EndOfHistory at 0 and Len+1.  Hence: walking backward visits
      exactly the matching commands newest first, forward retraces them, stepping past either end
      reports end of history and is idempotent there.

   2. The algorithm, shaped like the code (Sh* = dbStoreCursor over the LIVE db through the store API
      PrevCmd/NextCmd of HistStore!Res; Ms* = memStoreCursor over a snapshot of the session list;
      Hc* = hybridStoreCursor with the useShared hand-off; Dd* = dedupCursor with its stack).
      MCHistWalk checks  AlgGet = WalkGet  in every reachable state of the small model; the executor
      binds the REAL cursors to WalkGet.

   Unspecified (statement silent; both outcomes accepted):
     - the world changes under a live cursor in a way that could change its view -- a command with
       seq < upper is deleted from the db, or this session adds a command: everything that cursor returns
       afterwards (flag stale).  The real db cursor reads the live db and the real session cursor holds a
       snapshot; a fully snapshotting or a fully live implementation would serve the statement as well.
       (Additions by OTHER sessions under a live cursor are specified: they must stay invisible.)
     - deleting from the db a command that this session added (not generated: the session list keeps it);
     - store errors (a failing db) and negative sequence numbers.
   A new cursor always sees the session's view of the moment it is made. *)
EXTENDS HistStore, FiniteSetsExt

EOH == [ok |-> FALSE, n |-> 0, t |-> <<>>]
Found(e) == [ok |-> TRUE, n |-> e.n, t |-> e.t]
Ent(r) == [n |-> r.n, t |-> r.t]

(* ------------------------------------------------------------------ 1. the walk *)
DbPart(db, upper) == Listing({c \in db.cmds : c.seq < upper})
SessionView(db, upper, session) == DbPart(db, upper) \o session
Matching(p, v) == SelectSeq(v, LAMBDA e : IsPre(p, e.t))
KeepIdx(v) == {i \in 1..Len(v) : \A j \in (i + 1)..Len(v) : v[j].t # v[i].t}
Dedup(v) == LET q == SetToSortSeq(KeepIdx(v), LAMBDA x, y : x < y) IN [k \in 1..Len(q) |-> v[q[k]]]
CursorView(db, upper, session, p, d) ==
  LET m == Matching(p, SessionView(db, upper, session)) IN IF d THEN Dedup(m) ELSE m

NewWalk(db, upper, session, p, d) ==
  LET v == CursorView(db, upper, session, p, d)
  IN [p |-> p, d |-> d, view |-> v, pos |-> Len(v) + 1, slen |-> Len(session)]
WalkGet(w)  == IF w.pos \in 1..Len(w.view) THEN Found(w.view[w.pos]) ELSE EOH
WalkPrev(w) == [w EXCEPT !.pos = IF w.pos > 0 THEN w.pos - 1 ELSE 0]
WalkNext(w) == [w EXCEPT !.pos = IF w.pos <= Len(w.view) THEN w.pos + 1 ELSE w.pos]

(* properties of a view, checked for every cursor the model makes (slen: the cursor sees the
   session's additions up to the moment it was made) *)
ViewOK(db, upper, session, foreign, w) ==
  LET sv == SessionView(db, upper, SubSeq(session, 1, w.slen)) IN
  /\ \A i \in 1..Len(w.view) : IsPre(w.p, w.view[i].t) /\ w.view[i].n \notin foreign
  /\ \A i \in 1..(Len(w.view) - 1) : w.view[i].n < w.view[i + 1].n
  /\ \A i \in 1..Len(sv) : IsPre(w.p, sv[i].t) =>
        \E j \in 1..Len(w.view) : w.view[j].t = sv[i].t /\ (IF w.d THEN w.view[j].n >= sv[i].n ELSE w.view[j].n = sv[i].n)
  /\ \A j \in 1..Len(w.view) : \E i \in 1..Len(sv) : sv[i] = w.view[j]
  /\ w.d => \A i, j \in 1..Len(w.view) : w.view[i].t = w.view[j].t => i = j

(* ------------------------------------------------------------------ 2. the algorithm *)
SOp(op, a, t) == [op |-> op, a |-> a, b |-> 0, t |-> t, d |-> 0, f |-> 0, bl |-> <<>>]

\* dbStoreCursor: sh = [n, ok, t]; n = upper (after the end) or -1 (before the start) when ~ok
ShInit(upper) == [n |-> upper, ok |-> FALSE, t |-> <<>>]
ShGet(sh) == IF sh.ok THEN Found(sh) ELSE EOH
ShPrev(db, sh, p) ==
  IF sh.n < 0 THEN sh
  ELSE LET r == Res(db, SOp("PrevCmd", sh.n, p))
       IN IF r.ok THEN [n |-> r.n, ok |-> TRUE, t |-> r.t] ELSE [n |-> -1, ok |-> FALSE, t |-> <<>>]
ShNext(db, upper, sh, p) ==
  IF sh.n >= upper THEN sh
  ELSE LET r == Res(db, SOp("NextCmd", sh.n + 1, p))
       IN IF r.ok /\ r.n < upper THEN [n |-> r.n, ok |-> TRUE, t |-> r.t] ELSE ShInit(upper)

\* memStoreCursor: ms = [cmds (snapshot), idx in -1..Len(cmds), 0-based as in the code]
MsInit(session) == [cmds |-> session, idx |-> Len(session)]
MsGet(ms) == IF ms.idx < 0 \/ ms.idx >= Len(ms.cmds) THEN EOH ELSE Found(ms.cmds[ms.idx + 1])
MsPrev(ms, p) ==
  IF ms.idx < 0 THEN ms
  ELSE LET S == {j \in 0..(ms.idx - 1) : IsPre(p, ms.cmds[j + 1].t)}
       IN [ms EXCEPT !.idx = IF S = {} THEN -1 ELSE Max(S)]
MsNext(ms, p) ==
  IF ms.idx >= Len(ms.cmds) THEN ms
  ELSE LET S == {j \in (ms.idx + 1)..(Len(ms.cmds) - 1) : IsPre(p, ms.cmds[j + 1].t)}
       IN [ms EXCEPT !.idx = IF S = {} THEN Len(ms.cmds) ELSE Min(S)]

\* hybridStoreCursor: hc = [p, sh, ms, us]
HcInit(upper, session, p) == [p |-> p, sh |-> ShInit(upper), ms |-> MsInit(session), us |-> FALSE]
HcGet(hc) == IF hc.us THEN ShGet(hc.sh) ELSE MsGet(hc.ms)
HcPrev(db, hc) ==
  IF hc.us THEN [hc EXCEPT !.sh = ShPrev(db, hc.sh, hc.p)]
  ELSE LET m == MsPrev(hc.ms, hc.p)
       IN IF MsGet(m).ok THEN [hc EXCEPT !.ms = m]
          ELSE [hc EXCEPT !.ms = m, !.us = TRUE, !.sh = ShPrev(db, hc.sh, hc.p)]
HcNext(db, upper, hc) ==
  IF ~hc.us THEN [hc EXCEPT !.ms = MsNext(hc.ms, hc.p)]
  ELSE LET s == ShNext(db, upper, hc.sh, hc.p)
       IN IF s.ok THEN [hc EXCEPT !.sh = s]
          ELSE [hc EXCEPT !.sh = s, !.us = FALSE, !.ms = MsNext(hc.ms, hc.p)]

\* dedupCursor over a hybrid cursor: ac = [d, hc, cur, stack]  (d = FALSE: the bare hybrid cursor)
AcInit(upper, session, p, d) == [d |-> d, hc |-> HcInit(upper, session, p), cur |-> 0, stack |-> <<>>]
RECURSIVE DdSeek(_, _)
DdSeek(db, ac) ==
  LET h == HcPrev(db, ac.hc)
      g == HcGet(h)
  IN IF ~g.ok THEN [ac EXCEPT !.hc = h, !.cur = Len(ac.stack)]
     ELSE IF \A i \in 1..Len(ac.stack) : ac.stack[i].t # g.t
          THEN [ac EXCEPT !.hc = h, !.cur = Len(ac.stack), !.stack = Append(ac.stack, Ent(g))]
          ELSE DdSeek(db, [ac EXCEPT !.hc = h])
AcPrev(db, ac) ==
  IF ~ac.d THEN [ac EXCEPT !.hc = HcPrev(db, ac.hc)]
  ELSE IF ac.cur < Len(ac.stack) - 1 THEN [ac EXCEPT !.cur = ac.cur + 1] ELSE DdSeek(db, ac)
AcNext(db, upper, ac) ==
  IF ~ac.d THEN [ac EXCEPT !.hc = HcNext(db, upper, ac.hc)]
  ELSE IF ac.cur >= 0 THEN [ac EXCEPT !.cur = ac.cur - 1] ELSE ac
AcGet(ac) ==
  IF ~ac.d THEN HcGet(ac.hc)
  ELSE IF ac.cur < 0 THEN EOH
  ELSE IF ac.cur < Len(ac.stack) THEN Found(ac.stack[ac.cur + 1])
  ELSE HcGet(ac.hc)
=============================================================================
