--------------------------- MODULE TraceHistWalk ---------------------------
(* V for C29: recorded histories of the REAL hybrid store and its cursors, one event per call
     [a |-> action, t, s, p, d, n |-> sequence number returned by the real AddCmd,
      get |-> what the real cursor's Get returned after the call ([ok, n, t]; EndOfHistory = ~ok)]
   histories separated by a "Reset" event (fresh database, no session).  The walker applies every
   event to the model world S = [db, upper, session, live, stale, w] (HistWalk.tla: the declarative
   walk over the session's view) and requires, while a live non-stale cursor exists, the recorded Get
   to be WalkGet, and the sequence number returned by the session's AddCmd to be the store's next one.
   After a rejection it skips to the next Reset (one report per history).
   DelInDb is accepted before the session starts as well (commands deleted earlier). *)
EXTENDS HistWalk, TLC, Json
Cases == ndJsonDeserialize("cases.ndjson")
VARIABLES k, S, bad
NoW == [p |-> <<>>, d |-> FALSE, view |-> <<>>, pos |-> 0, slen |-> 0]
S0 == [db |-> Empty, upper |-> 0, session |-> <<>>, live |-> FALSE, stale |-> FALSE, w |-> NoW]
AddOp(t) == SOp("AddCmd", 0, t)
Eff(s, e) ==
  CASE e.a \in {"PreAdd", "AddElsewhere"} -> [s EXCEPT !.db = Apply(s.db, AddOp(e.t))]
    [] e.a = "Start"     -> [s EXCEPT !.upper = Res(s.db, SOp("NextCmdSeq", 0, <<>>)).n]
    [] e.a = "AddHere"   -> [s EXCEPT !.db = Apply(s.db, AddOp(e.t)), !.stale = s.stale \/ s.live,
                                      !.session = Append(s.session, [n |-> Res(s.db, AddOp(e.t)).n, t |-> e.t])]
    [] e.a = "DelInDb"   -> [s EXCEPT !.db = Apply(s.db, SOp("DelCmd", e.s, <<>>)),
                                      !.stale = s.stale \/ (s.live /\ e.s < s.upper /\ \E c \in s.db.cmds : c.seq = e.s)]
    [] e.a = "NewCursor" -> [s EXCEPT !.live = TRUE, !.stale = FALSE, !.w = NewWalk(s.db, s.upper, s.session, e.p, e.d)]
    [] e.a = "Prev"      -> [s EXCEPT !.w = WalkPrev(s.w)]
    [] e.a = "Next"      -> [s EXCEPT !.w = WalkNext(s.w)]
    [] OTHER             -> s
\* events the model has no action for in the current state (generator defect, reported as such)
OutOfModel(s, e) ==
  \/ e.a \in {"AddHere", "AddElsewhere", "NewCursor"} /\ s.upper = 0
  \/ e.a \in {"PreAdd", "Start"} /\ s.upper # 0
  \/ e.a \in {"Prev", "Next"} /\ ~s.live
  \/ e.a = "DelInDb" /\ \E i \in 1..Len(s.session) : s.session[i].n = e.s
  \/ e.a \notin {"PreAdd", "Start", "AddHere", "AddElsewhere", "DelInDb", "NewCursor", "Prev", "Next"}
Want(s2) == IF s2.live /\ ~s2.stale THEN WalkGet(s2.w) ELSE EOH
StepOK(s, e) == LET s2 == Eff(s, e) IN
  /\ (s2.live /\ ~s2.stale) => e.get = WalkGet(s2.w)
  /\ e.a = "AddHere" => e.n = Res(s.db, AddOp(e.t)).n
Init == k = 0 /\ S = S0 /\ bad = FALSE
Next == /\ k < Len(Cases) /\ k' = k + 1
        /\ LET e == Cases[k + 1] IN
           IF e.a = "Reset" THEN S' = S0 /\ bad' = FALSE
           ELSE IF bad THEN UNCHANGED <<S, bad>>
           ELSE IF OutOfModel(S, e) THEN S' = S /\ bad' = PrintT(<<"BAD", k + 1, "out-of-model", e.a>>)
           ELSE /\ S' = Eff(S, e)
                /\ bad' = (~StepOK(S, e) /\ PrintT(<<"BAD", k + 1, e.a, ToJson(Want(Eff(S, e))), Res(S.db, AddOp(e.t)).n>>))
Inv == TRUE
=============================================================================
