CONSTANTS OpKeys = {0, 1, 2, 3, 4} Vals = {1, 2} FillCounts0 = {0, 15, 16} FillCounts1 = {7, 8} MaxVers = 3
SPECIFICATION Spec
VIEW View
INVARIANT LenIsCardinality
INVARIANT FillersUntouched
INVARIANT DictLaws
PROPERTY Persistence
ACTION_CONSTRAINT EmitT
