--------------------------- MODULE TracePHashMap ---------------------------
(* V for C07: recorded histories of REAL maps, one event per call
     [o      operation (o.v indexes the live versions, 0-based),
      r      what the call returned ([found, val, n] as PHashMap!Res; all 0/FALSE for the others),
      it     Iterate: the iterated pairs, flat  k1, x1, k2, x2, ..
      all    for EVERY live version after the call, re-read in full:
               n    Len()
               idx  Index of every key of the history's universe, in the order of the Reset event's
                    key list: the value, or -1 when Index says "absent" (-2: absent yet a value)
               it   the full iteration, flat]
   plus two harness events: "Reset" (keys = the key universe; all = the initial live versions, read
   the same way; their content is taken from the idx reading) and "Drop" (the driver forgets live
   version o.v).  The walker keeps vers as PHashMap prescribes and requires every recorded result
   and every re-read to match; after a rejected event it skips to the next Reset. *)
EXTENDS PHashMap, TLC, Json
Cases == ndJsonDeserialize("cases.ndjson")
VARIABLES k, keys, vers, bad
Init == k = 0 /\ keys = <<>> /\ vers = <<>> /\ bad = FALSE

FlatOK(m, flat) ==
  LET n == Len(flat) \div 2 IN
  /\ Len(flat) = 2 * Cardinality(DOMAIN m)
  /\ \A i \in 1..n : flat[2 * i - 1] \in DOMAIN m /\ m[flat[2 * i - 1]] = flat[2 * i]
  /\ Cardinality({flat[2 * i - 1] : i \in 1..n}) = n
ReadOK(m, ks, a) ==
  /\ a.n = Cardinality(DOMAIN m)
  /\ Len(a.idx) = Len(ks)
  /\ \A j \in 1..Len(ks) : a.idx[j] = IF ks[j] \in DOMAIN m THEN m[ks[j]] ELSE -1
  /\ FlatOK(m, a.it)
FromIdx(ks, a) == LET P == {j \in 1..Len(ks) : a.idx[j] >= 0}
                  IN [key \in {ks[j] : j \in P} |-> a.idx[CHOOSE j \in P : ks[j] = key]]
StepOK(vs, ks, e) ==
  LET m == vs[e.o.v + 1] nvs == ApplyV(vs, e.o) IN
  /\ e.r = Res(m, e.o)
  /\ e.o.op = "Iterate" => FlatOK(m, e.it)
  /\ Len(e.all) = Len(nvs)
  /\ \A i \in DOMAIN nvs : ReadOK(nvs[i], ks, e.all[i])
Remove(vs, i) == [j \in 1..(Len(vs) - 1) |-> IF j < i THEN vs[j] ELSE vs[j + 1]]
Next == /\ k < Len(Cases) /\ k' = k + 1
        /\ LET e == Cases[k + 1] IN
           IF e.o.op = "Reset"
           THEN /\ keys' = e.keys
                /\ vers' = [i \in DOMAIN e.all |-> FromIdx(e.keys, e.all[i])]
                /\ bad' = (~(\A i \in DOMAIN e.all : ReadOK(FromIdx(e.keys, e.all[i]), e.keys, e.all[i]))
                           /\ PrintT(<<"BAD", k + 1, "Reset", "initial versions read inconsistently">>))
           ELSE IF bad THEN UNCHANGED <<keys, vers, bad>>
           ELSE IF e.o.op = "Drop"
           THEN /\ vers' = Remove(vers, e.o.v + 1) /\ UNCHANGED keys
                /\ bad' = (~(/\ Len(e.all) = Len(vers) - 1
                             /\ \A i \in 1..(Len(vers) - 1) : ReadOK(Remove(vers, e.o.v + 1)[i], keys, e.all[i]))
                           /\ PrintT(<<"BAD", k + 1, "Drop", "remaining versions read differently">>))
           ELSE /\ UNCHANGED keys
                /\ vers' = ApplyV(vers, e.o)
                /\ bad' = (~StepOK(vers, keys, e) /\ PrintT(<<"BAD", k + 1, e.o.op, ToJson(Res(vers[e.o.v + 1], e.o))>>))
Inv == TRUE
=============================================================================
