------------------------------ MODULE PHashMap ------------------------------
(* C07 -- persistent hash maps (pkg/persistent/hashmap: hashMap, bitmapNode, arrayNode,
   collisionNode, the iterators) as immutable dictionaries.

   A map's CONTENT is a function from a finite set of keys to values.  Keys are abstract ids
   (integers); NilKey is the distinguished nil key (the real map keeps it outside the trie).
   HASHES DO NOT OCCUR IN THIS MODULE: that is the property -- whatever the hash function and
   however its values collide, the map is this dictionary.  The collision structure is part of a
   CASE: the executor replays every behaviour once per hash assignment (keys sharing exactly the
   low p bits, full collisions, mixed families, nodes pre-filled to the pack/unpack thresholds).

   Operations = the methods of hashmap.Map, the receiver being an argument (o.v indexes vers):
     Assoc(v, k, x)   new version  [content EXCEPT ![k] = x]  (adds k if absent)
     Dissoc(v, k)     new version without k (equal content if k is absent; still a new version)
     Index(v, k)      (value, TRUE) if k is present, else (no value, FALSE)
     Len(v)           Cardinality(DOMAIN content)
     Iterate(v)       every entry exactly once, in any order: judged by IterOK on the recorded list
   Results are records [found, val, n]; entries travel as sequences of [k, x] records.

   State (MCPHashMap / TracePHashMap): vers = append-only sequence of contents.
   Persistence == [][\A i \in DOMAIN vers : vers'[i] = vers[i]]_vars.

   Unspecified: the iteration order (any permutation is accepted).  Nothing else. *)
EXTENDS Integers, Sequences, FiniteSets

NilKey == 0
O0 == [op |-> "", v |-> 0, k |-> 0, x |-> 0]
R0 == [found |-> FALSE, val |-> 0, n |-> 0]
EmptyMap == [k \in {} |-> 0]

Put(m, k, x) == [j \in DOMAIN m \cup {k} |-> IF j = k THEN x ELSE m[j]]
Del(m, k) == [j \in DOMAIN m \ {k} |-> m[j]]

Creating(o) == o.op \in {"Assoc", "Dissoc"}

Res(m, o) ==
  CASE o.op = "Index" -> IF o.k \in DOMAIN m THEN [R0 EXCEPT !.found = TRUE, !.val = m[o.k]] ELSE R0
    [] o.op = "Len"   -> [R0 EXCEPT !.n = Cardinality(DOMAIN m)]
    [] OTHER          -> R0          \* Assoc, Dissoc: the new version is the result; Iterate: IterOK

Apply(m, o) ==
  CASE o.op = "Assoc"  -> Put(m, o.k, o.x)
    [] o.op = "Dissoc" -> Del(m, o.k)
    [] OTHER           -> m

ApplyV(vs, o) == IF Creating(o) THEN Append(vs, Apply(vs[o.v + 1], o)) ELSE vs

(* entries = recorded iteration, a sequence of [k, x]: each entry of m exactly once, nothing else *)
IterOK(m, entries) ==
  /\ Len(entries) = Cardinality(DOMAIN m)
  /\ \A i \in 1..Len(entries) : entries[i].k \in DOMAIN m /\ m[entries[i].k] = entries[i].x
  /\ \A i, j \in 1..Len(entries) : i # j => entries[i].k # entries[j].k

(* the content as a sorted entry list (for emission) *)
RECURSIVE SortedKeys(_)
SortedKeys(S) == IF S = {} THEN <<>> ELSE LET a == CHOOSE a \in S : \A b \in S : a <= b IN <<a>> \o SortedKeys(S \ {a})
Entries(m) == LET ks == SortedKeys(DOMAIN m) IN [i \in 1..Len(ks) |-> [k |-> ks[i], x |-> m[ks[i]]]]
MapOf(es) == [k \in {es[i].k : i \in 1..Len(es)} |-> es[CHOOSE i \in 1..Len(es) : es[i].k = k].x]

(* dictionary laws (checked in MCPHashMap on every reachable version) *)
Laws(m, Ks, Xs) ==
  \A k \in Ks : \A x \in Xs :
    /\ Res(Put(m, k, x), [O0 EXCEPT !.op = "Index", !.k = k]) = [R0 EXCEPT !.found = TRUE, !.val = x]
    /\ ~Res(Del(m, k), [O0 EXCEPT !.op = "Index", !.k = k]).found
    /\ Del(Put(m, k, x), k) = Del(m, k)
    /\ (k \in DOMAIN m => Put(Del(m, k), k, m[k]) = m)
    /\ Cardinality(DOMAIN Put(m, k, x)) = Cardinality(DOMAIN m) + (IF k \in DOMAIN m THEN 0 ELSE 1)
    /\ Cardinality(DOMAIN Del(m, k)) = Cardinality(DOMAIN m) - (IF k \in DOMAIN m THEN 1 ELSE 0)
    /\ \A j \in Ks \ {k} : /\ Res(Put(m, k, x), [O0 EXCEPT !.op = "Index", !.k = j]) = Res(m, [O0 EXCEPT !.op = "Index", !.k = j])
                          /\ Res(Del(m, k), [O0 EXCEPT !.op = "Index", !.k = j]) = Res(m, [O0 EXCEPT !.op = "Index", !.k = j])
    /\ IterOK(m, Entries(m))
=============================================================================
