----------------------------- MODULE MCPHashMap -----------------------------
(* Exhaustive model of PHashMap + generator of behaviours ("one implementation test per
   transition").  One initial state per configuration: version 0 holds n FILLER keys (never touched
   by an operation; the executor gives them hashes that fill a trie node up to the pack / unpack
   thresholds, so that the model's few operations tip it over) and possibly model key 1;
   n = 0 without key 1 is the plain small-scope model from the empty map.
   hist (hidden by the VIEW) is one path to the current state; the always-true action constraint
   EmitT prints, for every generated transition, that path + the step, the prescribed result and
   the prescribed content of every live version afterwards. *)
EXTENDS PHashMap, TLC, Json
CONSTANTS OpKeys,      \* keys the operations use (NilKey = 0 among them)
          Vals,        \* values written
          FillCounts0, \* numbers n of filler keys 101..100+n for which version 0 = the fillers only
          FillCounts1, \* numbers n of filler keys for which version 0 = the fillers and key 1 (value 9)
          MaxVers
VARIABLES vers, hist
vars == <<vers, hist>>

V0(init, n) == [k \in init \cup (101..(100 + n)) |-> IF k > 100 THEN 100 + k ELSE 9]
Fillers == {k \in DOMAIN vers[1] : k > 100}      \* version 0 never changes
Ops(vs) ==
  UNION {    {[O0 EXCEPT !.op = "Assoc", !.v = p - 1, !.k = k, !.x = x] : k \in OpKeys, x \in Vals}
        \cup {[O0 EXCEPT !.op = "Dissoc", !.v = p - 1, !.k = k] : k \in OpKeys}
        \cup {[O0 EXCEPT !.op = "Index", !.v = p - 1, !.k = k] : k \in OpKeys}
        \cup {[O0 EXCEPT !.op = "Len", !.v = p - 1], [O0 EXCEPT !.op = "Iterate", !.v = p - 1]}
        : p \in 1..Len(vs)}
Init == /\ \/ \E n \in FillCounts0 : vers = <<V0({}, n)>>
           \/ \E n \in FillCounts1 : vers = <<V0({1}, n)>>
        /\ hist = <<>>
Step(o) == /\ Len(vers) < MaxVers          \* a state holding MaxVers versions is a leaf
           /\ vers' = ApplyV(vers, o)
           /\ hist' = Append(hist, <<o.op, o.v, o.k, o.x>>)
Next == \E o \in Ops(vers) : Step(o)
Spec == Init /\ [][Next]_vars
View == vers

Persistence == [][/\ Len(vers') >= Len(vers)
                  /\ \A i \in DOMAIN vers : vers'[i] = vers[i]]_vars
LenIsCardinality == \A i \in DOMAIN vers :
                      Res(vers[i], [O0 EXCEPT !.op = "Len"]).n = Len(Entries(vers[i])) /\ MapOf(Entries(vers[i])) = vers[i]
FillersUntouched == \A i \in DOMAIN vers : \A k \in Fillers : k \in DOMAIN vers[i] /\ vers[i][k] = 100 + k
\* in the plain model, on the newest version (every version is the newest one in some state and never changes)
DictLaws == Fillers = {} => Laws(vers[Len(vers)], OpKeys, Vals)

LastOp == LET h == hist'[Len(hist')] IN [O0 EXCEPT !.op = h[1], !.v = h[2], !.k = h[3], !.x = h[4]]
EmitT == PrintT(ToJson([p |-> hist', r |-> Res(vers[LastOp.v + 1], LastOp),
                        vers |-> [i \in DOMAIN vers' |-> Entries(vers'[i])]]))
=============================================================================
