CONSTANTS Prods = {1, 2, 3} InCap = 2 CbBudget = 1
SPECIFICATION Spec
INVARIANT Serial NoLostRedraw FullKept OneFinal FirstReturnWins FifoPerProducer HandledOnce
PROPERTY NothingAfterFinal EventuallyRedrawn
