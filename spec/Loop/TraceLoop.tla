------------------------------ MODULE TraceLoop ------------------------------
(* V for C32: events recorded from the REAL loop (cli.VerifNewLoop) under free-running producers are
   checked to be a behaviour of the loop protocol.  Logged events (one tracer, mutex + sequence no.):
     producers (p >= 1) and handlers (p = 0, on the loop goroutine):
        RedrawStart(p, full) RedrawEnd(p)   InputStart(p, e) InputEnd(p)   ReturnStart(p, b) ReturnEnd(p)
     loop callbacks:  Draw(full, final)  -- logged inside the redraw callback, i.e. AFTER extractRedrawFull
                      Handle(e)          -- logged at the start of the handle callback
     Returned(b)      -- after Run returned b
     Quiescent(tok, nin) -- a sample of len(redrawCh), len(inputCh) taken under redrawMutex
     Reset            -- a new loop (runs are concatenated)
   Unlogged internal steps placed by TLC: Effect (the channel/flag effect of a call, between its
   Start and End), Extract, SelRedraw, Recv (the loop's receive from inputCh: it precedes the Handle
   event, which is logged from inside the callback; a Quiescent sample may fall between the two and
   then sees the channel already shorter), PollRetEmpty, PollInEmpty.
   Every invariant is evaluated in every inferred state. *)
EXTENDS Integers, Sequences, TLC, Json, FiniteSets
Trace == ndJsonDeserialize("trace.ndjson")
VARIABLES l, inputCh, tok, full, retCh, lpc, result, curFull,
          got,         \* the event received from inputCh and not yet handed to the handle callback (0: none)
          pend,        \* producer p -> [k, arg, done]  (at most one outstanding call per producer)
          reqs, served, fullPending
vars == <<l, inputCh, tok, full, retCh, lpc, result, curFull, got, pend, reqs, served, fullPending>>
NoPend == [p \in {} |-> 0]
Init == /\ l = 1 /\ curFull = FALSE /\ inputCh = <<>> /\ tok = 0 /\ full = FALSE /\ retCh = <<>> /\ lpc = "top" /\ result = ""
        /\ pend = NoPend /\ reqs = 0 /\ served = 0 /\ fullPending = FALSE /\ got = 0
Is(e) == l <= Len(Trace) /\ Trace[l].ev = e
Adv == l' = l + 1
T == Trace[l]
Reset == /\ Is("Reset") /\ Adv
         /\ curFull' = FALSE /\ inputCh' = <<>> /\ tok' = 0 /\ full' = FALSE /\ retCh' = <<>> /\ lpc' = "top" /\ result' = ""
         /\ pend' = NoPend /\ reqs' = 0 /\ served' = 0 /\ fullPending' = FALSE /\ got' = 0
Start(k) == /\ T.p \notin DOMAIN pend
            /\ pend' = [q \in DOMAIN pend \cup {T.p} |->
                          IF q = T.p THEN [k |-> k, arg |-> (IF k = "redraw" THEN T.full ELSE IF k = "input" THEN T.e ELSE T.b), done |-> FALSE]
                          ELSE pend[q]]
Others == <<inputCh, tok, full, retCh, lpc, result, reqs, served, fullPending, curFull, got>>
RedrawStart == Is("RedrawStart") /\ Adv /\ Start("redraw") /\ UNCHANGED Others
InputStart  == Is("InputStart")  /\ Adv /\ Start("input")  /\ UNCHANGED Others
ReturnStart == Is("ReturnStart") /\ Adv /\ Start("return") /\ UNCHANGED Others
End(k) == /\ T.p \in DOMAIN pend /\ pend[T.p].k = k /\ pend[T.p].done
          /\ pend' = [q \in DOMAIN pend \ {T.p} |-> pend[q]]
AnyEnd == /\ \/ (Is("RedrawEnd") /\ End("redraw")) \/ (Is("InputEnd") /\ End("input")) \/ (Is("ReturnEnd") /\ End("return"))
          /\ Adv /\ UNCHANGED Others
\* internal: the effect of an outstanding call
Effect == \E p \in DOMAIN pend :
            /\ ~pend[p].done
            /\ pend' = [pend EXCEPT ![p].done = TRUE]
            /\ CASE pend[p].k = "redraw" -> /\ full' = (full \/ pend[p].arg) /\ tok' = 1 /\ reqs' = reqs + 1
                                            /\ fullPending' = (fullPending \/ pend[p].arg) /\ UNCHANGED <<inputCh, retCh>>
                 [] pend[p].k = "input"  -> /\ Len(inputCh) < 128 /\ inputCh' = Append(inputCh, pend[p].arg)
                                            /\ UNCHANGED <<tok, full, retCh, reqs, fullPending>>
                 [] pend[p].k = "return" -> /\ retCh' = (IF retCh = <<>> THEN <<pend[p].arg>> ELSE retCh)
                                            /\ UNCHANGED <<tok, full, inputCh, reqs, fullPending>>
            /\ UNCHANGED <<l, lpc, result, served, curFull, got>>
\* loop
Extract == /\ lpc = "top" /\ curFull' = full /\ full' = FALSE /\ lpc' = "drawing"
           /\ UNCHANGED <<l, inputCh, tok, retCh, result, pend, reqs, served, fullPending, got>>
Draw == /\ Is("Draw") /\ ~T.final /\ Adv /\ lpc = "drawing" /\ T.full = curFull
        /\ lpc' = "select" /\ served' = reqs
        /\ fullPending' = (IF T.full THEN full ELSE fullPending)
        /\ UNCHANGED <<inputCh, tok, full, retCh, result, curFull, pend, reqs, got>>
SelRedraw == /\ lpc = "select" /\ tok = 1 /\ tok' = 0 /\ lpc' = "top"
             /\ UNCHANGED <<l, inputCh, full, retCh, result, pend, reqs, served, fullPending, curFull, got>>
Recv ==   /\ lpc \in {"select", "pollin"} /\ inputCh # <<>>
          /\ got' = Head(inputCh) /\ inputCh' = Tail(inputCh) /\ lpc' = "recv"
          /\ UNCHANGED <<l, tok, full, retCh, result, pend, reqs, served, fullPending, curFull>>
Handle == /\ Is("Handle") /\ Adv /\ lpc = "recv" /\ got = T.e
          /\ got' = 0 /\ lpc' = "afterhandle"
          /\ UNCHANGED <<inputCh, tok, full, retCh, result, pend, reqs, served, fullPending, curFull>>
PollRetEmpty == /\ lpc = "afterhandle" /\ retCh = <<>> /\ lpc' = "pollin"
                /\ UNCHANGED <<l, inputCh, tok, full, retCh, result, pend, reqs, served, fullPending, curFull, got>>
PollInEmpty == /\ lpc = "pollin" /\ inputCh = <<>> /\ lpc' = "top"
               /\ UNCHANGED <<l, inputCh, tok, full, retCh, result, pend, reqs, served, fullPending, curFull, got>>
FinalDraw == /\ Is("Draw") /\ T.final /\ Adv /\ lpc \in {"select", "afterhandle"} /\ retCh # <<>>
             /\ result' = Head(retCh) /\ retCh' = <<>> /\ lpc' = "final"
             /\ UNCHANGED <<inputCh, tok, full, pend, reqs, served, fullPending, curFull, got>>
Returned == /\ Is("Returned") /\ Adv /\ lpc = "final" /\ T.b = result /\ lpc' = "returned"
            /\ UNCHANGED <<inputCh, tok, full, retCh, result, pend, reqs, served, fullPending, curFull, got>>
Quiescent == /\ Is("Quiescent") /\ Adv /\ T.tok = tok /\ T.nin = Len(inputCh)
             /\ UNCHANGED <<inputCh, tok, full, retCh, lpc, result, pend, reqs, served, fullPending, curFull, got>>
Next == Extract \/ Reset \/ RedrawStart \/ InputStart \/ ReturnStart \/ AnyEnd \/ Effect \/ Draw \/ SelRedraw
        \/ Recv \/ Handle \/ PollRetEmpty \/ PollInEmpty \/ FinalDraw \/ Returned \/ Quiescent
Spec == Init /\ [][Next]_vars
HW == TLCSet(1, IF TLCGet(1) > l THEN TLCGet(1) ELSE l)
Accepted == PrintT(<<"HW", TLCGet(1)>>) /\ TLCGet(1) = Len(Trace) + 1
ASSUME TLCSet(1, 0)
NoLostRedraw == (lpc = "select" /\ inputCh = <<>> /\ retCh = <<>> /\ \A p \in DOMAIN pend : pend[p].done) => (served = reqs \/ tok = 1)
FullKept == (fullPending /\ lpc \notin {"final", "returned"}) => (full \/ (lpc = "drawing" /\ curFull))
=============================================================================
