SPECIFICATION Spec
CONSTRAINT HW
INVARIANT NoLostRedraw FullKept
POSTCONDITION Accepted
