------------------------------- MODULE MCLoop -------------------------------
EXTENDS Loop
ScriptChoices ==
  { [p \in Prods |-> CASE p = 1 -> <<RedrawOp(FALSE), InputOp("none"), RedrawOp(TRUE)>>
                       [] p = 2 -> <<InputOp("redraw"), InputOp("none"), ReturnOp>>
                       [] OTHER -> <<RedrawOp(TRUE), InputOp("return"), RedrawOp(FALSE)>>],
    [p \in Prods |-> CASE p = 1 -> <<InputOp("redrawfull"), InputOp("none"), InputOp("redraw")>>
                       [] p = 2 -> <<RedrawOp(TRUE), RedrawOp(FALSE), InputOp("none")>>
                       [] OTHER -> <<InputOp("none"), ReturnOp, ReturnOp>>],
    [p \in Prods |-> CASE p = 1 -> <<RedrawOp(FALSE), RedrawOp(FALSE), RedrawOp(TRUE)>>
                       [] p = 2 -> <<InputOp("none"), InputOp("none"), InputOp("none")>>
                       [] OTHER -> <<RedrawOp(TRUE), InputOp("redrawfull"), InputOp("none")>>] }
Init == \E S \in ScriptChoices : InitWith(S)
Spec == Init /\ [][Next]_vars /\ WF_vars(LoopStep)
ReqIds == {<<p, i>> : p \in Prods, i \in 1..3}
EventuallyRedrawn == \A r \in ReqIds : (r \in reqs) ~> (r \in served \/ lpc = "returned")
=============================================================================
