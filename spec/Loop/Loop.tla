-------------------------------- MODULE Loop --------------------------------
(* C32 -- the editor event loop (pkg/cli/loop.go), one process for the loop and one per producer.

   Channels / shared state (as in the code):
     inputCh   FIFO of events, capacity InCap (real: 128); Input blocks when full
     tok       the 1-buffered redrawCh (0/1);  full: redrawFull under redrawMutex
     retCh     the 1-buffered returnCh (sequence of length <= 1); Return never blocks, drops if full
   Loop program counter lpc (the steps of Run):
     top -> [Extract] -> redraw -> [Redraw] -> incb -> [CbRequest]* [CbEnd] -> select
     select -> [SelInput] handle | [SelReturn] final | [SelRedraw] top      (Go select: any ready arm)
     handle -> [Handle(e) + optional handler sub-steps] pollret -> [PollRet] final | pollin
     pollin -> [PollIn] handle | top        final -> [FinalRedraw] returned
   Producer operations (Scripts[p]): Redraw(full) -- ATOMIC (flag and token set under the mutex),
     Input(e) (blocks while full), Return(r).  An input event carries what its handler does:
     act \in {"none", "redraw", "redrawfull", "return"} (handlers run on the loop goroutine).

   Properties
     NoLostRedraw     lpc = select with nothing else ready  =>  every request made is served by a
                      redraw that started after it, or the token is pending
     FullKept         a requested full redraw stays pending (flag set, or the running redraw is full)
                      until a full redraw starts; only the final redraw is exempt
     OneFinal / FirstReturnWins / NothingAfterFinal
     FifoPerProducer  events of one producer are handled in the order sent
     EventuallyRedrawn (liveness, WF on the loop): request ~> served \/ returned *)
EXTENDS Integers, Sequences, FiniteSets, TLC
CONSTANTS Prods, InCap, CbBudget    \* CbBudget: requests the redraw callback may issue itself per behaviour
VARIABLES Scripts,           \* [Prods -> Seq(op)], chosen in Init
          inputCh, tok, full, retCh,
          lpc, cur, flag,
          ppc,
          cb,                \* requests the redraw callback may still issue itself (it runs on the loop goroutine)
          reqs, served, fullPending, draws, handled, result, finals, afterFinal
vars == <<Scripts, inputCh, tok, full, retCh, lpc, cur, flag, ppc, cb, reqs, served, fullPending, draws, handled, result, finals, afterFinal>>

RedrawOp(f) == [k |-> "redraw", full |-> f, act |-> "none"]
InputOp(a)  == [k |-> "input", full |-> FALSE, act |-> a]
ReturnOp    == [k |-> "return", full |-> FALSE, act |-> "none"]

InitWith(S) ==
  /\ Scripts = S
  /\ inputCh = <<>> /\ tok = 0 /\ full = FALSE /\ retCh = <<>>
  /\ lpc = "top" /\ cur = <<>> /\ flag = {}
  /\ ppc = [p \in Prods |-> 1] /\ cb = CbBudget
  /\ reqs = {} /\ served = {} /\ fullPending = FALSE /\ draws = 0 /\ handled = <<>> /\ result = <<>>
  /\ finals = 0 /\ afterFinal = 0

\* ---- the effect of the three public calls (used by producers and by handlers)
DoRedraw(f, id) == /\ full' = (full \/ f) /\ tok' = 1
                   /\ reqs' = reqs \cup {id} /\ fullPending' = (fullPending \/ f)
DoReturn(id)    == retCh' = IF retCh = <<>> THEN <<id>> ELSE retCh

\* ---- producers
Op(p) == Scripts[p][ppc[p]]
HasOp(p) == ppc[p] <= Len(Scripts[p])
PRedraw(p) == /\ HasOp(p) /\ Op(p).k = "redraw"
              /\ DoRedraw(Op(p).full, <<p, ppc[p]>>)
              /\ ppc' = [ppc EXCEPT ![p] = @ + 1]
              /\ UNCHANGED <<cb, Scripts, inputCh, retCh, lpc, cur, flag, served, draws, handled, result, finals, afterFinal>>
PInput(p) == /\ HasOp(p) /\ Op(p).k = "input" /\ Len(inputCh) < InCap
             /\ inputCh' = Append(inputCh, [p |-> p, i |-> ppc[p], act |-> Op(p).act])
             /\ ppc' = [ppc EXCEPT ![p] = @ + 1]
             /\ UNCHANGED <<cb, Scripts, tok, full, retCh, lpc, cur, flag, reqs, served, fullPending, draws, handled, result, finals, afterFinal>>
PReturn(p) == /\ HasOp(p) /\ Op(p).k = "return"
              /\ DoReturn(<<p, ppc[p]>>)
              /\ ppc' = [ppc EXCEPT ![p] = @ + 1]
              /\ UNCHANGED <<cb, Scripts, inputCh, tok, full, lpc, cur, flag, reqs, served, fullPending, draws, handled, result, finals, afterFinal>>
\* ---- loop
LExtract == /\ lpc = "top" /\ flag' = (IF full THEN {"full"} ELSE {}) /\ full' = FALSE /\ lpc' = "redraw"
            /\ UNCHANGED <<cb, Scripts, inputCh, tok, retCh, cur, ppc, reqs, served, fullPending, draws, handled, result, finals, afterFinal>>
LRedraw == /\ lpc = "redraw" /\ draws' = draws + 1
           /\ served' = reqs       \* requests completed before this redraw started are served by it
           /\ fullPending' = (IF "full" \in flag THEN full ELSE fullPending)
           /\ lpc' = "incb"
           /\ UNCHANGED <<cb, Scripts, inputCh, tok, full, retCh, cur, flag, ppc, reqs, handled, result, finals, afterFinal>>
\* the redraw callback is running (lpc = "incb"): producers may issue requests meanwhile, and the callback
\* itself may call Redraw (loop.go: "the callback may itself request a redraw"); then it returns
LCbRequest(f) == /\ lpc = "incb" /\ cb > 0 /\ cb' = cb - 1
                 /\ DoRedraw(f, <<0, draws>>)
                 /\ UNCHANGED <<Scripts, inputCh, retCh, lpc, cur, flag, ppc, served, draws, handled, result, finals, afterFinal>>
LCbEnd == /\ lpc = "incb" /\ lpc' = "select"
          /\ UNCHANGED <<cb, Scripts, inputCh, tok, full, retCh, cur, flag, ppc, reqs, served, fullPending, draws, handled, result, finals, afterFinal>>
LSelInput == /\ lpc = "select" /\ inputCh # <<>> /\ cur' = Head(inputCh) /\ inputCh' = Tail(inputCh) /\ lpc' = "handle"
             /\ UNCHANGED <<cb, Scripts, tok, full, retCh, flag, ppc, reqs, served, fullPending, draws, handled, result, finals, afterFinal>>
LSelReturn == /\ lpc = "select" /\ retCh # <<>> /\ result' = retCh /\ retCh' = <<>> /\ lpc' = "final"
              /\ UNCHANGED <<cb, Scripts, inputCh, tok, full, cur, flag, ppc, reqs, served, fullPending, draws, handled, finals, afterFinal>>
LSelRedraw == /\ lpc = "select" /\ tok = 1 /\ tok' = 0 /\ lpc' = "top"
              /\ UNCHANGED <<cb, Scripts, inputCh, full, retCh, cur, flag, ppc, reqs, served, fullPending, draws, handled, result, finals, afterFinal>>
\* handling an event: the handler's own request happens inside the callback
LHandle == /\ lpc = "handle" /\ handled' = Append(handled, <<cur.p, cur.i>>) /\ lpc' = "pollret"
           /\ CASE cur.act = "none"       -> UNCHANGED <<tok, full, reqs, fullPending, retCh>>
                [] cur.act = "redraw"     -> DoRedraw(FALSE, <<cur.p, cur.i>>) /\ UNCHANGED retCh
                [] cur.act = "redrawfull" -> DoRedraw(TRUE, <<cur.p, cur.i>>) /\ UNCHANGED retCh
                [] cur.act = "return"     -> DoReturn(<<cur.p, cur.i>>) /\ UNCHANGED <<tok, full, reqs, fullPending>>
           /\ UNCHANGED <<cb, Scripts, inputCh, cur, flag, ppc, served, draws, result, finals, afterFinal>>
LPollRet == /\ lpc = "pollret"
            /\ IF retCh # <<>> THEN result' = retCh /\ retCh' = <<>> /\ lpc' = "final"
               ELSE lpc' = "pollin" /\ UNCHANGED <<result, retCh>>
            /\ UNCHANGED <<cb, Scripts, inputCh, tok, full, cur, flag, ppc, reqs, served, fullPending, draws, handled, finals, afterFinal>>
LPollIn == /\ lpc = "pollin"
           /\ IF inputCh # <<>> THEN cur' = Head(inputCh) /\ inputCh' = Tail(inputCh) /\ lpc' = "handle"
              ELSE lpc' = "top" /\ UNCHANGED <<cur, inputCh>>
           /\ UNCHANGED <<cb, Scripts, tok, full, retCh, flag, ppc, reqs, served, fullPending, draws, handled, result, finals, afterFinal>>
LFinal == /\ lpc = "final" /\ finals' = finals + 1 /\ lpc' = "returned"
          /\ UNCHANGED <<cb, Scripts, inputCh, tok, full, retCh, cur, flag, ppc, reqs, served, fullPending, draws, handled, result, afterFinal>>
LoopStep == LExtract \/ LRedraw \/ LCbRequest(TRUE) \/ LCbRequest(FALSE) \/ LCbEnd \/ LSelInput \/ LSelReturn \/ LSelRedraw \/ LHandle \/ LPollRet \/ LPollIn \/ LFinal
ProdStep == \E p \in Prods : PRedraw(p) \/ PInput(p) \/ PReturn(p)
Next == LoopStep \/ ProdStep

\* ---- properties
Serial == lpc \in {"top", "redraw", "incb", "select", "handle", "pollret", "pollin", "final", "returned"}
NoLostRedraw == (lpc = "select" /\ inputCh = <<>> /\ retCh = <<>>) => (reqs \subseteq served \/ tok = 1)
FullKept == (fullPending /\ lpc \notin {"final", "returned"}) => (full \/ (lpc = "redraw" /\ "full" \in flag))
OneFinal == (lpc = "returned") => finals = 1
FirstReturnWins == lpc = "returned" => Len(result) = 1
NothingAfterFinal == [][lpc = "returned" => UNCHANGED <<handled, draws, finals>>]_vars
FifoPerProducer == \A i, j \in 1..Len(handled) : (i < j /\ handled[i][1] = handled[j][1]) => handled[i][2] < handled[j][2]
HandledOnce == \A i, j \in 1..Len(handled) : i # j => handled[i] # handled[j]
=============================================================================
