CONSTANTS Bases = {0} MaxVers = 3 MaxGrow = 3 CVals = {1, 2} AVals = {1, 2} CheckRefine = TRUE
SPECIFICATION Spec
VIEW View
INVARIANT Canonical
INVARIANT RefinesArray
INVARIANT Laws
PROPERTY Persistence
ACTION_CONSTRAINT EmitT
