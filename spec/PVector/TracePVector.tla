---------------------------- MODULE TracePVector ----------------------------
(* V for C06, history form: recorded histories of REAL vectors, one event per call
     [o      operation; o.v indexes the live versions (0-based),
      probe  TRUE: the driver only observes the outcome and keeps no result (used for deliberately
             out-of-range requests), FALSE: a returned vector becomes the next live version,
      r, it, len, panic   as in JudgePVector,
      all, allit   contents (runs) of ALL live versions re-read in full after the call, with Index at
             every position and with the Iterator]
   plus two harness events: "Reset" (all = the initial live versions) and "Drop" (the driver
   forgets live version o.v).  The walker keeps vers exactly as PVector prescribes and requires
   every recorded outcome and every re-read content to match; after a rejected non-probe event it
   skips to the next Reset so that one defect is reported once per history. *)
EXTENDS PVector, TLC, Json
Cases == ndJsonDeserialize("cases.ndjson")
VARIABLES k, vers, bad
Init == k = 0 /\ vers = <<>> /\ bad = FALSE
Ver(s) == [seq |-> Norm(s), kind |-> "whole"]
Want(vs, e) == Res(vs[e.o.v + 1].seq, e.o)
After(vs, e) == IF e.probe THEN vs ELSE ApplyV(vs, e.o)
StepOK(vs, e) == LET w == Want(vs, e) nvs == After(vs, e) IN
  /\ ~e.panic
  /\ e.r.ok = w.ok /\ e.r.new = w.new /\ e.r.val = w.val /\ e.r.n = w.n
  /\ Norm(e.r.seq) = w.seq
  /\ w.new => (Norm(e.it) = w.seq /\ e.len = RLen(w.seq))
  /\ Len(e.all) = Len(nvs)
  /\ Len(e.allit) = Len(nvs)
  /\ \A i \in DOMAIN nvs : Norm(e.all[i]) = nvs[i].seq /\ Norm(e.allit[i]) = nvs[i].seq
Remove(vs, i) == [j \in 1..(Len(vs) - 1) |-> IF j < i THEN vs[j] ELSE vs[j + 1]]
Next == /\ k < Len(Cases) /\ k' = k + 1
        /\ LET e == Cases[k + 1] IN
           IF e.o.op = "Reset" THEN vers' = [i \in DOMAIN e.all |-> Ver(e.all[i])] /\ bad' = FALSE
           ELSE IF bad THEN UNCHANGED <<vers, bad>>
           ELSE IF e.o.op = "Drop"
           THEN /\ vers' = Remove(vers, e.o.v + 1)
                /\ bad' = (~(/\ Len(e.all) = Len(vers) - 1 /\ Len(e.allit) = Len(vers) - 1
                             /\ \A i \in 1..(Len(vers) - 1) : /\ Norm(e.all[i]) = Remove(vers, e.o.v + 1)[i].seq
                                                                /\ Norm(e.allit[i]) = Remove(vers, e.o.v + 1)[i].seq)
                           /\ PrintT(<<"BAD", k + 1, "Drop", FALSE, "remaining versions read differently">>))
           ELSE IF e.o.v >= Len(vers) THEN UNCHANGED vers /\ bad' = PrintT(<<"BAD", k + 1, e.o.op, FALSE, "no such version">>)
           ELSE /\ vers' = After(vers, e)
                /\ bad' = (~StepOK(vers, e) /\ PrintT(<<"BAD", k + 1, e.o.op, Want(vers, e).ok, ToJson(Want(vers, e))>>) /\ ~e.probe)
Inv == TRUE
=============================================================================
