CONSTANTS MaxRuns = 3 MaxN = 2 Starts = {1, 2, 3}
INIT Init
NEXT Next
INVARIANT Lemmas
