---------------------------- MODULE JudgePVector ----------------------------
(* V for C06, one-step form: every recorded case is one call on a REAL vector
     [o       operation (v unused),
      kind    "whole" | "slice" (how the executor obtained the receiver; information only),
      parent  content of the receiver read before the call, as runs,
      r       what the call did: ok/new/val/n as in PVector!Res; seq = content of the new version read
              with Index at every position (Iterate: the iterated elements); all 0/empty when rejected,
      it      content of the new version read with its Iterator,   len  its Len(),
      after   content of the receiver re-read after the call,      panic  the call panicked]
   The walker computes Res on the recorded receiver content and requires the recorded outcome to
   be exactly that, the iterator and Len of the new version to agree, and the receiver unchanged. *)
EXTENDS PVector, TLC, Json
Cases == ndJsonDeserialize("cases.ndjson")
VARIABLE k
Init == k = 0
Next == k < Len(Cases) /\ k' = k + 1
Want(c) == Res(Norm(c.parent), c.o)
CaseOK(c) == Unspecified(c.o) \/ LET w == Want(c) IN
  /\ ~c.panic
  /\ c.r.ok = w.ok /\ c.r.new = w.new /\ c.r.val = w.val /\ c.r.n = w.n
  /\ Norm(c.r.seq) = w.seq
  /\ w.new => (Norm(c.it) = w.seq /\ c.len = RLen(w.seq))
  /\ Norm(c.after) = Norm(c.parent)
Inv == k = 0 \/ CaseOK(Cases[k]) \/ PrintT(<<"BAD", k, Cases[k].o.op, Want(Cases[k]).ok, ToJson(Want(Cases[k]))>>)
=============================================================================
