------------------------------- MODULE PVector -------------------------------
(* C06 -- persistent vectors (pkg/persistent/vector: vector, subVector, iterator) as immutable
   arrays.

   A vector's CONTENT is a finite sequence of integers.  So that the same module can speak about
   vectors of 2000 elements (the lengths where the real 32-way tree gains or loses a level), a
   content is written as a sequence of RUNS  [a, n]  standing for  a, a+1, .., a+n-1 ;
   Expand(r) is the explicit TLA+ sequence it denotes and Norm(r) the unique decomposition into
   maximal runs.  Part 1 is the array reference on explicit sequences (ARes), part 2 the same
   operations on runs (Res); MCPVector checks  Expand(Res(r, o)) = ARes(Expand(r), o)  for every
   operation in every reachable state of the small-scope model, MCRuns checks the run arithmetic
   on its own (both exhaustively), so the run form is only an encoding of the array reference.

   Operations = the methods of vector.Vector, the receiver being an argument (o.v indexes vers):
     Conj(v, x)      new version  content \o <<x>>
     Pop(v)          new version without the last element;   empty => Rejected
     Assoc(v, i, x)  new version with element i replaced;    i = Len => Conj;  i \notin 0..Len => Rejected
     Sub(v, i, j)    new version = elements i .. j-1;         ~(0 <= i <= j <= Len(v)) => Rejected,
                     Len(v) being the length of v ITSELF, also when v is a slice of something longer
     Index(v, i)     element i;                               i \notin 0..Len-1 => Rejected
     Iterate(v)      all elements in order        Len(v)      the length
   "Rejected" = no value: Index ok=false, Assoc/Pop/SubVector return nil (vector.go documents nil
   for Assoc and Pop; the whole-vector SubVector returns nil as well).  A panic is never accepted.

   State (MCPVector / TracePVector): vers = append-only sequence of versions [seq, kind]; kind
   ("whole" | "slice") records how the version was obtained so that the exploration reaches the
   subVector code paths; it never enters a result.  A rejected or read-only operation leaves vers
   unchanged; a creating one appends.  Persistence == [][\A k \in DOMAIN vers : vers'[k] = vers[k]]_vars.

   The Elvish layer (pkg/eval/vals: vals.Index / vals.Assoc on a List, i.e. $l[i], $l[i..j],
   assoc $l i x) is a second set of operations on the same contents:
     EIndex(v, i) = Index    ESlice(v, i, j) = Sub    EAssoc(v, i, x) = Assoc except that i = Len is
     Rejected (element assignment cannot append).  "Rejected" there = an error is returned.
   Unspecified(o): Elvish-layer requests with a negative bound (Elvish counts those from the end;
   that rule is C13's subject).  The executor does not issue them.  Nothing else. *)
EXTENDS Integers, Sequences

(* ------------------------------------------------------------------ operations and results *)
O0 == [op |-> "", v |-> 0, i |-> 0, j |-> 0, x |-> 0]
R0 == [ok |-> TRUE, new |-> FALSE, val |-> 0, n |-> 0, seq |-> <<>>]
Rej == [R0 EXCEPT !.ok = FALSE]

InRange(o, len) ==
  CASE o.op = "Pop"   -> len > 0
    [] o.op = "Assoc" -> 0 <= o.i /\ o.i <= len
    [] o.op = "Sub"   -> 0 <= o.i /\ o.i <= o.j /\ o.j <= len
    [] o.op = "Index" -> 0 <= o.i /\ o.i < len
    [] o.op = "EIndex" -> 0 <= o.i /\ o.i < len
    [] o.op = "EAssoc" -> 0 <= o.i /\ o.i < len
    [] o.op = "ESlice" -> 0 <= o.i /\ o.i <= o.j /\ o.j <= len
    [] OTHER          -> TRUE
Creating(o) == o.op \in {"Conj", "Pop", "Assoc", "Sub", "EAssoc", "ESlice"}
Unspecified(o) == o.op \in {"EIndex", "EAssoc", "ESlice"} /\ (o.i < 0 \/ o.j < 0)

(* ------------------------------------------------ part 1: the array reference (explicit) *)
ARes(q, o) ==
  IF ~InRange(o, Len(q)) THEN Rej ELSE
  CASE o.op = "Conj"    -> [R0 EXCEPT !.new = TRUE, !.seq = Append(q, o.x)]
    [] o.op = "Pop"     -> [R0 EXCEPT !.new = TRUE, !.seq = SubSeq(q, 1, Len(q) - 1)]
    [] o.op = "Assoc"   -> [R0 EXCEPT !.new = TRUE,
                                      !.seq = IF o.i = Len(q) THEN Append(q, o.x) ELSE [q EXCEPT ![o.i + 1] = o.x]]
    [] o.op = "Sub"     -> [R0 EXCEPT !.new = TRUE, !.seq = SubSeq(q, o.i + 1, o.j)]
    [] o.op = "Index"   -> [R0 EXCEPT !.val = q[o.i + 1]]
    [] o.op = "EIndex"  -> [R0 EXCEPT !.val = q[o.i + 1]]
    [] o.op = "EAssoc"  -> [R0 EXCEPT !.new = TRUE, !.seq = [q EXCEPT ![o.i + 1] = o.x]]
    [] o.op = "ESlice"  -> [R0 EXCEPT !.new = TRUE, !.seq = SubSeq(q, o.i + 1, o.j)]
    [] o.op = "Iterate" -> [R0 EXCEPT !.seq = q]
    [] o.op = "Len"     -> [R0 EXCEPT !.n = Len(q)]

(* ------------------------------------------------------------- part 2: the same, on runs *)
Run(a, n) == [a |-> a, n |-> n]
One(x) == <<Run(x, 1)>>

RECURSIVE RLen(_)
RLen(r) == IF r = <<>> THEN 0 ELSE Head(r).n + RLen(Tail(r))

RECURSIVE RTake(_, _)       \* the first n elements
RTake(r, n) == IF n <= 0 \/ r = <<>> THEN <<>>
               ELSE IF Head(r).n <= n THEN <<Head(r)>> \o RTake(Tail(r), n - Head(r).n)
               ELSE <<Run(Head(r).a, n)>>

RECURSIVE RDrop(_, _)       \* all but the first n elements
RDrop(r, n) == IF r = <<>> THEN r
               ELSE IF Head(r).n <= 0 THEN RDrop(Tail(r), n)      \* an empty run denotes nothing
               ELSE IF n <= 0 THEN r
               ELSE IF Head(r).n <= n THEN RDrop(Tail(r), n - Head(r).n)
               ELSE <<Run(Head(r).a + n, Head(r).n - n)>> \o Tail(r)

RNth(r, i) == Head(RDrop(r, i)).a      \* element i (0-based); needs 0 <= i < RLen(r)

RECURSIVE NormAcc(_, _)
NormAcc(acc, r) ==
  IF r = <<>> THEN acc
  ELSE LET h == Head(r) m == Len(acc) IN
       IF h.n <= 0 THEN NormAcc(acc, Tail(r))
       ELSE IF m > 0 /\ acc[m].a + acc[m].n = h.a THEN NormAcc([acc EXCEPT ![m].n = @ + h.n], Tail(r))
       ELSE NormAcc(Append(acc, h), Tail(r))
Norm(r) == NormAcc(<<>>, r)

RECURSIVE Expand(_)
Expand(r) == IF r = <<>> THEN <<>> ELSE [k \in 1..Head(r).n |-> Head(r).a + k - 1] \o Expand(Tail(r))

WellFormed(r) == \A k \in 1..Len(r) : r[k].n >= 1

Res(r, o) ==
  IF ~InRange(o, RLen(r)) THEN Rej ELSE
  CASE o.op = "Conj"    -> [R0 EXCEPT !.new = TRUE, !.seq = Norm(r \o One(o.x))]
    [] o.op = "Pop"     -> [R0 EXCEPT !.new = TRUE, !.seq = Norm(RTake(r, RLen(r) - 1))]
    [] o.op = "Assoc"   -> [R0 EXCEPT !.new = TRUE, !.seq = Norm(RTake(r, o.i) \o One(o.x) \o RDrop(r, o.i + 1))]
    [] o.op = "Sub"     -> [R0 EXCEPT !.new = TRUE, !.seq = Norm(RTake(RDrop(r, o.i), o.j - o.i))]
    [] o.op = "Index"   -> [R0 EXCEPT !.val = RNth(r, o.i)]
    [] o.op = "EIndex"  -> [R0 EXCEPT !.val = RNth(r, o.i)]
    [] o.op = "EAssoc"  -> [R0 EXCEPT !.new = TRUE, !.seq = Norm(RTake(r, o.i) \o One(o.x) \o RDrop(r, o.i + 1))]
    [] o.op = "ESlice"  -> [R0 EXCEPT !.new = TRUE, !.seq = Norm(RTake(RDrop(r, o.i), o.j - o.i))]
    [] o.op = "Iterate" -> [R0 EXCEPT !.seq = Norm(r)]
    [] o.op = "Len"     -> [R0 EXCEPT !.n = RLen(r)]

ExpandRes(res) == [res EXCEPT !.seq = Expand(@)]
Refines(r, o) == ExpandRes(Res(r, o)) = ARes(Expand(r), o)

(* ------------------------------------------------------------------------ versions *)
KindOf(parent, o) == IF o.op \in {"Sub", "ESlice"} THEN "slice" ELSE parent.kind
ApplyV(vs, o) == LET res == Res(vs[o.v + 1].seq, o)
                 IN IF res.new THEN Append(vs, [seq |-> res.seq, kind |-> KindOf(vs[o.v + 1], o)]) ELSE vs

(* array laws, stated on explicit sequences (checked in MCPVector on every reachable version) *)
ArrayLaws(q, x) ==
  /\ ARes(Append(q, x), [O0 EXCEPT !.op = "Pop"]).seq = q
  /\ ARes(Append(q, x), [O0 EXCEPT !.op = "Index", !.i = Len(q)]).val = x
  /\ ARes(q, [O0 EXCEPT !.op = "Assoc", !.i = Len(q), !.x = x]) = ARes(q, [O0 EXCEPT !.op = "Conj", !.i = Len(q), !.x = x])
  /\ \A i \in 0..(Len(q) - 1) :
       LET w == ARes(q, [O0 EXCEPT !.op = "Assoc", !.i = i, !.x = x]).seq
       IN Len(w) = Len(q) /\ w[i + 1] = x /\ \A k \in 1..Len(q) : k # i + 1 => w[k] = q[k]
  /\ \A i \in 0..Len(q) : \A j \in i..Len(q) :
       LET s == ARes(q, [O0 EXCEPT !.op = "Sub", !.i = i, !.j = j]).seq
       IN /\ Len(s) = j - i /\ \A k \in 1..(j - i) : s[k] = q[i + k]
          \* a slice of a slice is a slice of the original, and cannot reach outside the first slice
          /\ \A a \in (-1)..(j - i + 1) : \A b \in (-1)..(j - i + 1) :
               LET t == ARes(s, [O0 EXCEPT !.op = "Sub", !.i = a, !.j = b])
               IN IF 0 <= a /\ a <= b /\ b <= j - i
                  THEN t = ARes(q, [O0 EXCEPT !.op = "Sub", !.i = i + a, !.j = i + b])
                  ELSE ~t.ok
=============================================================================
