------------------------------ MODULE MCPVector ------------------------------
(* Exhaustive model of PVector + generator of behaviours ("one implementation test per
   transition").  Version 0 is the vector  K+1, .., K+b  (one run) for some b in Bases (one initial
   state per base; Base, the length of version 0, never changes): b = 0 is the small-scope model
   from the empty vector; b = 31, 32, 33, 64, 1056, .. LIFTS the same model to the lengths where the
   real tree changes shape -- all indices, results and contents are still computed here.
   Index arguments are taken near both ends (and the middle) of the receiver.
   hist (hidden by the VIEW) is one path to the current state; the always-true action constraint
   EmitT prints, for every generated transition, that path + the step, the prescribed result and
   the prescribed content of every live version afterwards. *)
EXTENDS PVector, FiniteSets, TLC, Json
CONSTANTS Bases, MaxVers, MaxGrow, CVals, AVals, CheckRefine
VARIABLES vers, hist
vars == <<vers, hist>>
K == 1000

Idx(len) == {-1, 0, 1, len \div 2, len - 1, len, len + 1}
Ops(vs) ==
  UNION {    {[O0 EXCEPT !.op = "Conj", !.v = p - 1, !.x = x] : x \in CVals}
        \cup {[O0 EXCEPT !.op = "Pop", !.v = p - 1]}
        \cup {[O0 EXCEPT !.op = "Assoc", !.v = p - 1, !.i = i, !.x = x] : i \in Idx(RLen(vs[p].seq)), x \in AVals}
        \cup {[O0 EXCEPT !.op = "Sub", !.v = p - 1, !.i = i, !.j = j] : i \in Idx(RLen(vs[p].seq)), j \in Idx(RLen(vs[p].seq))}
        \cup {[O0 EXCEPT !.op = "Index", !.v = p - 1, !.i = i] : i \in Idx(RLen(vs[p].seq))}
        \cup {[O0 EXCEPT !.op = "Iterate", !.v = p - 1], [O0 EXCEPT !.op = "Len", !.v = p - 1]}
        : p \in 1..Len(vs)}
\* the Elvish-layer operations: not part of the generated behaviours, but their run form is checked
\* against the array reference together with the others (RefinesArray)
EOps(vs) ==
  UNION {    {[O0 EXCEPT !.op = "EIndex", !.v = p - 1, !.i = i] : i \in Idx(RLen(vs[p].seq))}
        \cup {[O0 EXCEPT !.op = "EAssoc", !.v = p - 1, !.i = i, !.x = x] : i \in Idx(RLen(vs[p].seq)), x \in AVals}
        \cup {[O0 EXCEPT !.op = "ESlice", !.v = p - 1, !.i = i, !.j = j] : i \in Idx(RLen(vs[p].seq)), j \in Idx(RLen(vs[p].seq))}
        : p \in 1..Len(vs)}

Base == RLen(vers[1].seq)
Init == /\ \E b \in Bases : vers = <<[seq |-> Norm(<<Run(K + 1, b)>>), kind |-> "whole"]>>
        /\ hist = <<>>
\* a state holding MaxVers versions is a leaf; contents grow at most MaxGrow beyond Base
Step(o) == /\ Len(vers) < MaxVers
           /\ RLen(Res(vers[o.v + 1].seq, o).seq) <= Base + MaxGrow
           /\ vers' = ApplyV(vers, o)
           /\ hist' = Append(hist, <<o.op, o.v, o.i, o.j, o.x, IF Res(vers[o.v + 1].seq, o).new THEN 1 ELSE 0>>)
Next == \E o \in Ops(vers) : Step(o)
Spec == Init /\ [][Next]_vars
View == vers

(* ---- properties of the design *)
Persistence == [][/\ Len(vers') >= Len(vers)
                  /\ \A k \in DOMAIN vers : vers'[k] = vers[k]]_vars
Canonical == \A k \in DOMAIN vers : WellFormed(vers[k].seq) /\ Norm(vers[k].seq) = vers[k].seq
\* every result is the array result (explicit sequences): switched off for the large bases
RefinesArray == CheckRefine => \A o \in Ops(vers) \cup EOps(vers) : Refines(vers[o.v + 1].seq, o)
Laws == CheckRefine => \A k \in DOMAIN vers : \A x \in CVals : ArrayLaws(Expand(vers[k].seq), x)

LastOp == LET h == hist'[Len(hist')] IN [O0 EXCEPT !.op = h[1], !.v = h[2], !.i = h[3], !.j = h[4], !.x = h[5]]
EmitT == PrintT(ToJson([b |-> Base, p |-> hist', r |-> Res(vers[LastOp.v + 1].seq, LastOp),
                        vers |-> [k \in DOMAIN vers' |-> vers'[k].seq],
                        kinds |-> [k \in DOMAIN vers' |-> vers'[k].kind]]))
=============================================================================
