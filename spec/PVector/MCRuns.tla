------------------------------- MODULE MCRuns -------------------------------
(* The run arithmetic of PVector checked on its own: for every run list r over a small alphabet
   (up to MaxRuns runs, each of 0..MaxN elements starting at a value in Starts) and every n,
   Take/Drop/Len/Nth/Norm mean on Expand(r) what their names say, and Norm is canonical:
   two run lists denote the same sequence iff their normal forms are equal. *)
EXTENDS PVector, TLC
CONSTANTS MaxRuns, MaxN, Starts
VARIABLES r, s
RunSet == {Run(a, n) : a \in Starts, n \in 0..MaxN}
Lists == UNION {[1..m -> RunSet] : m \in 0..MaxRuns}
Init == r \in Lists /\ s \in Lists
Next == UNCHANGED <<r, s>>
Lemmas ==
  LET q == Expand(r) IN
  /\ RLen(r) = Len(q)
  /\ Expand(Norm(r)) = q /\ WellFormed(Norm(r)) /\ Norm(Norm(r)) = Norm(r)
  /\ \A n \in (-1)..(Len(q) + 1) :
       /\ Expand(RTake(r, n)) = SubSeq(q, 1, IF n > Len(q) THEN Len(q) ELSE n)
       /\ Expand(RDrop(r, n)) = SubSeq(q, (IF n < 0 THEN 0 ELSE n) + 1, Len(q))
  /\ \A i \in 0..(Len(q) - 1) : RNth(r, i) = q[i + 1]
  /\ (Expand(s) = q) <=> (Norm(s) = Norm(r))
=============================================================================
