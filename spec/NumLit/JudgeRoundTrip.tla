--------------------------- MODULE JudgeRoundTrip ---------------------------
(* V for C05, round trip: recorded triples  x, to-string(x), num(to-string(x))  for typed numbers x
   (random float64 bit patterns including subnormals and both zeros, machine-int and big-int
   boundaries, random big rationals), judged by RoundTripOK.  One TLC state per triple. *)
EXTENDS NumLit, TLC, Json
Cases == ndJsonDeserialize("cases.ndjson")
VARIABLE k
Init == k = 0
Next == k < Len(Cases) /\ k' = k + 1
Inv == k = 0 \/ RoundTripOK(Cases[k].x, Cases[k].yok, Cases[k].y) \/ PrintT(<<"BAD", k, Cases[k].x.cls>>)
=============================================================================
