INIT Init
NEXT Next
INVARIANT Emit
