------------------------------ MODULE MCNumLit ------------------------------
(* G for C05: a generative grammar of the documented literal syntaxes.  A literal is built from a
   sign, a base prefix in either case, digit groups of several lengths with underscores between
   digits in several placements, hex digits in lower / upper / mixed case, `/`, a decimal point
   and exponents in several forms; digits come from a pseudo-random stream selected by Seed; the
   2^63 / 2^64 boundary values are spelled exactly in every base.  Every initial state is one
   literal; TLC checks that the recogniser Classify prescribes an outcome for it (the grammar and
   the recogniser agree on what is documented) and prints text + prescribed outcome. *)
EXTENDS NumLit, TLC, Json
CONSTANTS Seed, Big            \* Big = TRUE: the larger set of shapes (thorough tier)
VARIABLES ph, sign, body, lit

(* ---------------- digits ---------------- *)
Rnd(i, salt) == (((Seed % 997) * 7919) + (i * 10473) + (salt * 331) + ((i * i * 31) % 8191)) % 9973
Code(d, up)  == IF d < 10 THEN 48 + d ELSE IF up THEN 55 + d ELSE 87 + d
\* n digits of the base; first digit non-zero; cs: 0 lower, 1 upper, 2 mixed
Digits(n, base, cs, salt) ==
  [i \in 1..n |-> LET d0 == Rnd(i, salt) % base
                      d  == IF i = 1 /\ d0 = 0 THEN 1 ELSE d0
                  IN Code(d, cs = 1 \/ (cs = 2 /\ (i + salt) % 2 = 0))]
\* underscore placement: 0 none, 1 groups of three from the right, 2 between all digits, 3 after the first digit
RECURSIVE Place(_, _)
Place(ds, pat) ==
  IF pat = 0 \/ Len(ds) < 2 THEN ds
  ELSE IF pat = 3 THEN <<ds[1], US>> \o Tail(ds)
  ELSE IF pat = 2 THEN <<ds[1], US>> \o Place(Tail(ds), 2)
  ELSE IF Len(ds) <= 3 THEN ds
  ELSE Place(SubSeq(ds, 1, Len(ds) - 3), 1) \o <<US>> \o SubSeq(ds, Len(ds) - 2, Len(ds))

\* decimal spelling of a natural (BigNat limbs -> digit codes)
Limb4(x, pad) == LET all == <<48 + (x \div 1000), 48 + ((x \div 100) % 10), 48 + ((x \div 10) % 10), 48 + (x % 10)>>
                 IN IF pad THEN all
                    ELSE IF x >= 1000 THEN all ELSE IF x >= 100 THEN SubSeq(all, 2, 4) ELSE IF x >= 10 THEN SubSeq(all, 3, 4) ELSE SubSeq(all, 4, 4)
RECURSIVE DecCodes(_)
DecCodes(a) == IF Len(a) <= 1 THEN (IF a = <<>> THEN <<48>> ELSE Limb4(a[1], FALSE))
               ELSE DecCodes(SubSeq(a, 2, Len(a))) \o Limb4(a[1], TRUE)
Rep(c, n) == [i \in 1..n |-> c]

Lens(base) == IF base = 10 THEN (IF Big THEN {1, 2, 5, 9, 18, 19, 20, 25, 40} ELSE {1, 3, 9, 19, 25})
              ELSE IF base = 16 THEN (IF Big THEN {1, 2, 8, 15, 16, 17, 24} ELSE {1, 8, 16, 17})
              ELSE IF base = 8 THEN (IF Big THEN {1, 3, 21, 22, 23} ELSE {2, 22})
              ELSE (IF Big THEN {1, 4, 62, 63, 64, 65} ELSE {3, 64})
Pats == IF Big THEN {0, 1, 2, 3} ELSE {0, 1, 3}
Cases(base) == IF base = 16 THEN {0, 1, 2} ELSE {0}
Prefixes(base) == IF base = 16 THEN {<<48, 120>>, <<48, 88>>}
                  ELSE IF base = 8 THEN {<<48, 111>>, <<48, 79>>}
                  ELSE IF base = 2 THEN {<<48, 98>>, <<48, 66>>}
                  ELSE {<<>>}
Boundaries == {DecCodes(Sub(TwoTo63, <<1>>)), DecCodes(TwoTo63), DecCodes(Add(TwoTo63, <<1>>)), DecCodes(TwoTo(64)),
               DecCodes(TwoTo(31)), Place(DecCodes(TwoTo63), 1), <<48>>, <<48, 120, 48>>,
               <<48, 120, 55>> \o Rep(102, 15), <<48, 88, 56>> \o Rep(48, 15), <<48, 120, 49>> \o Rep(48, 16),
               <<48, 111, 55>> \o Rep(55, 20), <<48, 111, 49>> \o Rep(48, 21), <<48, 79, 50>> \o Rep(48, 21),
               <<48, 98, 49>> \o Rep(48, 63), <<48, 98>> \o Rep(49, 63), <<48, 66, 49>> \o Rep(48, 64)}

Salts == IF Big THEN 0..5 ELSE {0}                 \* several digit streams per shape in the thorough tier
UInts == Boundaries \cup
         UNION {UNION {{p \o Place(Digits(n, base, cs, n + pat + 40 * t), pat) : p \in Prefixes(base), n \in Lens(base), cs \in Cases(base), pat \in Pats}
                       : base \in {10, 16, 8, 2}} : t \in Salts}

\* a smaller family for the parts of rationals
RatParts == {<<49>>, <<51>>, Digits(2, 10, 0, 5), Place(Digits(7, 10, 0, 6), 1), Digits(21, 10, 0, 7),
             <<48, 120>> \o Digits(2, 16, 2, 8), <<48, 88>> \o Digits(17, 16, 1, 9), <<48, 111>> \o Digits(3, 8, 0, 10),
             <<48, 98>> \o Place(Digits(9, 2, 0, 11), 1), DecCodes(TwoTo63), DecCodes(TwoTo(64)), <<50>>}
Rats == {a \o <<SLASH>> \o b : a \in RatParts \cup {<<48>>}, b \in RatParts}

\* floats: integer part, optional fraction, optional exponent; at least one of the latter two
IParts == {<<48>>, <<55>>} \cup UNION {{Digits(3, 10, 0, 12 + 40 * t), Place(Digits(7, 10, 0, 13 + 40 * t), 1), Digits(17, 10, 0, 14 + 40 * t), Digits(25, 10, 0, 15 + 40 * t)} : t \in Salts}
FParts == {<<>>, <<48>>, <<53>>, Rep(48, 3) \o <<49>>} \cup UNION {{Digits(6, 10, 0, 16 + 40 * t), Place(Digits(6, 10, 0, 17 + 40 * t), 3), Digits(20, 10, 0, 18 + 40 * t)} : t \in (IF Big THEN 0..2 ELSE {0})}
Exps   == {<<>>, <<101, 53>>, <<69, 43, 49, 48>>, <<101, 45, 55>>, <<69, 48, 53>>, <<101, 51, 48, 56>>, <<101, 45, 51, 50, 52>>,
           <<69, 45, 51, 51, 48>>, <<101, 50, 57, 50>>, <<101, 43, 49, US, 48>>, <<101, 51, 49, 48>>, <<101, 45, 52, 48, 49>>}
Floats == {ip \o (IF fp = <<>> THEN <<>> ELSE <<DOT>> \o fp) \o ex : ip \in IParts, fp \in FParts, ex \in Exps} \ IParts
Specials == {<<105, 110, 102>>, <<73, 110, 102>>, <<73, 78, 70>>, <<105, 78, 102>>, <<110, 97, 110>>, <<78, 97, 78>>, <<78, 65, 78>>, <<110, 65, 110>>}

Signs == {<<>>, <<PLUS>>, <<MINUS>>}
Init == /\ ph = 0 /\ sign \in Signs /\ body \in {"int", "rat", "float", "special"} /\ lit = <<>>
Next == /\ ph = 0 /\ ph' = 1 /\ UNCHANGED <<sign, body>>
        /\ lit' \in {sign \o b : b \in (IF body = "int" THEN UInts ELSE IF body = "rat" THEN Rats
                                       ELSE IF body = "float" THEN Floats ELSE Specials)}

Cls == Classify(lit)
\* the grammar produces documented literals only: the recogniser must prescribe an outcome for each
\* (floats may leave the model's range; NaN carries no sign)
Documented ==
  ph = 1 =>
    CASE body = "int" -> Cls.k = "exact" /\ Cls.r.cls \in {"int", "bigint"}
      [] body = "rat" -> Cls.k = "exact"
      [] body = "float" -> Cls.k = "float" \/ (Cls.k = "unspec" /\ Cls.why \in {"overflow", "exponent"})
      [] body = "special" -> Cls.k \in {"inf", "nan"} \/ (Cls.k = "unspec" /\ sign # <<>>)
\* decimal integers of at most nine digits: the value agrees with native arithmetic
SmallDecimal ==
  (ph = 1 /\ body = "int" /\ NDigits(lit) <= 9 /\ \A i \in 1..Len(lit) : IsDig(lit[i]) \/ lit[i] = US) =>
     LET f[i \in 0..Len(lit)] == IF i = 0 THEN 0 ELSE IF lit[i] = US THEN f[i - 1] ELSE f[i - 1] * 10 + (lit[i] - 48)
     IN Cls.r.n = ZFromInt(f[Len(lit)]) /\ Cls.r.d = Z1
Emit == ph = 1 => PrintT(ToJson([text |-> lit, cls |-> Cls]))
=============================================================================
