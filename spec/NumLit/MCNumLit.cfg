CONSTANT Seed = 1
CONSTANT Big = FALSE
INIT Init
NEXT Next
INVARIANT Documented
INVARIANT SmallDecimal
INVARIANT Emit
