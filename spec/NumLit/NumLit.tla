------------------------------- MODULE NumLit -------------------------------
(* C05 -- number literals and the to-string/num round trip, from "Number" in
   website/ref/language.md and the `num` entry of builtin_fn_num.d.elv.

   A text is a sequence of character codes (TLC cannot index strings).  Classify(s) is the
   documented reading of s:

     [k |-> "exact", r]        an integer or rational literal; r = [cls, n, d] is its value in
                               canonical form (BigNat; class rule of Arith.tla)
     [k |-> "float", neg, m, sc]   a decimal / scientific float literal with the exact decimal value
                               (-1)^neg * m * 10^sc; `num` must yield the double nearest to it
                               (NearestDouble: the one primitive left to the executor); a zero
                               value keeps the sign of the literal
     [k |-> "inf", neg]  [k |-> "nan"]     Inf, +Inf, -Inf, NaN in any letter case
     [k |-> "fail"]            MustFail: not a number in any syntax -- only the explicit patterns of
                               MustFail(s) below (empty, characters or letters no number syntax
                               uses, bare sign, doubled sign, bare base prefix, dangling exponent,
                               misplaced or repeated `/`)
     [k |-> "unspec", why]     Unspecified -- the documentation does not pin the text down and
                               both outcomes are accepted:
        leading-zero   decimal integers with leading zeros ("parsed as octal ... subject to change")
        underscore     underscores not between two digits (0x_1, 1__0, _1, 1_)
        ratform        signed or zero denominator, non-integer parts of a rational
        floatform      .5   5.   leading zeros before the point
        overflow       decimal value at or beyond the rounding boundary of the largest double
        exponent       exponents beyond +-ExpMax (OutOfModel: cost of 10^e in TLC)
        other          anything else (hex floats, Infinity, signed NaN, ...)

   RoundTripOK(x, y): y = num(to-string(x)) is the same number with the same exactness: same
   class; exact => same value; float => identical bit pattern, or both NaN. *)
EXTENDS ArithRings

ExpMax == 400

(* ---------------- characters ---------------- *)
Lower(c)    == IF c \in 65..90 THEN c + 32 ELSE c
LowerSeq(s) == [i \in 1..Len(s) |-> Lower(s[i])]
IsDig(c)    == c \in 48..57
DigVal(c)   == IF c \in 48..57 THEN c - 48 ELSE IF c \in 97..102 THEN c - 87 ELSE 99     \* lower-case input
US    == 95          \* _
PLUS  == 43
MINUS == 45
SLASH == 47
DOT   == 46
CE    == 101         \* e
C0    == 48
Has(s, c)     == \E i \in 1..Len(s) : s[i] = c
Count(s, c)   == LET f[i \in 0..Len(s)] == IF i = 0 THEN 0 ELSE f[i - 1] + (IF s[i] = c THEN 1 ELSE 0) IN f[Len(s)]
IndexOf(s, c) == CHOOSE i \in 1..Len(s) : s[i] = c /\ \A j \in 1..(i - 1) : s[j] # c
From(s, i)    == SubSeq(s, i, Len(s))
Word(s, w)    == s = w
INF_  == <<105, 110, 102>>
NAN_  == <<110, 97, 110>>

(* ---------------- digit strings ---------------- *)
\* all characters are digits of the base or underscores, at least one digit
DigitsOrUS(b, base) == /\ \A i \in 1..Len(b) : b[i] = US \/ DigVal(b[i]) < base
                       /\ \E i \in 1..Len(b) : b[i] # US
\* every underscore stands between two digits
USBetween(b) == \A i \in 1..Len(b) : b[i] = US => (i > 1 /\ i < Len(b) /\ b[i - 1] # US /\ b[i + 1] # US)
\* value of the digits (underscores skipped)
NatOf(b, base) ==
  LET f[i \in 0..Len(b)] == IF i = 0 THEN <<>>
                            ELSE IF b[i] = US THEN f[i - 1]
                            ELSE Add(MulSmall(f[i - 1], base), FromNat(DigVal(b[i])))
  IN f[Len(b)]
NDigits(b) == Len(b) - Count(b, US)

No      == [st |-> "no", v |-> <<>>]
Maybe   == [st |-> "unspec", v |-> <<>>]
Ok(v)   == [st |-> "ok", v |-> v]

\* unsigned integer text (lower case): decimal, 0x, 0o, 0b
UInt(l) ==
  IF Len(l) >= 2 /\ l[1] = C0 /\ l[2] \in {120, 111, 98}
  THEN LET base == IF l[2] = 120 THEN 16 ELSE IF l[2] = 111 THEN 8 ELSE 2
           body == From(l, 3)
       IN IF body = <<>> \/ ~DigitsOrUS(body, base) THEN No
          ELSE IF ~USBetween(body) THEN Maybe
          ELSE Ok(NatOf(body, base))
  ELSE IF l = <<>> \/ ~DigitsOrUS(l, 10) THEN No
  ELSE IF ~USBetween(l) THEN Maybe
  ELSE IF l[1] = C0 /\ Len(l) > 1 THEN Maybe                       \* leading zeros
  ELSE Ok(NatOf(l, 10))

(* ---------------- results ---------------- *)
Fail         == [k |-> "fail"]
Unspec(why)  == [k |-> "unspec", why |-> why]
ExactR(q)    == [k |-> "exact", r |-> BG!Res(q)]
FloatR(neg, m, sc) == [k |-> "float", neg |-> neg, m |-> m, sc |-> sc]

RECURSIVE TenTo(_)
TenTo(j) == IF j = 0 THEN <<1>> ELSE IF j < 4 THEN MulSmall(TenTo(j - 1), 10) ELSE Shift(TenTo(j - 4))

\* the rounding boundary above the largest double: 2^1024 - 2^970
Boundary == Sub(TwoTo(1024), TwoTo(970))
\* is m * 10^sc at or beyond the boundary?  (m # 0)
Overflows(m, sc) ==
  LET mag == (4 * (Len(m) - 1)) + sc                 \* 10^mag <= value < 10^(mag+4)
  IN IF mag + 4 <= 308 THEN FALSE
     ELSE IF mag >= 309 THEN TRUE
     ELSE IF sc >= 0 THEN Cmp(Mul(m, TenTo(sc)), Boundary) >= 0
     ELSE Cmp(m, Mul(Boundary, TenTo(-sc))) >= 0

\* decimal float text (lower case, unsigned): int [. frac] [e [sign] digits] with a point or an exponent
Float(neg, l) ==
  LET hasE  == Has(l, CE)
      ePos  == IF hasE THEN IndexOf(l, CE) ELSE Len(l) + 1
      mant  == SubSeq(l, 1, ePos - 1)
      ex    == From(l, ePos + 1)
      exSg  == IF ex # <<>> /\ ex[1] \in {PLUS, MINUS} THEN ex[1] ELSE 0
      exD   == IF exSg # 0 THEN From(ex, 2) ELSE ex
      hasP  == Has(mant, DOT)
      pPos  == IF hasP THEN IndexOf(mant, DOT) ELSE Len(mant) + 1
      ip    == SubSeq(mant, 1, pPos - 1)
      fp    == From(mant, pPos + 1)
      partOK(p) == p = <<>> \/ DigitsOrUS(p, 10)
  IN IF ~(hasE \/ hasP) \/ Count(mant, DOT) > 1 THEN Unspec("other")
     ELSE IF ~partOK(ip) \/ ~partOK(fp) \/ (ip = <<>> /\ fp = <<>>) THEN Unspec("other")
     ELSE IF hasE /\ (exD = <<>> \/ ~DigitsOrUS(exD, 10)) THEN Unspec("other")
     ELSE IF ip = <<>> \/ (hasP /\ fp = <<>>) THEN Unspec("floatform")
     ELSE IF ~USBetween(ip) \/ ~USBetween(fp) \/ ~USBetween(exD) THEN Unspec("underscore")
     ELSE IF ip[1] = C0 /\ Len(ip) > 1 THEN Unspec("floatform")
     ELSE IF NDigits(exD) > 3 THEN Unspec("exponent")
     ELSE LET e  == IF hasE THEN ToNat(NatOf(exD, 10)) * (IF exSg = MINUS THEN -1 ELSE 1) ELSE 0
              m  == NatOf(ip \o fp, 10)
              sc == e - NDigits(fp)
          IN IF e > ExpMax \/ e < -ExpMax THEN Unspec("exponent")
             ELSE IF m = <<>> THEN FloatR(neg, m, 0)
             ELSE IF Overflows(m, sc) THEN Unspec("overflow")
             ELSE FloatR(neg, m, sc)

Allowed(c)  == c \in 48..57 \/ c \in 97..122 \/ c \in {US, PLUS, MINUS, SLASH, DOT}
NoNumLetter == {103, 104, 106, 107, 108, 109, 113, 114, 115, 117, 118, 119, 122}    \* g h j k l m q r s u v w z

\* the explicit non-numbers (lower case)
MustFail(l) ==
  \/ l = <<>>
  \/ \E i \in 1..Len(l) : ~Allowed(l[i]) \/ l[i] \in NoNumLetter
  \/ LET r == IF l[1] \in {PLUS, MINUS} THEN From(l, 2) ELSE l
     IN \/ r = <<>>
        \/ r[1] \in {PLUS, MINUS}
        \/ r \in {<<C0, 120>>, <<C0, 111>>, <<C0, 98>>}
        \/ Count(r, SLASH) > 1 \/ r[1] = SLASH \/ r[Len(r)] = SLASH
        \/ (~Has(r, 120) /\ ~Has(r, SLASH) /\ IsDig(r[1]) /\ r[Len(r)] \in {CE, PLUS, MINUS})

Classify(s) ==
  LET l == LowerSeq(s) IN
  IF MustFail(l) THEN Fail
  ELSE
    LET neg == l[1] = MINUS
        r   == IF l[1] \in {PLUS, MINUS} THEN From(l, 2) ELSE l
        sg  == IF neg THEN -1 ELSE 1
    IN IF Word(r, INF_) THEN [k |-> "inf", neg |-> neg]
       ELSE IF Word(r, NAN_) THEN (IF l[1] \in {PLUS, MINUS} THEN Unspec("other") ELSE [k |-> "nan"])
       ELSE IF Has(r, SLASH) THEN
         LET p  == IndexOf(r, SLASH)
             a  == UInt(SubSeq(r, 1, p - 1))
             b  == UInt(From(r, p + 1))
         IN IF a.st = "no" \/ b.st = "no" THEN Unspec("ratform")
            ELSE IF a.st = "unspec" \/ b.st = "unspec" THEN Unspec("underscore")
            ELSE IF b.v = <<>> THEN Unspec("ratform")
            ELSE ExactR(BG!Q(Z(sg, a.v), Z(1, b.v)))
       ELSE
         LET u == UInt(r)
         IN IF u.st = "ok" THEN ExactR(BG!QInt(Z(sg, u.v)))
            ELSE IF u.st = "unspec" THEN
              (IF r[1] = C0 /\ Len(r) > 1 /\ r[2] \notin {120, 111, 98} /\ USBetween(r) THEN Unspec("leading-zero") ELSE Unspec("underscore"))
            ELSE IF Len(r) >= 2 /\ r[1] = C0 /\ r[2] \in {120, 111, 98} THEN Unspec("other")   \* 0x1p3, 0b12, ...
            ELSE Float(neg, r)

(* ---------------- round trip ---------------- *)
\* x, y: [cls, n, d, bits]  (bits: 16 hex digits for floats, << >> otherwise); yok: num accepted the text
IsNaNBits(b) == (b[1] % 8) * 256 + b[2] * 16 + b[3] = 2047 /\ \E i \in 4..16 : b[i] # 0
RoundTripOK(x, yok, y) ==
  /\ yok
  /\ x.cls = y.cls
  /\ IF x.cls = "float" THEN x.bits = y.bits \/ (IsNaNBits(x.bits) /\ IsNaNBits(y.bits))
     ELSE x.n = y.n /\ x.d = y.d
=============================================================================
