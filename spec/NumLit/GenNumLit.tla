----------------------------- MODULE GenNumLit -----------------------------
(* V for C05, literals: texts recorded by the executor (random literals in all documented syntaxes
   with random case and underscore placement, their mutations, and non-numbers) -> the reading
   Classify prescribes for each, printed as <<"OUT", k, json>>.  One TLC state per text. *)
EXTENDS NumLit, TLC, Json
Cases == ndJsonDeserialize("cases.ndjson")
VARIABLE k
Init == k = 0
Next == k < Len(Cases) /\ k' = k + 1
Emit == k = 0 \/ PrintT(<<"OUT", k, ToJson(Classify(Cases[k].text))>>)
=============================================================================
