----------------------------- MODULE JudgePorts -----------------------------
(* C42, V: one recorded case per evaluated form
     [present, piped, head, redirs, ops, got |-> [exc, r, d, files, caps, closed], panic, fd]
   head = "vw:do" (body = ops, per-operation results logged) or a real builtin ("print": one byte to
   port 1, "put": one value to port 1; only the exception, the files and the captured output are seen).
   The walker computes the outcomes Ports accepts for the form and compares; a case that only the
   named early-close deviation explains is reported with class "shared", a fault at an operation
   whose result is Unspecified (value output to an input-only channel) with class "eofpanic". *)
EXTENDS Ports, TLC, Json
Cases == ndJsonDeserialize("cases.ndjson")
VARIABLE k
Init == k = 0
Next == k < Len(Cases) /\ k' = k + 1

Var(e, m) == [early |-> e, m1raise |-> m]
Model(c, e, m) == IF c.head = "vw:do" THEN Run(c.present, c.piped, c.redirs, c.ops, Var(e, m))
                  ELSE RunBuiltin(c.present, c.piped, c.redirs, c.ops[1], Var(e, m))

(* tol: accept a fault where the specification leaves the result open *)
LogMatch(g, ob, tol) ==
  /\ Len(g.r) = Len(ob.log)
  /\ \A i \in 1..Len(g.r) :
       /\ \/ g.r[i] = ob.log[i].r
          \/ ob.log[i].r = "skip"                                   \* Unspecified: any result
          \/ (ob.log[i].a # "" /\ g.r[i] = ob.log[i].a)
          \/ (tol /\ ob.log[i].a # "" /\ g.r[i] = "panic")
       /\ g.d[i] = ob.log[i].d
Same(c, ob, tol) ==
  LET g == c.got IN
  /\ (c.panic \/ c.fd = 0)          \* a fault skips the cleanup: the fault itself is what is reported
  /\ g.files = ob.files /\ g.caps = ob.caps
  /\ IF c.head = "vw:do"
     THEN ~c.panic /\ g.exc = ob.exc /\ LogMatch(g, ob, tol) /\ g.closed = ob.closed
     ELSE IF ob.log # <<>> /\ ob.log[Len(ob.log)].r = "skip" THEN TRUE                  \* the builtin's write is Unspecified
     ELSE IF c.panic THEN tol /\ ob.log # <<>> /\ ob.log[Len(ob.log)].a # ""      \* the builtin's own write faulted
     ELSE \/ (g.exc = "") = (ob.exc = "")
          \/ (ob.log # <<>> /\ ob.log[Len(ob.log)].a # "" /\ g.exc = "")             \* dropped instead of raised
Accepted(c, tol) == Same(c, Model(c, FALSE, FALSE), tol) \/ Same(c, Model(c, FALSE, TRUE), tol)
Deviation(c) == Same(c, Model(c, TRUE, FALSE), TRUE) \/ Same(c, Model(c, TRUE, TRUE), TRUE)
CaseOK(c) == Accepted(c, FALSE)
Why(c) == IF Accepted(c, TRUE) THEN "eofpanic" ELSE IF Deviation(c) THEN "shared" ELSE "other"
Inv == k = 0 \/ CaseOK(Cases[k]) \/ PrintT(<<"BAD", k, Why(Cases[k]), ToJson(Compact(Model(Cases[k], FALSE, FALSE)))>>)
=============================================================================
