------------------------------ MODULE MCPorts ------------------------------
(* C42, M + G.  State machine shaped like formOp.exec: up to MaxR redirections are applied one by
   one (the history `redirs` is part of the state, so every sequence in every order is one state),
   then up to MaxO free body operations in any order (M only).  st follows the specification,
   dv the code-shaped early-close variant.  Every state whose body has not started is emitted as
   one G behaviour per probe schedule with the outcomes the specification accepts (acc) and the
   outcomes of the named deviation that differ from them (dev). *)
EXTENDS Ports, TLC, Json
CONSTANTS MaxR, MaxO, NegFds, DstHi, NPresent, Piped, Emitting,
          Mini, FdA, FdB     \* Mini = TRUE: the small alphabet over the two fds FdA, FdB (deeper sequences)
VARIABLES present, redirs, ops
vars == <<present, redirs, ops>>

Fds == (-NegFds)..DstHi
R0 == [t |-> "", dst |-> 0, mode |-> "", path |-> 0, src |-> 0]
FullAlphabet ==
       {[R0 EXCEPT !.t = "file", !.dst = d, !.mode = m, !.path = p] : d \in Fds, m \in {"r", "w", "a", "rw"}, p \in 1..2}
  \cup {[R0 EXCEPT !.t = "dup", !.dst = d, !.src = x] : d \in Fds, x \in Fds}
  \cup {[R0 EXCEPT !.t = "close", !.dst = d] : d \in Fds}
(* a port the form owns (a file it opened, or the pipe it reads from) is duplicated, and the original
   slot is redirected from the duplicate, redirected again or closed: every order over two fds *)
MiniFds == {FdA, FdB}
MiniAlphabet ==
       {[R0 EXCEPT !.t = "file", !.dst = d, !.mode = m, !.path = 1] : d \in MiniFds, m \in {"r", "w"}}
  \cup {[R0 EXCEPT !.t = "dup", !.dst = d, !.src = x] : d \in MiniFds, x \in MiniFds}
  \cup {[R0 EXCEPT !.t = "close", !.dst = d] : d \in MiniFds}
Alphabet == IF Mini THEN MiniAlphabet ELSE FullAlphabet
BodyOps == {[t |-> k, fd |-> f, n |-> 120 + f] : k \in {"b", "v", "r"}, f \in 0..4}

Early == [early |-> TRUE, m1raise |-> FALSE]

(* the form state is a function of the history (kept out of the TLC state to keep it small):
   st follows the specification, dv the early-close variant *)
st == Ops(Redirs(InitForm(present, Piped), redirs, Spec0), ops)
dv == Ops(Redirs(InitForm(present, Piped), redirs, Early), ops)

PresentConfigs == << <<TRUE, FALSE>>, <<TRUE, TRUE>>, <<FALSE, FALSE>> >>
Init == /\ present \in {PresentConfigs[i] : i \in 1..NPresent}
        /\ redirs = <<>> /\ ops = <<>>
Redir(r) == /\ ops = <<>> /\ Len(redirs) < MaxR /\ st.exc = ""
            /\ redirs' = Append(redirs, r)          \* st' = DoRedir(st, r, Spec0), dv' = DoRedir(dv, r, Early)
            /\ UNCHANGED <<present, ops>>
Op(o) == /\ Len(ops) < MaxO /\ st.exc = ""
         /\ ops' = Append(ops, o)                  \* st' = DoOp(st, o), dv' = DoOp(dv, o)
         /\ UNCHANGED <<present, redirs>>
Next == (\E r \in Alphabet : Redir(r)) \/ (\E o \in BodyOps : Op(o))
Spec == Init /\ [][Next]_vars

(* ---- probe schedules: every port 0..5 is written, read and polled *)
Seq6(F(_)) == [i \in 1..6 |-> F(i - 1)]
Rev6(F(_)) == [i \in 1..6 |-> F(6 - i)]
B(f) == [t |-> "b", fd |-> f, n |-> 97 + f]
B2(f) == [t |-> "b", fd |-> f, n |-> 107 + f]
V(f) == [t |-> "v", fd |-> f, n |-> 48 + f]
Rd(f) == [t |-> "r", fd |-> f, n |-> 0]
Rv(f) == [t |-> "rv", fd |-> f, n |-> 0]
ProbeA == Seq6(B) \o Seq6(V) \o Seq6(Rd) \o Seq6(B2) \o Seq6(Rv)
ProbeB == Rev6(Rd) \o Rev6(V) \o Rev6(B) \o Seq6(Rd) \o Rev6(B2)
Probes == <<ProbeA, ProbeB>>

(* ---- properties *)
TypeOK == OwnedOK(st) /\ OwnedDistinct(st) /\ OfdsOK(st) /\ OwnedOK(dv) /\ OwnedDistinct(dv)
NoLeakInCode == NoLeak(dv)
ClosedAtEnd == AllClosedAtEnd(st) /\ AllClosedAtEnd(dv)
SameControl == st.shared \/ (st.exc = dv.exc /\ st.ports = dv.ports /\ st.owned = dv.owned /\ st.files = dv.files)
(* the deviation is invisible unless a shared description was displaced *)
EarlyAgrees == st.shared \/ Observe(FormEnd(st)) = Observe(FormEnd(dv))
EarlyAgreesProbed == (ops = <<>> /\ ~st.shared) => \A k \in 1..2 : Observe(FormEnd(Ops(st, Probes[k]))) = Observe(FormEnd(Ops(dv, Probes[k])))
(* a failed redirection leaves the body unrun and changes nothing but what the earlier ones did *)
RaiseStops == st.exc = "redir" => st.log = <<>>

(* ---- G: behaviours with prescribed outcomes.  acc = outcomes the specification accepts (two when a
   source -1 was met), dev = outcomes of the named early-close deviation that differ from them. *)
Var(e, m) == [early |-> e, m1raise |-> m]
Dedup(q) == IF Len(q) = 2 /\ q[1] = q[2] THEN <<q[1]>> ELSE q
Beh(k) ==
  LET R(e, m) == Compact(Run(present, Piped, redirs, Probes[k], Var(e, m)))
      acc == IF st.m1 THEN Dedup(<<R(FALSE, FALSE), R(FALSE, TRUE)>>) ELSE <<R(FALSE, FALSE)>>
      dev == IF ~st.shared THEN <<>>
             ELSE SelectSeq(IF st.m1 THEN Dedup(<<R(TRUE, FALSE), R(TRUE, TRUE)>>) ELSE <<R(TRUE, FALSE)>>,
                            LAMBDA x : \A j \in 1..Len(acc) : x # acc[j])
  IN [present |-> present, piped |-> Piped, redirs |-> redirs, probe |-> k, acc |-> acc, dev |-> dev]
Emit == (Emitting /\ ops = <<>>) => \A k \in 1..Len(Probes) : PrintT(ToJson(Beh(k)))
ASSUME Emitting => PrintT(ToJson([probes |-> Probes]))
=============================================================================
