---------------------------- MODULE MCPortsRes ----------------------------
(* C40, M + G.  Small-step execution of one program shape (chosen in Init from Shapes) with every
   interleaving of the forms of a pipeline and an interruption at any step.
   Actions (one per step of the code):
     PipelineStart(p)   pipelineOp.exec: Canceled() check (interrupted: raises, creates nothing), then
                        OpenPipe for every adjacent pair and StartStage for every form but the last
     Redir(f)           redirOp.exec: OpenRedirFile (a displaced owned pipe end or file is closed), or raises
     Body(f)            ok | fail | sleep | IterateInputsBegin | CaptureBegin
     IterEnd(f)         IterateInputs returns: its input reached EOF (the producer closed its end)
     CaptureEnd(f)      the captured pipeline is done: capture pipe closed, readers joined
     FormExit(f)        FormEnd: form-owned ports closed, stage goroutine exits  (StageExit normal | exception)
     PipelineWait(p)    wg.Wait returned: the pipeline is done, raising if any form raised
     EvalReturn         the chunk's pipeline is done
     Interrupt          the evaluation's context is cancelled
     PipelineStartFail(p, i)  OpenPipe fails (PipeFail = TRUE): see below *)
EXTENDS Ports, TLC, Json
CONSTANTS MaxForms, Level, PipeFail, Emitting
VARIABLES prog, pst, pexc, fst, open, intr, ret, pfail
vars == <<prog, pst, pexc, fst, open, intr, ret, pfail>>

(* ---- shapes *)
B(k) == [k |-> k, sub |-> <<>>]
F(rs, b) == [redirs |-> rs, body |-> b]
RedirKinds == {"fileout", "filein", "filefail", "dupok", "dupbad", "close"}
RedirLists0 == {<<>>, <<"fileout">>, <<"filein", "filefail">>}
RedirLists1 == RedirLists0 \cup {<<"filein">>, <<"filefail">>, <<"dupbad">>, <<"dupok">>, <<"close">>, <<"fileout", "filefail">>,
                <<"fileout", "dupbad">>, <<"filein", "fileout">>, <<"fileout", "fileout">>, <<"close", "fileout">>}
RedirLists2 == {<<>>} \cup {<<a>> : a \in RedirKinds} \cup {<<a, b>> : a, b \in RedirKinds}       \* every list of <= 2 redirections
Leaf == {B("ok"), B("fail"), B("consume"), B("sleep")}
Leaf3 == {B("ok"), B("fail"), B("consume")}
Fs(RL, BS) == {F(rs, b) : rs \in RL, b \in BS}
SeqsOf(S, n) == [1..n -> S]
Cap(p) == [k |-> "cap", sub |-> <<p>>]
(* captured pipelines: plain forms, pairs, or a capture again (nesting 2) *)
Inner0 == SeqsOf(Fs(RedirLists0, Leaf), 1)
          \cup (IF Level >= 2 THEN SeqsOf(Fs(RedirLists0, Leaf), 2)
               ELSE {<<F(<<>>, B("ok")), F(<<>>, B("consume"))>>, <<F(<<>>, B("fail")), F(<<>>, B("ok"))>>,
                     <<F(<<>>, B("ok")), F(<<>>, B("fail"))>>, <<F(<<"fileout">>, B("ok")), F(<<>>, B("consume"))>>})
Inner1 == {<<F(rs, Cap(q))>> : rs \in {<<>>, <<"fileout">>}, q \in SeqsOf(Fs({<<>>}, Leaf), 1) \cup {<<F(<<"fileout">>, B("ok")), F(<<>>, B("consume"))>>}}
CapForms == {F(rs, Cap(q)) : rs \in (IF Level >= 2 THEN {<<>>, <<"fileout">>, <<"close">>} ELSE {<<>>, <<"fileout">>}), q \in Inner0 \cup Inner1}
(* forms with three redirections in which an owned port (file or pipe end) is duplicated and the
   original slot is redirected from the duplicate or redirected again: all orders *)
DupKinds == {"fileout", "dupok", "dupback", "filein", "dupin", "dupinback"}
DupForms == {F(<<a, b, c>>, B("ok")) : a, b, c \in DupKinds}
DupShapes == {<<f>> : f \in DupForms} \cup {<<F(<<>>, B("ok")), f>> : f \in DupForms} \cup {<<f, F(<<>>, B("consume"))>> : f \in DupForms}
Shapes ==
       DupShapes \cup
       SeqsOf(Fs(IF Level >= 2 THEN RedirLists2 ELSE RedirLists1, Leaf), 1)                              \* one form, <= 2 redirections
  \cup (IF MaxForms >= 2 THEN SeqsOf(Fs(IF Level >= 2 THEN RedirLists0 \cup {<<"dupbad">>, <<"filein">>, <<"fileout", "filefail">>, <<"fileout", "fileout">>}
                                                       ELSE RedirLists0 \cup {<<"dupbad">>}, Leaf), 2) ELSE {})
  \cup (IF MaxForms >= 3 THEN SeqsOf(Fs(IF Level >= 2 THEN RedirLists0 ELSE {<<>>}, Leaf3), 3) ELSE {})   \* a failing stage at each position
  \cup {<<f>> : f \in CapForms}
  \cup {<<F(<<>>, B("ok")), f>> : f \in CapForms}
  \cup {<<f, F(<<>>, B("consume"))>> : f \in CapForms}

(* ---- machine *)
AllP == PIds(prog, <<>>)
AllF == FIdsOf(prog, AllP)
Res(k, id) == [k |-> k, id |-> id, slot |-> "", n |-> 0]
FileRes(id, slot, n) == [k |-> "file", id |-> id, slot |-> slot, n |-> n]
Merge(id, n) == [k |-> "merge", id |-> id, slot |-> "", n |-> n]
Pid(f) == SubSeq(f, 1, Len(f) - 1)
Idx(f) == f[Len(f)]
NForms(pid) == Len(PipeAt(prog, pid))

(* form state: pc, k = next redirection, exc; d2: slot 2 holds the same port as slot 1 (after 2>&1 or >&2),
   d3: slot 3 holds the same port as slot 0 (after 3<&0 or <&3);
   s1 / s0: what slot 1 / slot 0 holds: 0 = the port the pipeline gave the form (pipe end, or the caller's),
   n > 0 = the file opened by the form's n-th redirection, -1 = a port taken from slot 2 / slot 3 *)
FS(pc) == [pc |-> pc, k |-> 1, exc |-> FALSE, d2 |-> FALSE, d3 |-> FALSE, s1 |-> 0, s0 |-> 0]

Init == /\ prog \in Shapes
        /\ pst = [p \in PIds(prog, <<>>) |-> IF p = <<>> THEN "ready" ELSE "idle"]
        /\ pexc = [p \in PIds(prog, <<>>) |-> FALSE]
        /\ fst = [f \in FIdsOf(prog, PIds(prog, <<>>)) |-> FS("idle")]
        /\ open = {} /\ intr = FALSE /\ ret = FALSE /\ pfail = FALSE

PipelineStart(p) ==
  /\ pst[p] = "ready"
  /\ IF intr
     THEN /\ pst' = [pst EXCEPT ![p] = "done"] /\ pexc' = [pexc EXCEPT ![p] = TRUE]
          /\ UNCHANGED <<fst, open>>
     ELSE /\ pst' = [pst EXCEPT ![p] = "running"]
          /\ fst' = [f \in DOMAIN fst |-> IF Pid(f) = p THEN FS("redir") ELSE fst[f]]
          /\ open' = open \cup UNION {{Res("pw", p \o <<i>>), Res("pr", p \o <<i + 1>>), Res("stage", p \o <<i>>)} : i \in 1..(NForms(p) - 1)}
          /\ UNCHANGED pexc
  /\ UNCHANGED <<prog, intr, ret, pfail>>

(* OpenPipe fails for the pipe after form i (descriptor table full): forms 1..i-1 are already running
   with their pipes; the specification has the pipeline release the read end meant for form i, never
   start forms i.., wait for the started ones and raise. (The code returns at once and forgets that
   read end: checked on the real code by the "pipefail" variant.) *)
PipelineStartFail(p, i) ==
  /\ PipeFail /\ ~pfail /\ ~intr /\ pst[p] = "ready" /\ i \in 1..(NForms(p) - 1)
  /\ pst' = [pst EXCEPT ![p] = "running"] /\ pexc' = [pexc EXCEPT ![p] = TRUE] /\ pfail' = TRUE
  /\ fst' = [f \in DOMAIN fst |-> IF Pid(f) # p THEN fst[f]
                                 ELSE IF Idx(f) < i THEN FS("redir")
                                 ELSE FS("end")]
  /\ open' = open \cup UNION {{Res("pw", p \o <<j>>), Res("stage", p \o <<j>>)} : j \in 1..(i - 1)}
                  \cup {Res("pr", p \o <<j + 1>>) : j \in 1..(i - 2)}
  /\ UNCHANGED <<prog, intr, ret>>

(* the resource a slot holds for the form: the pipe end, a file, or nothing of the form's *)
Held(f, slot, s) == IF s = 0 THEN {Res(IF slot = "out" THEN "pw" ELSE "pr", f)}
                    ELSE IF s > 0 THEN {FileRes(f, slot, s)} ELSE {}

Redir(f) ==
  /\ fst[f].pc = "redir"
  /\ LET rs == FormAt(prog, f).redirs
         k  == fst[f].k
     IN IF k > Len(rs) THEN /\ fst' = [fst EXCEPT ![f].pc = "body"] /\ UNCHANGED open
        ELSE CASE RaisesAt(rs, k) -> /\ fst' = [fst EXCEPT ![f].pc = "closing", ![f].exc = TRUE] /\ UNCHANGED open
               \* a displaced port that the form owns is released at once unless another slot still holds it
               \* (then it lives until FormExit)
               [] rs[k] = "fileout" -> /\ open' = (IF fst[f].d2 THEN open ELSE open \ Held(f, "out", fst[f].s1)) \cup {FileRes(f, "out", k)}
                                       /\ fst' = [fst EXCEPT ![f].k = k + 1, ![f].d2 = FALSE, ![f].s1 = k]
               [] rs[k] = "filein"  -> /\ open' = (IF fst[f].d3 THEN open ELSE open \ Held(f, "in", fst[f].s0)) \cup {FileRes(f, "in", k)}
                                       /\ fst' = [fst EXCEPT ![f].k = k + 1, ![f].d3 = FALSE, ![f].s0 = k]
               [] rs[k] = "dupok"   -> /\ fst' = [fst EXCEPT ![f].k = k + 1, ![f].d2 = TRUE] /\ UNCHANGED open
               [] rs[k] = "dupin"   -> /\ fst' = [fst EXCEPT ![f].k = k + 1, ![f].d3 = TRUE] /\ UNCHANGED open
               [] rs[k] = "dupback" -> /\ open' = IF fst[f].d2 THEN open ELSE open \ Held(f, "out", fst[f].s1)   \* from its own duplicate: nothing changes
                                       /\ fst' = [fst EXCEPT ![f].k = k + 1, ![f].d2 = TRUE, ![f].s1 = IF fst[f].d2 THEN @ ELSE -1]
               [] rs[k] = "dupinback" -> /\ open' = IF fst[f].d3 THEN open ELSE open \ Held(f, "in", fst[f].s0)
                                         /\ fst' = [fst EXCEPT ![f].k = k + 1, ![f].d3 = TRUE, ![f].s0 = IF fst[f].d3 THEN @ ELSE -1]
               [] OTHER -> /\ fst' = [fst EXCEPT ![f].k = k + 1] /\ UNCHANGED open
  /\ UNCHANGED <<prog, pst, pexc, intr, ret, pfail>>

(* the input of a form has reached EOF *)
RECURSIVE InputClosed(_)
InputClosed(f) ==
  IF \E i \in DOMAIN FormAt(prog, f).redirs : FormAt(prog, f).redirs[i] = "filein" THEN TRUE
  ELSE IF Idx(f) > 1 THEN Res("pw", Pid(f) \o <<Idx(f) - 1>>) \notin open
  ELSE IF Pid(f) = <<>> THEN TRUE                      \* the evaluation's own input: the null device
  ELSE InputClosed(SubSeq(f, 1, Len(f) - 2))           \* a captured pipeline reads what its capturing form reads

Body(f) ==
  /\ fst[f].pc = "body"
  /\ LET b == FormAt(prog, f).body IN
     CASE b.k = "ok"   -> /\ fst' = [fst EXCEPT ![f].pc = "closing"] /\ UNCHANGED <<open, pst>>
       [] b.k = "fail" -> /\ fst' = [fst EXCEPT ![f].pc = "closing", ![f].exc = TRUE] /\ UNCHANGED <<open, pst>>
       [] b.k = "sleep" -> /\ \E e \in (IF intr THEN {TRUE, FALSE} ELSE {FALSE}) : fst' = [fst EXCEPT ![f].pc = "closing", ![f].exc = e]
                           /\ UNCHANGED <<open, pst>>
       [] b.k = "consume" -> /\ open' = open \cup {Merge(f, n) : n \in 1..3}                      \* IterateInputsBegin
                             /\ fst' = [fst EXCEPT ![f].pc = "iter"] /\ UNCHANGED pst
       [] b.k = "cap" -> /\ open' = open \cup {Res("capw", f), Res("capr", f), Res("capgv", f), Res("capgb", f)}   \* CaptureBegin
                         /\ pst' = [pst EXCEPT ![f \o <<1>>] = "ready"]
                         /\ fst' = [fst EXCEPT ![f].pc = "cap"]
  /\ UNCHANGED <<prog, pexc, intr, ret, pfail>>

IterEnd(f) ==
  /\ fst[f].pc = "iter" /\ InputClosed(f)
  /\ open' = open \ {Merge(f, n) : n \in 1..3}
  /\ fst' = [fst EXCEPT ![f].pc = "closing"]
  /\ UNCHANGED <<prog, pst, pexc, intr, ret, pfail>>

CaptureEnd(f) ==
  /\ fst[f].pc = "cap" /\ pst[f \o <<1>>] = "done"
  /\ open' = open \ {Res("capw", f), Res("capr", f), Res("capgv", f), Res("capgb", f)}
  /\ fst' = [fst EXCEPT ![f].pc = "closing", ![f].exc = pexc[f \o <<1>>]]
  /\ UNCHANGED <<prog, pst, pexc, intr, ret, pfail>>

FormExit(f) ==
  /\ fst[f].pc = "closing"
  /\ open' = {r \in open : ~(r.id = f /\ r.k \in {"pw", "pr", "file", "stage"})}
  /\ fst' = [fst EXCEPT ![f].pc = "end"]
  /\ UNCHANGED <<prog, pst, pexc, intr, ret, pfail>>

PipelineWait(p) ==
  /\ pst[p] = "running" /\ \A i \in 1..NForms(p) : fst[p \o <<i>>].pc = "end"
  /\ pst' = [pst EXCEPT ![p] = "done"]
  /\ pexc' = [pexc EXCEPT ![p] = @ \/ \E i \in 1..NForms(p) : fst[p \o <<i>>].exc]
  /\ UNCHANGED <<prog, fst, open, intr, ret, pfail>>

EvalReturn == /\ pst[<<>>] = "done" /\ ~ret /\ ret' = TRUE /\ UNCHANGED <<prog, pst, pexc, fst, open, intr, pfail>>
Interrupt == /\ ~intr /\ ~ret /\ intr' = TRUE /\ UNCHANGED <<prog, pst, pexc, fst, open, ret, pfail>>
Done == ret /\ UNCHANGED vars

Next == \/ \E p \in DOMAIN pst : PipelineStart(p) \/ PipelineWait(p) \/ \E i \in 1..2 : PipelineStartFail(p, i)
        \/ \E f \in DOMAIN fst : Redir(f) \/ Body(f) \/ IterEnd(f) \/ CaptureEnd(f) \/ FormExit(f)
        \/ EvalReturn \/ Interrupt \/ Done
Spec == Init /\ [][Next]_vars

(* ---- properties *)
(* C40: nothing the evaluation created survives its return *)
CleanAtReturn == ret => open = {}
(* every open resource has a live owner (so nothing can be forgotten) *)
Alive(f) == fst[f].pc \notin {"idle", "end"}
NoOrphans == \A r \in open : Alive(r.id)
(* a form that has not started or has ended owns nothing; pipe ends come in pairs while both forms run *)
OutcomeOK == (ret /\ ~intr /\ ~pfail) => (pexc[<<>>] = FailsP(prog))
(* an evaluation always returns: checked as absence of deadlock (Done is the only terminal loop) *)

Emit == (Emitting /\ pst[<<>>] = "ready" /\ ~intr /\ ~ret) =>
          PrintT(ToJson([shape |-> prog, fails |-> FailsP(prog), npipes |-> Cardinality(PIds(prog, <<>>))]))
=============================================================================
