--------------------------- MODULE JudgePortsRes ---------------------------
(* C40, V: one recorded case per evaluation of a generated program
     [shape, intr, pfail, flaky, strict, exc, fd, go, bg]
   shape = the program's abstract shape (Ports, part 2), intr = the evaluation was interrupted,
   exc = it raised, fd / go = file descriptors / goroutines above the baseline after it returned
   (settled), bg = it started a background job or opened a file explicitly (never generated).
   The specification: at EvalReturn open = {}  =>  fd = 0 and go = 0 on every path.
   The outcome is compared with FailsP(shape) for uninterrupted evaluations only to make sure the
   program took the intended path (class "path": a problem of the generator, not a verdict). *)
EXTENDS Ports, TLC, Json
Cases == ndJsonDeserialize("cases.ndjson")
VARIABLE k
Init == k = 0
Next == k < Len(Cases) /\ k' = k + 1
Leaks(c) == ~c.bg /\ (c.fd # 0 \/ c.go # 0)
(* strict (the model's own shapes, G): raised <=> FailsP.  Random programs (V): FailsP => raised only --
   Unspecified the other way round: a writer whose reader has gone raises reader-gone, which is
   suppressed for a form writing to its own pipeline but not when it surfaces through peach,
   run-parallel, a loop or a capture nested in that form. *)
PathOK(c) == \/ c.intr
             \/ c.flaky        \* raised in one evaluation and not in another: the outcome depends on the schedule (Unspecified)
             \/ (IF c.pfail THEN c.exc                                     \* pfail: a pipe could not be created
                 ELSE IF c.strict THEN c.exc = FailsP(c.shape)
                 ELSE FailsP(c.shape) => c.exc)
CaseOK(c) == ~Leaks(c) /\ PathOK(c)
Why(c) == IF Leaks(c) THEN "leak" ELSE "path"
Inv == k = 0 \/ CaseOK(Cases[k]) \/ PrintT(<<"BAD", k, Why(Cases[k])>>)
=============================================================================
