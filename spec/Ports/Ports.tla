------------------------------- MODULE Ports -------------------------------
(* C42 (routing part) and C40 (resource part) -- the IO port table of a command form and the
   resources an evaluation creates (pkg/eval: compile_effect.go redirOp.exec / formOp.exec /
   pipelineOp.exec, port.go, frame.go; website/ref/language.md "IO ports", "Redirection", "Pipeline").

   ============================ PART 1: routing (C42) ============================
   State of ONE form, a record s:
     ports   sequence, ports[i+1] is IO port i; a port is [f, id, c]:
               f  file part:  "none"   no port at this index (beyond the table or a hole in it)
                              "closed" a port without a file (result of n>&-)
                              "rnull"  the caller's read-only null device (port 0 of the harness)
                              "cap"    the caller's capture sink number id (ports 1 and 2 of the harness)
                              "ofd"    open file description number id, opened by THIS form
               c  value part: "none" | "cap" (sink id) | "nov" (raises on value output)
                              | "eof" (input channel that never produces a value)
                              | "pipech" (the channel of the pipe from the previous form; piped forms only)
     owned   set of port indices whose file this form must close (the code's fops[i].File)
     ofds    sequence of open file descriptions [path, pos, r, w, app, open]; two redirections to the
             same path have two descriptions (own positions), n>&m shares one (shared position)
     files   path -> [ex, data]            caps   sink -> [b, v]  (bytes, values received)
     exc     "" | "redir" (a redirection raised: the body does not run)
     log     results of the body's operations, [r, a, d]: result, other accepted result ("" if none), bytes read
     shared  some redirection re-targeted an owned port whose description was still referenced
             elsewhere (or was its own source);  m1 : a duplication from -1 was executed
   Actions, in the form's order (formOp.exec):
     DoRedir(s, r, v)   r = [t, dst, mode, path, src]
        t = "file": RedirFile(dst, mode, path)   mode "r" <   "w" >   "a" >>   "rw" <>
                    > truncates/creates, >> appends/creates, <> opens read-write at 0 without
                    truncating (creating if absent), < requires existence (else the form raises)
        t = "dup" : RedirDup(dst, src)  n>&m : port dst becomes THE SAME port as src (shared position);
                    a source that is not an open port raises (InvalidFD)
        t = "close": RedirClose(dst)  n>&- : port without file; value output raises, byte output fails
        t = "baddst" / "badsrc": a destination/source that is neither a number nor stdin/stdout/stderr raises;
        a negative destination raises (it is not a port index) -- never a fault;
        a destination beyond the table grows it (holes are "none").
     DoOp(s, o)         o = [t, fd, n]:  "b" WriteBytes(fd, n)  "v" WriteValue(fd, n)  "r" ReadBytes(fd) (to EOF)
                        "rv" poll the value channel of fd
     FormEnd(s)         closes every description opened by the form (and only those)
   Variant v = [early, m1raise] selects between readings:
     early = FALSE  the specification: a description lives until FormEnd.
     early = TRUE   NAMED DEVIATION of the code (redirOp.exec closes the displaced port's file at once
                    when the form owns it, dstFop.close on the old port): observable only when `shared`
                    (theorem EarlyAgrees, checked in MCPorts); the statement forbids it ("n>&m
                    duplicates port m", "closed when the form finishes"), so a real behaviour equal to
                    the early reading and different from the specified one is a finding with its own key.
   Unspecified (both outcomes accepted):
     * source -1 (`>&-1`): the code reads it as `-` (close); raising is accepted too (m1raise).
     * WriteValue to an "eof" channel (a port made by `<`, or the caller's input port): the reference
       only says what such a channel does when READ; raise (primary) or silently drop are accepted --
       a fault is not.
     * WriteValue to the form's own input pipe (after n>&0 in a piped form): the result depends on
       whether the producer has already closed the channel (result "skip": not executed in G, any result in V).
     * polling the value channel of anything but an "eof" channel (result "skip": not executed).
     * very large non-negative destinations (the table grows; the generator stays <= 64).
   The form's own head is the harness command vw:do (never raises) or, in V, a real builtin
   (print/put) whose single write raises when it fails: then exc = "body".

   ============================ PART 2: resources (C40) ============================
   see below (program shapes, the set `open`, EvalReturn => open = {}).                          *)
EXTENDS Integers, Sequences, FiniteSets

NP == 6                         \* ports 0..NP-1 are noted at the end of the body
ABC == <<65, 66, 67>>           \* contents of a file that is present initially

NoPort     == [f |-> "none",   id |-> 0, c |-> "none"]
ClosedPort == [f |-> "closed", id |-> 0, c |-> "nov"]

Spec0 == [early |-> FALSE, m1raise |-> FALSE]

UV == <<85, 86>>                \* what the previous form of the pipeline writes (piped forms)

(* piped = FALSE: the form is a pipeline of its own; the caller's ports are a read-only null device
                  and two capture sinks.
   piped = TRUE : the form is the LAST form of `producer | form`: port 0 is the read end of the pipe
                  from the producer (which writes UV and exits).  pipelineOp.exec makes the form own
                  it (fops[0].File), so it is modelled as description 1 over the pseudo file 3,
                  opened before the first redirection; its value channel "pipech" is the pipe's. *)
InitForm(present, piped) ==
  [ports  |-> << IF piped THEN [f |-> "ofd", id |-> 1, c |-> "pipech"] ELSE [f |-> "rnull", id |-> 0, c |-> "eof"],
                 [f |-> "cap", id |-> 1, c |-> "cap"], [f |-> "cap", id |-> 2, c |-> "cap"] >>,
   owned  |-> IF piped THEN {0} ELSE {},
   ofds   |-> IF piped THEN << [path |-> 3, pos |-> 0, r |-> TRUE, w |-> FALSE, app |-> FALSE, open |-> TRUE] >> ELSE <<>>,
   files  |-> [i \in 1..3 |-> IF i = 3 THEN [ex |-> piped, data |-> IF piped THEN UV ELSE <<>>]
                              ELSE IF present[i] THEN [ex |-> TRUE, data |-> ABC] ELSE [ex |-> FALSE, data |-> <<>>]],
   caps   |-> [i \in 1..2 |-> [b |-> <<>>, v |-> <<>>]],
   exc    |-> "", log |-> <<>>, shared |-> FALSE, m1 |-> FALSE]

Get(s, i) == IF i >= 0 /\ i < Len(s.ports) THEN s.ports[i + 1] ELSE NoPort
Grow(ps, i) == IF i < Len(ps) THEN ps ELSE ps \o [k \in 1..(i + 1 - Len(ps)) |-> NoPort]
SetPort(s, i, p) == [s EXCEPT !.ports = [Grow(s.ports, i) EXCEPT ![i + 1] = p]]
Raise(s) == [s EXCEPT !.exc = "redir"]

SharedElsewhere(s, dst) ==
  LET p == Get(s, dst) IN
  p.f = "ofd" /\ \E j \in 0..(Len(s.ports) - 1) : j # dst /\ s.ports[j + 1].f = "ofd" /\ s.ports[j + 1].id = p.id

(* the port now at dst is about to be replaced *)
Displace(s, r, v) ==
  LET g == [s EXCEPT !.ports = Grow(s.ports, r.dst)]
      p == Get(g, r.dst)
  IN IF r.dst \in g.owned
     THEN [g EXCEPT !.owned  = @ \ {r.dst},
                    !.ofds   = IF v.early /\ p.f = "ofd" THEN [@ EXCEPT ![p.id].open = FALSE] ELSE @,
                    !.shared = @ \/ SharedElsewhere(g, r.dst) \/ (r.t = "dup" /\ r.src = r.dst)]
     ELSE g

OpenFile(s, r) ==
  LET f  == s.files[r.path]
      id == Len(s.ofds) + 1
      d  == [path |-> r.path, pos |-> 0, r |-> r.mode \in {"r", "rw"}, w |-> r.mode # "r", app |-> r.mode = "a", open |-> TRUE]
      s1 == SetPort(s, r.dst, [f |-> "ofd", id |-> id, c |-> IF r.mode = "r" THEN "eof" ELSE "nov"])
  IN IF r.mode = "r" /\ ~f.ex THEN Raise(s)
     ELSE [s1 EXCEPT !.ofds = Append(@, d),
                     !.files[r.path] = [ex |-> TRUE, data |-> IF r.mode = "w" THEN <<>> ELSE f.data],
                     !.owned = @ \cup {r.dst}]

DoRedir(s, r, v) ==
  IF s.exc # "" THEN s
  ELSE IF r.dst < 0 \/ r.t = "baddst" THEN Raise(s)
  ELSE LET g == Displace(s, r, v) IN
       CASE r.t \in {"baddst", "badsrc"} -> Raise(g)   \* not a number or port name: raises (V only)
         [] r.t = "close" -> SetPort(g, r.dst, ClosedPort)
         [] r.t = "file"  -> OpenFile(g, r)
         [] r.t = "dup"   ->
              IF r.src = -1 THEN (IF v.m1raise THEN Raise([g EXCEPT !.m1 = TRUE])
                                  ELSE [SetPort(g, r.dst, ClosedPort) EXCEPT !.m1 = TRUE])
              ELSE IF Get(g, r.src).f = "none" THEN Raise(g)          \* negative, beyond the table, or a hole
              ELSE SetPort(g, r.dst, Get(g, r.src))

Log(s, res, alt, data) == [s EXCEPT !.log = Append(@, [r |-> res, a |-> alt, d |-> data])]

WriteAt(data, at, n) ==
  IF at < Len(data) THEN [data EXCEPT ![at + 1] = n]
  ELSE data \o [k \in 1..(at - Len(data)) |-> 0] \o <<n>>

DoOp(s, o) ==
  LET p == Get(s, o.fd) IN
  IF s.exc # "" THEN s
  ELSE IF p.f = "none" THEN Log(s, "noport", "", <<>>)
  ELSE CASE o.t = "b" ->
         IF p.f = "cap" THEN [Log(s, "ok", "", <<>>) EXCEPT !.caps[p.id].b = Append(@, o.n)]
         ELSE IF p.f = "ofd" /\ s.ofds[p.id].open /\ s.ofds[p.id].w
         THEN LET d  == s.ofds[p.id]
                  fl == s.files[d.path]
                  at == IF d.app THEN Len(fl.data) ELSE d.pos
              IN [Log(s, "ok", "", <<>>) EXCEPT !.files[d.path].data = WriteAt(fl.data, at, o.n),
                                              !.ofds[p.id].pos = at + 1]
         ELSE Log(s, "err", "", <<>>)     \* no file, read-only null device, read-only or closed description
    [] o.t = "v" ->
         IF p.c = "cap" THEN [Log(s, "ok", "", <<>>) EXCEPT !.caps[p.id].v = Append(@, o.n)]
         ELSE IF p.c = "nov" THEN Log(s, "err", "", <<>>)
         ELSE IF p.c = "pipech" THEN Log(s, "skip", "", <<>>)    \* the form's own input pipe: Unspecified, depends on whether the producer has closed the channel yet
         ELSE Log(s, "err", "ok", <<>>)   \* "eof" channel: Unspecified (raise or drop)
    [] o.t = "r" ->
         IF p.f = "rnull" THEN Log(s, "ok", "", <<>>)
         ELSE IF p.f = "ofd" /\ s.ofds[p.id].open /\ s.ofds[p.id].r
         THEN LET d  == s.ofds[p.id]
                  fl == s.files[d.path]
              IN [Log(s, "ok", "", SubSeq(fl.data, d.pos + 1, Len(fl.data))) EXCEPT
                     !.ofds[p.id].pos = IF d.pos > Len(fl.data) THEN d.pos ELSE Len(fl.data)]
         ELSE Log(s, "err", "", <<>>)
    [] o.t = "rv" ->
         IF p.c = "eof" THEN Log(s, "eof", "", <<>>) ELSE Log(s, "skip", "", <<>>)

(* a real builtin as the head: one write that raises when it fails *)
DoBuiltin(s, o) ==
  LET s1 == DoOp(s, o) IN
  IF s.exc # "" THEN s
  ELSE IF s1.log[Len(s1.log)].r = "ok" THEN s1 ELSE [s1 EXCEPT !.exc = "body"]

FormEnd(s) == [s EXCEPT !.ofds = [i \in DOMAIN @ |-> [@[i] EXCEPT !.open = FALSE]], !.owned = {}]

RECURSIVE Redirs(_, _, _)
Redirs(s, rs, v) == IF rs = <<>> THEN s ELSE Redirs(DoRedir(s, Head(rs), v), Tail(rs), v)
RECURSIVE Ops(_, _)
Ops(s, os) == IF os = <<>> THEN s ELSE Ops(DoOp(s, Head(os)), Tail(os))

ClosedNote(s) ==
  IF s.exc = "redir" THEN <<>>
  ELSE [i \in 1..NP |-> LET p == Get(s, i - 1) IN
          CASE p.f = "none" -> "none" [] p.f = "closed" -> "nofile" [] p.f = "ofd" -> "closed" [] OTHER -> "open"]

(* what the caller can observe of a finished form *)
Observe(s) == [exc |-> s.exc, log |-> s.log, files |-> SubSeq(s.files, 1, 2), caps |-> s.caps, closed |-> ClosedNote(s)]

(* the same, with the log split into parallel sequences (smaller JSON) *)
Compact(ob) == [exc |-> ob.exc, r |-> [i \in DOMAIN ob.log |-> ob.log[i].r], a |-> [i \in DOMAIN ob.log |-> ob.log[i].a],
                d |-> [i \in DOMAIN ob.log |-> ob.log[i].d], files |-> ob.files, caps |-> ob.caps, closed |-> ob.closed]

RunBuiltin(present, piped, rs, o, v) == Observe(FormEnd(DoBuiltin(Redirs(InitForm(present, piped), rs, v), o)))
Run(present, piped, rs, os, v) == Observe(FormEnd(Ops(Redirs(InitForm(present, piped), rs, v), os)))

(* ---- invariants of the form state (checked in MCPorts on every reachable state) *)
OwnedOK(s) == \A i \in s.owned : Get(s, i).f = "ofd" /\ s.ofds[Get(s, i).id].open
OwnedDistinct(s) == \A i, j \in s.owned : i # j => Get(s, i).id # Get(s, j).id
OfdsOK(s) == \A k \in DOMAIN s.ofds : s.files[s.ofds[k].path].ex /\ (s.ofds[k].app \/ s.ofds[k].pos <= Len(s.files[s.ofds[k].path].data))
(* the code's cleanup protocol (per-index ownership + close on displacement) loses no description:
   on the early variant, every description still open is reachable from an owned index *)
NoLeak(s) == \A k \in DOMAIN s.ofds : s.ofds[k].open => \E i \in s.owned : Get(s, i).f = "ofd" /\ Get(s, i).id = k
AllClosedAtEnd(s) == \A k \in DOMAIN FormEnd(s).ofds : ~FormEnd(s).ofds[k].open


(* ============================ PART 2: resources (C40) ============================
   What an evaluation creates and who must release it (pipelineOp.exec, formOp.exec, redirOp.exec,
   outputCaptureOp.exec / PipePort, Frame.IterateInputs, runParallel, peach).

   Program shape (the abstraction of a generated program):
     pipeline  = sequence of forms (1..3);   form = [redirs, body]
     redirs    = sequence over  "fileout" (> file on port 1)  "filein" (< existing file on port 0)
                 "filefail" (< absent file: raises)  "dupok" (2>&1)  "dupbad" (>&9: raises)  "close" (2>&-)
                 "dupback" (>&2: slot 1 from slot 2)  "dupin" (3<&0)  "dupinback" (<&3: slot 0 from slot 3)
                 -- with these a port the form owns can be duplicated and the original slot redirected from
                 the duplicate or redirected again: the port is then released at FormEnd, not before, not never
     body      = [k, sub]:  "ok" (outputs and returns)  "fail" (raises)  "sleep" (returns; raises when interrupted)
                 "consume" (reads all its input: Frame.IterateInputs)
                 "cap"   output capture of the pipeline sub[1]
                 "par"   run-parallel of the pipelines sub[1..]     (V only)
                 "peach" peach over three inputs of the pipeline sub[1]   (V only)
                 "loop"  for-loop running sub[1] three times; "call" a closure running sub[1]   (V only)
                 "try"   try { sub[1] } catch: swallows the exception   (V only)
   Resources (elements of `open`), each owned by the activation named in its id:
     [k |-> "pw"/"pr", id |-> form]   write / read end (file and channel) of the pipe between two forms
     [k |-> "stage",   id |-> form]   goroutine running a form that is not the last of its pipeline
     [k |-> "file",    id |-> form, slot |-> "in"/"out"]   file opened by a redirection
     [k |-> "capw"/"capr"/"capgv"/"capgb", id |-> form]    capture pipe ends and its two reader goroutines
     [k |-> "merge",   id |-> form, n |-> 1..3]            input-merger goroutines of IterateInputs
   Ids: pipeline ids have even length (<<>> is the evaluated chunk's pipeline), form id = pipeline id \o <<i>>,
   the j-th sub-pipeline of a form has id  form id \o <<j>>.
   The small-step machine is in MCPortsRes; the property: at EvalReturn open = {} (normal, exception and
   interrupted paths), and stronger: every open resource has a live owner at every moment.
   FailsP(shape) is the outcome without interruption (raises or not), used by G and V to check that the
   rendered program took the intended path. With an interruption the outcome is Unspecified. *)

RaisingRedirs == {"filefail", "dupbad"}
(* "dupinback" (<&3) raises when slot 3 has not been made by an earlier "dupin" (3<&0) of the same form *)
RaisesAt(rs, i) == rs[i] \in RaisingRedirs \/ (rs[i] = "dupinback" /\ ~\E j \in 1..(i - 1) : rs[j] = "dupin")
RECURSIVE FailsP(_)
FailsF(f) == \/ \E i \in DOMAIN f.redirs : RaisesAt(f.redirs, i)
             \/ f.body.k = "fail"
             \/ (f.body.k \in {"cap", "par", "peach", "loop", "call"} /\ \E j \in DOMAIN f.body.sub : FailsP(f.body.sub[j]))
FailsP(p) == \E i \in DOMAIN p : FailsF(p[i])

RECURSIVE PipeAt(_, _)
PipeAt(p, id) == IF id = <<>> THEN p ELSE PipeAt(p[id[1]].body.sub[id[2]], SubSeq(id, 3, Len(id)))
FormAt(p, id) == PipeAt(p, SubSeq(id, 1, Len(id) - 1))[id[Len(id)]]
RECURSIVE PIds(_, _)
PIds(p, id) == {id} \cup UNION {IF p[i].body.k = "cap" THEN PIds(p[i].body.sub[1], id \o <<i, 1>>) ELSE {} : i \in DOMAIN p}
FIdsOf(p, pids) == UNION {{pid \o <<i>> : i \in DOMAIN PipeAt(p, pid)} : pid \in pids}

=============================================================================
