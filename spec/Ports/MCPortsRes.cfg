CONSTANTS MaxForms = 1 Level = 1 PipeFail = TRUE Emitting = FALSE
SPECIFICATION Spec
INVARIANT CleanAtReturn
INVARIANT NoOrphans
INVARIANT OutcomeOK
CHECK_DEADLOCK TRUE
