CONSTANTS MaxR = 1 MaxO = 2 NegFds = 1 DstHi = 3 NPresent = 3 Piped = FALSE Emitting = FALSE Mini = FALSE FdA = 1 FdB = 2
SPECIFICATION Spec
INVARIANT TypeOK
INVARIANT NoLeakInCode
INVARIANT ClosedAtEnd
INVARIANT SameControl
INVARIANT EarlyAgrees
INVARIANT EarlyAgreesProbed
INVARIANT RaiseStops
