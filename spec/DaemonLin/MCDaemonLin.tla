---------------------------- MODULE MCDaemonLin ----------------------------
(* M for C26: Clients x MaxOps requests each from a small pool; every interleaving of
   Invoke / Linearize / Respond; ghost history `done` of responded requests <<c, o, r>> in response
   order and `dels` = sequence numbers that a DelCmd removed (numbers are never reused). *)
EXTENDS DaemonLin, FiniteSets
CONSTANTS MaxOps, Pool
VARIABLES done, dels, cnt
vars == <<store, pend, done, dels, cnt>>
Op(op, a, b, t) == [NoOp EXCEPT !.op = op, !.a = a, !.b = b, !.t = t]
PoolSmall == {Op("AddCmd", 0, 0, <<1>>), Op("AddCmd", 0, 0, <<2>>), Op("DelCmd", 1, 0, <<>>),
              Op("NextCmdSeq", 0, 0, <<>>), Op("CmdsWithSeq", 0, -1, <<>>)}
PoolTiny == {Op("AddCmd", 0, 0, <<1>>), Op("DelCmd", 1, 0, <<>>), Op("NextCmdSeq", 0, 0, <<>>), Op("CmdsWithSeq", 0, -1, <<>>)}
PoolAll == PoolSmall \cup {Op("Cmd", 1, 0, <<>>), Op("PrevCmd", 3, 0, <<1>>), Op("NextCmd", 1, 0, <<>>)}
Init == LinInit /\ done = <<>> /\ dels = {} /\ cnt = [c \in Clients |-> 0]
Next == \E c \in Clients :
          \/ \E o \in Pool : cnt[c] < MaxOps /\ Invoke(c, o) /\ cnt' = [cnt EXCEPT ![c] = @ + 1] /\ UNCHANGED <<done, dels>>
          \/ /\ Linearize(c) /\ UNCHANGED <<done, cnt>>
             /\ dels' = IF pend[c].o.op = "DelCmd" /\ \E e \in store.cmds : e.seq = pend[c].o.a
                        THEN dels \cup {pend[c].o.a} ELSE dels
          \/ /\ Respond(c, pend[c].r) /\ done' = Append(done, <<c, pend[c].o, pend[c].r>>) /\ UNCHANGED <<dels, cnt>>
Spec == Init /\ [][Next]_vars
Adds == {i \in 1..Len(done) : done[i][2].op = "AddCmd"}
NoDupSeq == \A i, j \in Adds : done[i][3].n = done[j][3].n => i = j
NoLostAdd == \A i \in Adds : done[i][3].n \in dels \/ [seq |-> done[i][3].n, text |-> done[i][2].t] \in store.cmds
SeqGrows == \A i, j \in Adds : (i < j /\ done[i][1] = done[j][1]) => done[i][3].n < done[j][3].n
StoreOK == SeqsBelowNext(store) /\ SeqsUnique(store)
\* a read that completes after quiescence sees exactly the responded, undeleted adds
FinalAgrees == Quiescent => Res(store, Op("CmdsWithSeq", 0, -1, <<>>)).list =
                 Listing({[seq |-> done[i][3].n, text |-> done[i][2].t] : i \in {j \in Adds : done[j][3].n \notin dels}})
=============================================================================
