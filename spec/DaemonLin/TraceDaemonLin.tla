--------------------------- MODULE TraceDaemonLin ---------------------------
(* V for C26: the linearizability acceptor.  trace.ndjson holds recorded concurrent histories of the
   real daemon, one event per line with uniform fields [ev, c, o, r, ri, h]:
     "base"  start of a history on a store whose state is r.list (entries) and r.n (last sequence
             number), read sequentially before the clients start (fresh database: empty list, 0)
     "inv"   client c is about to call o          (logged before the call; ri = line of its "res")
     "res"   the call o of client c returned r    (logged after it returned)
   The visible actions of DaemonLin follow the trace (position l); Linearize is internal and placed by
   TLC (depth-first queue; high-water mark of l; POSTCONDITION Accepted).  Two reductions that lose no
   linearization: (1) linearization points are only tried immediately before a response event -- any
   legal choice of points can be moved later up to the next response without changing their order;
   (2) a request is linearized only at a point where the object yields the result the trace shows
   for it (want[c], looked up at Invoke) -- another point could never be followed by its Respond.
   Requests with Unspecified arguments may return anything (want is not compared).
   Whole-trace diagnostics printed once (the verdict is the acceptor's): DUP = sequence numbers
   returned by two AddCmd calls of one history. *)
EXTENDS DaemonLin, Json, Integers
Trace == ndJsonDeserialize("trace.ndjson")
VARIABLES l, want
vars == <<store, pend, l, want>>
T == Trace[l]
Is(e) == l <= Len(Trace) /\ Trace[l].ev = e
\* the tracer pairs every invocation with the line of its response (bookkeeping, checked here)
Paired(i) == LET j == Trace[i].ri IN
               /\ j \in (i + 1)..Len(Trace) /\ Trace[j].ev = "res" /\ Trace[j].c = Trace[i].c /\ Trace[j].o = Trace[i].o
Init == /\ l = 1 /\ LinInit /\ want = [c \in Clients |-> R0]
Base == /\ Is("base") /\ Quiescent /\ l' = l + 1
        /\ store' = [Empty EXCEPT !.next = T.r.n,
                                  !.cmds = {[seq |-> T.r.list[i].n, text |-> T.r.list[i].t] : i \in 1..Len(T.r.list)}]
        /\ UNCHANGED <<pend, want>>
Inv == /\ Is("inv") /\ Paired(l) /\ Invoke(T.c, T.o) /\ l' = l + 1
       /\ want' = [want EXCEPT ![T.c] = Trace[T.ri].r]
Lin(c) == /\ Is("res") /\ pend[c].st = "inv"
          /\ (Unspecified(pend[c].o) \/ Res(store, pend[c].o) = want[c])
          /\ Linearize(c) /\ UNCHANGED <<l, want>>
Rsp == /\ Is("res") /\ pend[T.c].st = "lin"
       /\ (Unspecified(pend[T.c].o) \/ T.r = pend[T.c].r)
       /\ pend' = [pend EXCEPT ![T.c] = Idle] /\ l' = l + 1 /\ UNCHANGED <<store, want>>
Next == Base \/ Inv \/ Rsp \/ \E c \in Clients : Lin(c)
Spec == Init /\ [][Next]_vars
\* high-water mark; once the whole trace has been matched nothing else needs exploring
HW == /\ TLCSet(1, IF TLCGet(1) > l THEN TLCGet(1) ELSE l)
      /\ (TLCGet(1) <= Len(Trace) \/ l > Len(Trace))
ASSUME TLCSet(1, 0)
\* diagnostics over the whole trace
\* (h = number of the history within the file, written by the recorder)
AddRes == {j \in 1..Len(Trace) : Trace[j].ev = "res" /\ Trace[j].o.op = "AddCmd"}
Dups == {<<Trace[x].h, Trace[x].r.n>> : x \in {x \in AddRes : \E y \in AddRes : y # x /\ Trace[x].h = Trace[y].h /\ Trace[x].r.n = Trace[y].r.n}}
Accepted == PrintT(<<"HW", TLCGet(1)>>) /\ PrintT(<<"DUP", Dups>>) /\ TLCGet(1) = Len(Trace) + 1
StoreOK == SeqsBelowNext(store) /\ SeqsUnique(store)
=============================================================================
