CONSTANTS Clients = {1, 2} MaxOps = 2 Pool <- PoolSmall
SPECIFICATION Spec
INVARIANT NoDupSeq
INVARIANT NoLostAdd
INVARIANT SeqGrows
INVARIANT StoreOK
INVARIANT FinalAgrees
