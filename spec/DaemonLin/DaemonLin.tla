------------------------------ MODULE DaemonLin ------------------------------
(* C26 -- concurrent clients of the storage daemon (pkg/daemon server.go/service.go/client.go,
   pkg/rpc, pkg/store/cmd.go) see a LINEARIZABLE command history.

   Sequential object: the command part of HistStore.tla (NextCmdSeq, AddCmd, DelCmd, Cmd, CmdsWithSeq,
   NextCmd, PrevCmd) -- Res(store, o) is the result, Apply(store, o) the successor.
   State   store            the object
           pend[c]          per client (= one goroutine issuing requests one at a time):
                            [st |-> "idle"] | [st |-> "inv", o] | [st |-> "lin", o, r]
   Actions Invoke(c, o)     the client sends a request                      (visible: logged before the call)
           Linearize(c)     INTERNAL: the request takes effect atomically:  store' = Apply(store, o) and the
                            result is fixed, r = Res(store, o)              (one bbolt transaction in the daemon)
           Respond(c, r)    the call returns r; enabled iff r is the fixed result   (visible: logged after return)
   A recorded concurrent history (Invoke/Respond events in real-time order) is linearizable iff it is
   the visible projection of a behaviour of this specification, i.e. iff TLC can place the Linearize
   steps (TraceDaemonLin).  Properties of every behaviour (checked in MCDaemonLin with ghost history):
     NoDupSeq    no two responded AddCmd carry the same sequence number
     NoLostAdd   a responded AddCmd(t) -> n is in the store unless a DelCmd(n) took effect
     SeqGrows    the sequence numbers responded to one client's successive AddCmds increase.

   Unspecified: requests with negative sequence arguments (HistStore!Unspecified); errors of a daemon
   whose database failed to open; requests cut off by a closed connection (not generated). *)
EXTENDS HistStore, TLC
CONSTANT Clients
VARIABLES store, pend
NoOp == [op |-> "", a |-> 0, b |-> 0, t |-> <<>>, d |-> 0, f |-> 0, bl |-> <<>>]
Idle == [st |-> "idle", o |-> NoOp, r |-> R0]

LinInit == store = Empty /\ pend = [c \in Clients |-> Idle]
Invoke(c, o) == /\ pend[c].st = "idle"
                /\ pend' = [pend EXCEPT ![c] = [st |-> "inv", o |-> o, r |-> R0]]
                /\ UNCHANGED store
Linearize(c) == /\ pend[c].st = "inv"
                /\ store' = Apply(store, pend[c].o)
                /\ pend' = [pend EXCEPT ![c] = [st |-> "lin", o |-> pend[c].o, r |-> Res(store, pend[c].o)]]
Respond(c, r) == /\ pend[c].st = "lin" /\ r = pend[c].r
                 /\ pend' = [pend EXCEPT ![c] = Idle]
                 /\ UNCHANGED store
Quiescent == \A c \in Clients : pend[c].st = "idle"
=============================================================================
