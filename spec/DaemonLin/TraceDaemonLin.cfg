CONSTANTS Clients = {1, 2, 3, 4, 5, 6, 7, 8}
SPECIFICATION Spec
CONSTRAINT HW
INVARIANT StoreOK
POSTCONDITION Accepted
