------------------------------- MODULE DiagPos -------------------------------
(* C37 -- error positions: what diag.NewContext(name, source, [from, to]) must report.

   A source is seen as its bytes; the only thing that matters about a byte is whether it is a
   newline.  nl is a sequence of BOOLEAN (nl[i] = byte i is '\n', 1-based); an offset p in
   0..Len(nl) lies between byte p and byte p+1; a range is from <= to.  (MCDiagPos builds nl from
   token sequences over {x (1 byte), e = e-acute (2 bytes), n = newline}, so that ranges may start
   and end inside a multi-byte character: positions are bytes.)

   Ref(nl, from, to)   the property statement, declaratively:
       sl, sc   1-based line / byte column of the first byte of the range
                (sl = 1 + number of newlines before from; sc = 1 + bytes since the last newline)
       body     the range minus ONE trailing newline                         [from, bt)
       el, ec   line / column of the LAST byte of the body; for an empty body el = sl, ec = sc - 1
       head     text of the first line before the range                      [hf, from)
       tail     rest of the last line after the body (empty when a newline was stripped)  [bt, tt)
       so that head \o body \o tail is exactly the text of the lines containing the range.
   Impl(nl, from, to)  code-shaped transcription of diag.getContextDetails (strings.Count,
       lastLine, firstLine) used for the design theorem ImplMatchesRef, checked by TLC.

   Unspecified(nl, from, to): the body (after stripping) is not empty but its last byte is a
       newline (range ending in NL NL): the body's last line is empty.  The statement does not
       say whether the end is the newline byte itself (line L, its column) or "column 0 of the
       empty line L+1".  Both end positions are accepted (EndOK); start, head, body and tail are
       still prescribed.

   DescNums: the numbers that appear in the range description of an error message:
       point  (empty body)   <<sl, sc>>        span (one line)  <<sl, sc, ec>>
       multi-line            <<sl, sc, el, ec>>                                            *)
EXTENDS Integers, Sequences, FiniteSets

Offsets(nl) == 0..Len(nl)

(* ---------------- geometry of a text ---------------- *)
NLs(nl, p)       == Cardinality({i \in 1..p : nl[i]})                 \* newlines among the first p bytes
IsLineStart(nl, q) == q = 0 \/ nl[q]                                   \* offset q begins a line
IsLineEnd(nl, q)   == q = Len(nl) \/ nl[q + 1]                         \* offset q ends a line (before its NL / at EOF)
LineStart(nl, p) == CHOOSE q \in 0..p : IsLineStart(nl, q) /\ \A r \in (q + 1)..p : ~nl[r]
LineEnd(nl, p)   == CHOOSE q \in p..Len(nl) : IsLineEnd(nl, q) /\ \A r \in (p + 1)..q : ~nl[r]
LineOf(nl, p)    == 1 + NLs(nl, p)                                     \* line of the byte AFTER offset p
ColOf(nl, p)     == 1 + p - LineStart(nl, p)                           \* its 1-based byte column
\* inverse: offset of (line, col); used for the consistency theorems
StartOfLine(nl, l) == CHOOSE q \in Offsets(nl) : IsLineStart(nl, q) /\ NLs(nl, q) = l - 1
OffsetOf(nl, l, c) == StartOfLine(nl, l) + c - 1

(* ---------------- reference ---------------- *)
Stripped(nl, from, to) == to > from /\ nl[to]
BodyTo(nl, from, to)   == IF Stripped(nl, from, to) THEN to - 1 ELSE to
Unspecified(nl, from, to) == LET bt == BodyTo(nl, from, to) IN bt > from /\ nl[bt]

Ref(nl, from, to) ==
  LET bt   == BodyTo(nl, from, to)
      sl   == LineOf(nl, from)
      sc   == ColOf(nl, from)
      last == bt - 1                      \* offset of the last byte of a non-empty body
  IN [sl |-> sl, sc |-> sc,
      el |-> IF bt = from THEN sl ELSE LineOf(nl, last),
      ec |-> IF bt = from THEN sc - 1 ELSE ColOf(nl, last),
      hf |-> LineStart(nl, from),                       \* head = [hf, from)
      bt |-> bt,                                        \* body = [from, bt)
      tt |-> IF Stripped(nl, from, to) THEN bt ELSE LineEnd(nl, to)]   \* tail = [bt, tt)

\* the other reading of the end position in the Unspecified case: column 0 of the empty last line
AltEnd(nl, from, to) == [el |-> LineOf(nl, BodyTo(nl, from, to)), ec |-> 0]

EndOK(nl, from, to, el, ec) ==
  LET r == Ref(nl, from, to) IN
  \/ el = r.el /\ ec = r.ec
  \/ Unspecified(nl, from, to) /\ el = AltEnd(nl, from, to).el /\ ec = AltEnd(nl, from, to).ec

DescNums(sl, sc, el, ec) ==
  IF sl = el THEN (IF ec < sc THEN <<sl, sc>> ELSE <<sl, sc, ec>>) ELSE <<sl, sc, el, ec>>

(* ---------------- code-shaped (getContextDetails) ---------------- *)
CountNL(nl, a, b) == Cardinality({i \in (a + 1)..b : nl[i]})          \* strings.Count(s[a:b], "\n")
\* lastLine(s[a:b]) starts after the last newline of s[a:b] (or at a)
LastLineFrom(nl, a, b) == IF CountNL(nl, a, b) = 0 THEN a
                          ELSE CHOOSE q \in (a + 1)..b : nl[q] /\ \A r \in (q + 1)..b : ~nl[r]
\* firstLine(s[a:]) ends before the first newline of s[a:] (or at the end)
FirstLineTo(nl, a) == IF CountNL(nl, a, Len(nl)) = 0 THEN Len(nl)
                      ELSE (CHOOSE q \in (a + 1)..Len(nl) : nl[q] /\ \A r \in (a + 1)..(q - 1) : ~nl[r]) - 1

Impl(nl, from, to) ==
  LET hf        == LastLineFrom(nl, 0, from)            \* head := lastLine(before)
      strip     == to > from /\ nl[to]                  \* strings.HasSuffix(body, "\n")
      bt        == IF strip THEN to - 1 ELSE to
      tt        == IF strip THEN bt ELSE FirstLineTo(nl, to)
      startLine == CountNL(nl, 0, from) + 1
      startCol  == 1 + (from - hf)
      endLine   == startLine + CountNL(nl, from, bt)
      endCol    == IF startLine = endLine THEN startCol + (bt - from) - 1
                   ELSE bt - LastLineFrom(nl, from, bt)
  IN [sl |-> startLine, sc |-> startCol, el |-> endLine, ec |-> endCol,
      hf |-> hf, bt |-> bt, tt |-> tt]

ImplMatchesRef(nl, from, to) ==
  LET i == Impl(nl, from, to)
      r == Ref(nl, from, to)
  IN /\ i.sl = r.sl /\ i.sc = r.sc /\ i.hf = r.hf /\ i.bt = r.bt /\ i.tt = r.tt
     /\ EndOK(nl, from, to, i.el, i.ec)
     /\ (~Unspecified(nl, from, to) => i = r)

(* ---------------- consistency of the reference itself ---------------- *)
Consistent(nl, from, to) ==
  LET r == Ref(nl, from, to) IN
  /\ r.sl >= 1 /\ r.sc >= 1
  /\ OffsetOf(nl, r.sl, r.sc) = from                                  \* (sl, sc) is the first byte
  /\ (r.bt > from /\ ~Unspecified(nl, from, to)) =>
        /\ OffsetOf(nl, r.el, r.ec) = r.bt - 1                         \* (el, ec) is the last byte of the body
        /\ r.ec >= 1
  /\ r.el >= r.sl /\ (r.el = r.sl => r.ec >= r.sc - 1)
  /\ (r.bt = from) => (r.el = r.sl /\ r.ec = r.sc - 1)
  \* head, body, tail are adjacent, and together are whole lines
  /\ r.hf <= from /\ from <= r.bt /\ r.bt <= to /\ to <= r.bt + 1 /\ r.bt <= r.tt /\ r.tt <= Len(nl)
  /\ IsLineStart(nl, r.hf) /\ IsLineEnd(nl, r.tt)
  /\ \A i \in (r.hf + 1)..from : ~nl[i]                               \* head is within one line
  /\ \A i \in (r.bt + 1)..r.tt : ~nl[i]                               \* tail is within one line
  /\ LineOf(nl, r.hf) = r.sl                                           \* the lines are sl .. line of the end
=============================================================================
