---------------------------- MODULE JudgeDiagPos ----------------------------
(* V half of C37: case walker.  Every case is one diag.Context the real code produced
   (diag.NewContext on random sources, or the Context inside a real parse error / compilation
   error / exception stack-trace entry), projected by the executor to

     [nl   |-> <<BOOLEAN ...>>   byte i of the source is '\n'
      from, to                    the range
      sl, sc, el, ec              the reported StartLine, StartCol, EndLine, EndCol
      hl, bl, tl                  byte lengths of Head, Body, Tail
      slices |-> BOOLEAN          Head = source[from-hl, from), Body = source[from, from+bl),
                                  Tail = source[to, to+tl)    (a projection: the executor compares
                                  the three strings with those slices of the source it supplied)
      desc |-> <<Int ...>>        the integers of the range description in Error() (<<>> = not
                                  recorded for this case) ]

   CaseOK compares with Ref; Why names the first clause that fails. *)
EXTENDS DiagPos, TLC, Json
Cases == ndJsonDeserialize("cases.ndjson")
VARIABLE k
Init == k = 0
Next == k < Len(Cases) /\ k' = k + 1

Why(c) ==
  LET r == Ref(c.nl, c.from, c.to) IN
  IF ~(0 <= c.from /\ c.from <= c.to /\ c.to <= Len(c.nl)) THEN "range"
  ELSE IF c.sl # r.sl THEN "startLine"
  ELSE IF c.sc # r.sc THEN "startCol"
  ELSE IF ~EndOK(c.nl, c.from, c.to, c.el, c.ec) THEN "end"
  ELSE IF c.hl # c.from - r.hf THEN "head"
  ELSE IF c.bl # r.bt - c.from THEN "body"
  ELSE IF c.tl # r.tt - r.bt THEN "tail"
  ELSE IF ~c.slices THEN "text"
  ELSE IF c.desc # <<>> /\ c.desc # DescNums(c.sl, c.sc, c.el, c.ec) THEN "describe"
  ELSE "ok"
Inv == k = 0 \/ Why(Cases[k]) = "ok" \/ PrintT(<<"BAD", k, Why(Cases[k]), Unspecified(Cases[k].nl, Cases[k].from, Cases[k].to)>>)
=============================================================================
