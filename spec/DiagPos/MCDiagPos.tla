----------------------------- MODULE MCDiagPos -----------------------------
(* Exhaustive configuration + generator for C37.  Every state with ph = 1 is one case
   (source as a token sequence over {x, e, n}, byte range [from, to]); TLC checks the design
   theorems on it and prints the case with the prescribed outcome.  (Initial states, ph = 0, only
   choose the source, so that the cases are spread over TLC's workers.)
   x = a 1-byte character, e = a 2-byte character (e-acute), n = newline.  Ranges are over ALL byte
   offsets, including the middle of a 2-byte character. *)
EXTENDS DiagPos, TLC, Json
CONSTANT N      \* max number of tokens
VARIABLES src, nl, from, to, ph   \* nl = Flat(src), kept as a variable so that TLC computes it once
RECURSIVE SrcsOf(_)
SrcsOf(k) == IF k = 0 THEN {<<>>} ELSE {<<>>} \cup {<<t>> \o s : t \in {"x", "e", "n"}, s \in SrcsOf(k - 1)}
RECURSIVE Flat(_)
Flat(s) == IF s = <<>> THEN <<>>
           ELSE (IF Head(s) = "x" THEN <<FALSE>> ELSE IF Head(s) = "e" THEN <<FALSE, FALSE>> ELSE <<TRUE>>) \o Flat(Tail(s))
Init == src \in SrcsOf(N) /\ nl = Flat(src) /\ from = 0 /\ to = 0 /\ ph = 0
Next == /\ ph = 0 /\ ph' = 1 /\ UNCHANGED <<src, nl>>
        /\ from' \in 0..Len(nl) /\ to' \in 0..Len(nl) /\ from' <= to'
Theorem    == ph = 1 => ImplMatchesRef(nl, from, to)
RefConsistent == ph = 1 => Consistent(nl, from, to)
Emit == ph = 0 \/
        LET r == Ref(nl, from, to)
            a == AltEnd(nl, from, to)
        IN PrintT(ToJson([src |-> src, from |-> from, to |-> to, exp |-> r,
                          unspec |-> Unspecified(nl, from, to), alt |-> a,
                          desc |-> DescNums(r.sl, r.sc, r.el, r.ec), altdesc |-> DescNums(r.sl, r.sc, a.el, a.ec)]))
=============================================================================
