CONSTANT N = 3
INIT Init
NEXT Next
INVARIANT Theorem
INVARIANT RefConsistent
INVARIANT Emit
