\* G: case generation (the executor rewrites the constants per tier and spec-set range)
CONSTANT MaxLen = 2
CONSTANT PoolSel = "full"
CONSTANT SpecNums = {1, 15, 26}
INIT Init
NEXT Next
INVARIANT Emit
