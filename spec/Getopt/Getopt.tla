------------------------------- MODULE Getopt -------------------------------
(* C38 -- option scanning in the style of GNU/BSD getopt_long, as selected by the configuration
   bits of src.elv.sh/pkg/getopt (package documentation, website/ref/flag.md "Getopt convention").

   Texts are sequences of characters; a character is an integer (its code point; bytes that are
   not valid UTF-8 are integers above the Unicode range).  Dash = '-', Eq = '='.

   Configuration  cfg = [dd, bsd, lo]:
     dd   StopAfterDoubleDash        "--" ends option scanning
     bsd  StopBeforeFirstNonOption   the first non-option argument ends option scanning
     lo   LongOnly                   "-name" is a long option; there are no short options
   Option specs: a sequence of [short |-> char or NoShort, long |-> text or <<>>, arity |-> no|req|opt].

   The scanner is a state machine over the argument list.  State
       [opts, rest, pend, stop, unspec, unk4]
   opts  = options recognised so far, each [spec |-> index into specs, 0 = unknown,
           long |-> written in long form, name |-> the name as written, arg |-> its argument]
   rest  = non-option arguments so far
   pend  = <<>> or <<o>>: an option with a required argument still waiting for the next element
   stop  = option scanning has ended
   unspec, unk4 = an Unspecified case (1)/(2), resp. (4), was met (sticky)
   One action per argument; which one is decided by Guard:
     TakeArg     pend # <<>>: the element, whatever it is, is the argument of the pending option
     NonOptAfter stop: the element is a non-option argument
     Terminator  "--" with cfg.dd: ends option scanning, is dropped
     DDNoBit     "--" without cfg.dd: see Unspecified (3)
     Long        "--x..."; or "-x..." (x # "-") under cfg.lo: one long option, "name" or "name=value"
     Short       "-x..." otherwise: a chain of short options; the first one that takes an argument
                 (or is unknown) takes the remainder of the element as its argument
     Word        anything else ("" and "-" included): a non-option argument; ends scanning iff cfg.bsd
   Arguments: "req" takes the attached text ("-oARG", "--long=ARG", also when ARG is empty for the
   long form) or else the next element; "opt" only attached text; "no" none.  An unknown option is
   reported with spec 0 and treated as taking an optional argument (package doc of Complete).

   Parse(args)    = the final state; error iff an option is pending or an unknown option was seen.
   Complete(args) = the state after all but the last element, and the context of the last.

   Unspecified (the property statement and the documents leave these open; the executor does not
   compare the prescribed result for them, only SaneResult is required):
    (1) "--name=value" for an option that takes no argument (GNU: error; the package: keeps it).
    (2) a long name that is a proper prefix of a specified long name (GNU/BSD accept unique
        abbreviations; the package documentation does not mention them).
    (3) "--" when cfg.dd is off: both "plain non-option word" (variant "word", what the code does)
        and "unknown long option with the empty name" (variant "long") are accepted.
    (4) for Parse only: what follows an unknown short option inside the same element (GNU goes on
        with the chain, the package takes it as the optional argument); Parse reports an error
        either way.  Complete documents the choice, so it is prescribed there.
    (5) the completion context of a last element "--" when cfg.dd is off.
   Out of model: specs with repeated short or long names, long names containing "=", short
   options "-" or "=".                                                                         *)
EXTENDS Integers, Sequences, FiniteSets

Dash    == 45
Eq      == 61
NoShort == -1

HasPrefix(s, p) == Len(s) >= Len(p) /\ SubSeq(s, 1, Len(p)) = p
Drop(s, n)      == SubSeq(s, n + 1, Len(s))
Front(s)        == SubSeq(s, 1, Len(s) - 1)
IndexOf(s, c)   == IF \E i \in 1..Len(s) : s[i] = c
                   THEN CHOOSE i \in 1..Len(s) : s[i] = c /\ \A j \in 1..(i - 1) : s[j] # c
                   ELSE 0

WellFormedSpecs(specs) ==
  /\ \A k \in 1..Len(specs) :
        /\ specs[k].arity \in {"no", "req", "opt"}
        /\ specs[k].short # NoShort \/ specs[k].long # <<>>
        /\ specs[k].short \notin {Dash, Eq}
        /\ IndexOf(specs[k].long, Eq) = 0
  /\ \A k, l \in 1..Len(specs) : k # l =>
        /\ specs[k].short = NoShort \/ specs[k].short # specs[l].short
        /\ specs[k].long = <<>> \/ specs[k].long # specs[l].long

FindShort(specs, c) ==
  IF \E k \in 1..Len(specs) : specs[k].short = c
  THEN CHOOSE k \in 1..Len(specs) : specs[k].short = c /\ \A l \in 1..(k - 1) : specs[l].short # c
  ELSE 0
FindLong(specs, name) ==
  IF name # <<>> /\ \E k \in 1..Len(specs) : specs[k].long = name
  THEN CHOOSE k \in 1..Len(specs) : specs[k].long = name /\ \A l \in 1..(k - 1) : specs[l].long # name
  ELSE 0

Opt(k, isLong, name, arg) == [spec |-> k, long |-> isLong, name |-> name, arg |-> arg]
ArityOf(specs, o) == IF o.spec = 0 THEN "opt" ELSE specs[o.spec].arity

(* ---- one long option: body is the text after the dashes.
        Result [opts (one option), need (it waits for the next element), unspec] *)
LongName(body) == LET e == IndexOf(body, Eq) IN IF e = 0 THEN body ELSE SubSeq(body, 1, e - 1)
LongHasVal(body) == IndexOf(body, Eq) # 0
LongVal(body)  == LET e == IndexOf(body, Eq) IN IF e = 0 THEN <<>> ELSE Drop(body, e)
IsAbbrev(specs, name) == \E k \in 1..Len(specs) :
                            specs[k].long # <<>> /\ specs[k].long # name /\ HasPrefix(specs[k].long, name)
LongTok(body, specs) ==
  LET name == LongName(body)
      k    == FindLong(specs, name)
  IN  IF k = 0
      THEN [opts |-> <<Opt(0, TRUE, name, LongVal(body))>>, need |-> FALSE,
            unspec |-> IsAbbrev(specs, name)]                                  \* Unspecified (2)
      ELSE [opts |-> <<Opt(k, TRUE, name, LongVal(body))>>,
            need |-> specs[k].arity = "req" /\ ~LongHasVal(body),
            unspec |-> specs[k].arity = "no" /\ LongHasVal(body)]              \* Unspecified (1)

\* The package reports the name of a short option as a rune: a byte that is not valid UTF-8 can
\* only be reported as U+FFFD.
MaxRune == 1114111
ShortName(c) == IF c > MaxRune THEN 65533 ELSE c

(* ---- a chain of short options: body is the text after the dash (non-empty), from position j.
        When need holds the last option of opts is the pending one. unkrest: Unspecified (4) *)
RECURSIVE ShortFrom(_, _, _)
ShortFrom(body, j, specs) ==
  LET c    == body[j]
      k    == FindShort(specs, c)
      tail == Drop(body, j)
  IN  IF k # 0 /\ specs[k].arity = "no"
      THEN IF j = Len(body)
           THEN [opts |-> <<Opt(k, FALSE, <<c>>, <<>>)>>, need |-> FALSE, unkrest |-> FALSE]
           ELSE LET r == ShortFrom(body, j + 1, specs)
                IN  [opts |-> <<Opt(k, FALSE, <<c>>, <<>>)>> \o r.opts, need |-> r.need, unkrest |-> r.unkrest]
      ELSE IF k # 0
      THEN [opts |-> <<Opt(k, FALSE, <<c>>, tail)>>,
            need |-> specs[k].arity = "req" /\ tail = <<>>, unkrest |-> FALSE]
      ELSE [opts |-> <<Opt(0, FALSE, <<ShortName(c)>>, tail)>>, need |-> FALSE, unkrest |-> tail # <<>>]
ShortTok(body, specs) == ShortFrom(body, 1, specs)

(* ---- the scanner ---- *)
Init0 == [opts |-> <<>>, rest |-> <<>>, pend |-> <<>>, stop |-> FALSE, unspec |-> FALSE, unk4 |-> FALSE]

Actions == {"TakeArg", "NonOptAfter", "Terminator", "DDNoBit", "Long", "Short", "Word"}

DD == <<Dash, Dash>>
LooksLong2(arg)  == HasPrefix(arg, DD) /\ arg # DD
LooksDash1(arg)  == Len(arg) >= 2 /\ arg[1] = Dash /\ arg[2] # Dash

Guard(a, st, arg, cfg) ==
  CASE a = "TakeArg"     -> st.pend # <<>>
    [] a = "NonOptAfter" -> st.pend = <<>> /\ st.stop
    [] a = "Terminator"  -> st.pend = <<>> /\ ~st.stop /\ arg = DD /\ cfg.dd
    [] a = "DDNoBit"     -> st.pend = <<>> /\ ~st.stop /\ arg = DD /\ ~cfg.dd
    [] a = "Long"        -> st.pend = <<>> /\ ~st.stop /\ (LooksLong2(arg) \/ (cfg.lo /\ LooksDash1(arg)))
    [] a = "Short"       -> st.pend = <<>> /\ ~st.stop /\ ~cfg.lo /\ LooksDash1(arg)
    [] a = "Word"        -> st.pend = <<>> /\ ~st.stop /\ (Len(arg) < 2 \/ arg[1] # Dash)

ActionOf(st, arg, cfg) == CHOOSE a \in Actions : Guard(a, st, arg, cfg)

WithTok(st, r, u, u4) ==
  IF r.need
  THEN [st EXCEPT !.opts = st.opts \o Front(r.opts), !.pend = <<r.opts[Len(r.opts)]>>,
                  !.unspec = st.unspec \/ u, !.unk4 = st.unk4 \/ u4]
  ELSE [st EXCEPT !.opts = st.opts \o r.opts, !.unspec = st.unspec \/ u, !.unk4 = st.unk4 \/ u4]

\* ddv \in {"word", "long"}: the variant of Unspecified (3).
Do(a, st, arg, specs, cfg, ddv) ==
  CASE a = "TakeArg"     -> [st EXCEPT !.opts = Append(st.opts, [st.pend[1] EXCEPT !.arg = arg]), !.pend = <<>>]
    [] a = "NonOptAfter" -> [st EXCEPT !.rest = Append(st.rest, arg)]
    [] a = "Terminator"  -> [st EXCEPT !.stop = TRUE]
    [] a = "DDNoBit"     -> IF ddv = "word"
                            THEN [st EXCEPT !.rest = Append(st.rest, arg), !.stop = cfg.bsd]
                            ELSE [st EXCEPT !.opts = Append(st.opts, Opt(0, TRUE, <<>>, <<>>))]
    [] a = "Long"        -> LET body == IF HasPrefix(arg, DD) THEN Drop(arg, 2) ELSE Drop(arg, 1)
                                r    == LongTok(body, specs)
                            IN  WithTok(st, r, r.unspec, FALSE)
    [] a = "Short"       -> LET r == ShortTok(Drop(arg, 1), specs)
                            IN  WithTok(st, r, FALSE, r.unkrest)
    [] a = "Word"        -> [st EXCEPT !.rest = Append(st.rest, arg), !.stop = cfg.bsd]

Step(st, arg, specs, cfg, ddv) == Do(ActionOf(st, arg, cfg), st, arg, specs, cfg, ddv)

RECURSIVE ScanFrom(_, _, _, _, _, _)
ScanFrom(st, args, i, specs, cfg, ddv) ==
  IF i > Len(args) THEN st
  ELSE ScanFrom(Step(st, args[i], specs, cfg, ddv), args, i + 1, specs, cfg, ddv)
Scan(args, specs, cfg, ddv) == ScanFrom(Init0, args, 1, specs, cfg, ddv)

HasUnknown(opts) == \E i \in 1..Len(opts) : opts[i].spec = 0

(* ---- Parse: what getopt.Parse must return ---- *)
ParseOf(st) == [opts |-> st.opts, rest |-> st.rest,
                err |-> st.pend # <<>> \/ HasUnknown(st.opts),
                unspec |-> st.unspec \/ st.unk4]
Parse(args, specs, cfg, ddv) == ParseOf(Scan(args, specs, cfg, ddv))

(* ---- Complete: state before the last element + context of the last element.
   ctx = [type, opt (<<>> or <<o>>), text]; extra = options contributed by the last element
   itself (a chain of short options): the documents do not say whether they are part of the
   returned options, so both are accepted by the executor. ---- *)
Ctx(type, opt, text) == [type |-> type, opt |-> opt, text |-> text]
NoExtra == <<>>

LastCtx(st, last, specs, cfg) ==
  IF st.pend # <<>> THEN [ctx |-> Ctx("OptionArgument", <<[st.pend[1] EXCEPT !.arg = last]>>, <<>>), extra |-> NoExtra, unspec |-> FALSE]
  ELSE IF st.stop THEN [ctx |-> Ctx("Argument", <<>>, last), extra |-> NoExtra, unspec |-> FALSE]
  ELSE IF last = <<>> THEN [ctx |-> Ctx("OptionOrArgument", <<>>, <<>>), extra |-> NoExtra, unspec |-> FALSE]
  ELSE IF last = <<Dash>> THEN [ctx |-> Ctx("AnyOption", <<>>, <<>>), extra |-> NoExtra, unspec |-> FALSE]
  ELSE IF HasPrefix(last, DD) \/ (cfg.lo /\ last[1] = Dash)
  THEN LET body == IF HasPrefix(last, DD) THEN Drop(last, 2) ELSE Drop(last, 1)
       IN  IF ~LongHasVal(body)
           THEN [ctx |-> Ctx("LongOption", <<>>, body), extra |-> NoExtra,
                 unspec |-> last = DD /\ ~cfg.dd]                               \* Unspecified (5)
           ELSE LET r == LongTok(body, specs)
                IN  [ctx |-> Ctx("OptionArgument", r.opts, <<>>), extra |-> NoExtra, unspec |-> r.unspec]
  ELSE IF last[1] = Dash
  THEN LET r == ShortTok(Drop(last, 1), specs)
           o == r.opts[Len(r.opts)]
       IN  IF ArityOf(specs, o) = "no"
           THEN [ctx |-> Ctx("ChainShortOption", <<>>, <<>>), extra |-> r.opts, unspec |-> FALSE]
           ELSE [ctx |-> Ctx("OptionArgument", <<o>>, <<>>), extra |-> Front(r.opts), unspec |-> FALSE]
  ELSE [ctx |-> Ctx("Argument", <<>>, last), extra |-> NoExtra, unspec |-> FALSE]

\* from the state reached on all but the last element
CompleteOf(before, last, specs, cfg) ==
  LET lc == LastCtx(before, last, specs, cfg)
  IN  [opts |-> before.opts, extra |-> lc.extra, rest |-> before.rest, ctx |-> lc.ctx,
       unspec |-> before.unspec \/ lc.unspec]
Complete(args, specs, cfg, ddv) ==
  CompleteOf(Scan(Front(args), specs, cfg, ddv), args[Len(args)], specs, cfg)

(* ---- what edit:complete-getopt (always GNU configuration) lets a caller observe of a completion:
   the argument handler called (its position = number of non-option arguments before, and the
   text), the option completer called (which option, the partial argument), or the option
   candidates offered (their stems, in spec order). ---- *)
RECURSIVE StemsFrom(_, _, _, _, _)
StemsFrom(specs, k, wantShort, wantLong, prefix) ==
  IF k > Len(specs) THEN <<>>
  ELSE (IF wantShort /\ specs[k].short # NoShort THEN <<<<Dash, specs[k].short>>>> ELSE <<>>)
       \o (IF wantLong /\ specs[k].long # <<>> /\ HasPrefix(specs[k].long, prefix) THEN <<DD \o specs[k].long>> ELSE <<>>)
       \o StemsFrom(specs, k + 1, wantShort, wantLong, prefix)
CompleteGetoptObs(comp, specs) ==
  LET t == comp.ctx.type IN
  IF t \in {"Argument", "OptionOrArgument"} THEN <<"arg", Len(comp.rest), comp.ctx.text>>
  ELSE IF t = "OptionArgument"
  THEN LET o == comp.ctx.opt[1] IN IF o.spec = 0 THEN <<"stems", <<>>>> ELSE <<"optarg", o.spec, o.arg>>
  ELSE IF t = "AnyOption" THEN <<"stems", StemsFrom(specs, 1, TRUE, TRUE, <<>>)>>
  ELSE IF t = "LongOption" THEN <<"stems", StemsFrom(specs, 1, FALSE, TRUE, comp.ctx.text)>>
  ELSE <<"stems", StemsFrom(specs, 1, TRUE, FALSE, <<>>)>>

(* ---- what every result must satisfy, also in Unspecified cases ---- *)
RECURSIVE IsSubseqFrom(_, _, _, _)
IsSubseqFrom(a, i, b, j) ==      \* a[i..] is a subsequence of b[j..]
  IF i > Len(a) THEN TRUE
  ELSE IF j > Len(b) THEN FALSE
  ELSE IF a[i] = b[j] THEN IsSubseqFrom(a, i + 1, b, j + 1) ELSE IsSubseqFrom(a, i, b, j + 1)
IsSubseq(a, b) == IsSubseqFrom(a, 1, b, 1)

SaneOpt(o, specs, cfg) ==
  /\ o.spec \in 0..Len(specs)
  /\ o.spec # 0 => IF o.long THEN specs[o.spec].long # <<>> ELSE specs[o.spec].short # NoShort
  /\ cfg.lo => o.long
SaneResult(opts, rest, args, specs, cfg) ==
  /\ \A i \in 1..Len(opts) : SaneOpt(opts[i], specs, cfg)
  /\ IsSubseq(rest, args)
=============================================================================
