------------------------------- MODULE Getopt -------------------------------
(* C38 -- option scanning in the style of GNU/BSD getopt_long, as selected by the configuration
   bits of src.elv.sh/pkg/getopt (package documentation, website/ref/flag.md "Getopt convention").

   Texts are sequences of characters; a character is an integer (its code point; bytes that are
   not valid UTF-8 are integers above the Unicode range).  Dash = '-', Eq = '='.

   Configuration  cfg = [dd, bsd, lo]:
     dd   StopAfterDoubleDash        "--" ends option scanning
     bsd  StopBeforeFirstNonOption   the first non-option argument ends option scanning
     lo   LongOnly                   "-name" is a long option; there are no short options
   Option specs: a sequence of [short |-> char or NoShort, long |-> text or <<>>, arity |-> no|req|opt].

   The scanner is a state machine over the argument list.  State
       [opts, rest, pend, stop, unspec, fdd, funk, fabbr]
   opts  = options recognised so far, each [spec |-> index into specs, 0 = unknown,
           long |-> written in long form, name |-> the name as written, arg |-> its argument]
   rest  = non-option arguments so far
   pend  = <<>> or <<o>>: an option with a required argument still waiting for the next element
   stop  = option scanning has ended
   unspec, fdd, funk, fabbr = sticky flags: an Unspecified case (1) / (3) / (4) / (2) was met
   One action per argument; which one is decided by Guard:
     TakeArg     pend # <<>>: the element, whatever it is, is the argument of the pending option
     NonOptAfter stop: the element is a non-option argument
     Terminator  "--" with cfg.dd: ends option scanning, is dropped
     DDNoBit     "--" without cfg.dd: see Unspecified (3)
     Long        "--x..."; or "-x..." (x # "-") under cfg.lo: one long option, "name" or "name=value"
     Short       "-x..." otherwise: a chain of short options; the first one that takes an argument
                 takes the remainder of the element as its argument
     Word        anything else ("" and "-" included): a non-option argument; ends scanning iff cfg.bsd
   Arguments: "req" takes the attached text ("-oARG", "--long=ARG", also when ARG is empty for the
   long form) or else the next element; "opt" only attached text; "no" none.  An unknown option is
   reported with spec 0 and treated as taking an optional argument (package doc of Complete).

   Parse(args)    = the final state; error iff an option is pending or an unknown option was seen.
   Complete(args) = the state after all but the last element, and the context of the last.

   Unspecified: the property statement and the documents leave these open.  (2), (3), (4) are
   VARIANTS: the scanner takes a variant record v = [dd, unk, abbr] and a result is accepted when
   it is the prescribed one under some variant.  V0 is what the package does.
    (1) "--name=value" for an option that takes no argument (GNU: error; the package: keeps the
        value).  Sets `unspec`: only SaneResult is required of the result.
    (2) a long name that is a proper prefix of specified long names: v.abbr = "no": an unknown
        option (the package); "yes": the abbreviated option if it is unique (GNU/BSD), and
        `unspec` if it is ambiguous.
    (3) "--" when cfg.dd is off: v.dd = "word": a plain non-option word (the package);
        "long": an unknown long option with the empty name.
    (4) for Parse only: what follows an unknown short option inside the same element:
        v.unk = "arg": its optional argument (the package); "chain": further short options (GNU).
        Parse reports an error either way.  Complete documents "arg", which is prescribed there.
    (5) the completion context of a last element "--" when cfg.dd is off: `unspec`.
   Out of model: specs with repeated short or long names, long names containing "=", short
   options "-" or "=".                                                                         *)
EXTENDS Integers, Sequences, FiniteSets

Dash    == 45
Eq      == 61
NoShort == -1

HasPrefix(s, p) == Len(s) >= Len(p) /\ SubSeq(s, 1, Len(p)) = p
Drop(s, n)      == SubSeq(s, n + 1, Len(s))
Front(s)        == SubSeq(s, 1, Len(s) - 1)
IndexOf(s, c)   == IF \E i \in 1..Len(s) : s[i] = c
                   THEN CHOOSE i \in 1..Len(s) : s[i] = c /\ \A j \in 1..(i - 1) : s[j] # c
                   ELSE 0

WellFormedSpecs(specs) ==
  /\ \A k \in 1..Len(specs) :
        /\ specs[k].arity \in {"no", "req", "opt"}
        /\ specs[k].short # NoShort \/ specs[k].long # <<>>
        /\ specs[k].short \notin {Dash, Eq}
        /\ IndexOf(specs[k].long, Eq) = 0
  /\ \A k, l \in 1..Len(specs) : k # l =>
        /\ specs[k].short = NoShort \/ specs[k].short # specs[l].short
        /\ specs[k].long = <<>> \/ specs[k].long # specs[l].long

V0 == [dd |-> "word", unk |-> "arg", abbr |-> "no"]
AllVariants == [dd : {"word", "long"}, unk : {"arg", "chain"}, abbr : {"no", "yes"}]

FindShort(specs, c) ==
  IF \E k \in 1..Len(specs) : specs[k].short = c
  THEN CHOOSE k \in 1..Len(specs) : specs[k].short = c /\ \A l \in 1..(k - 1) : specs[l].short # c
  ELSE 0
FindLong(specs, name) ==
  IF name # <<>> /\ \E k \in 1..Len(specs) : specs[k].long = name
  THEN CHOOSE k \in 1..Len(specs) : specs[k].long = name /\ \A l \in 1..(k - 1) : specs[l].long # name
  ELSE 0

Opt(k, isLong, name, arg) == [spec |-> k, long |-> isLong, name |-> name, arg |-> arg]
ArityOf(specs, o) == IF o.spec = 0 THEN "opt" ELSE specs[o.spec].arity

(* ---- one long option: body is the text after the dashes.
        Result [opts (one option), need (it waits for the next element), unspec, abbr] *)
LongName(body)   == LET e == IndexOf(body, Eq) IN IF e = 0 THEN body ELSE SubSeq(body, 1, e - 1)
LongHasVal(body) == IndexOf(body, Eq) # 0
LongVal(body)    == LET e == IndexOf(body, Eq) IN IF e = 0 THEN <<>> ELSE Drop(body, e)
Abbreviated(specs, name) == {k \in 1..Len(specs) :
                               specs[k].long # <<>> /\ specs[k].long # name /\ HasPrefix(specs[k].long, name)}
LongTok(body, specs, v) ==
  LET e     == IndexOf(body, Eq)
      name  == IF e = 0 THEN body ELSE SubSeq(body, 1, e - 1)
      val   == IF e = 0 THEN <<>> ELSE Drop(body, e)
      hasv  == e # 0
      exact == FindLong(specs, name)
      ab    == Abbreviated(specs, name)
      k     == IF exact # 0 THEN exact
               ELSE IF v.abbr = "yes" /\ Cardinality(ab) = 1 THEN CHOOSE j \in ab : TRUE
               ELSE 0
      isAb  == exact = 0 /\ ab # {}
  IN  IF k = 0
      THEN [opts |-> <<Opt(0, TRUE, name, val)>>, need |-> FALSE,
            unspec |-> isAb /\ v.abbr = "yes", abbr |-> isAb]                  \* ambiguous under (2)
      ELSE [opts |-> <<Opt(k, TRUE, specs[k].long, val)>>,                     \* reported under its full name
            need |-> specs[k].arity = "req" /\ ~hasv,
            unspec |-> specs[k].arity = "no" /\ hasv,                          \* Unspecified (1)
            abbr |-> isAb]

\* The package reports the name of a short option as a rune: a byte that is not valid UTF-8 can
\* only be reported as U+FFFD.
MaxRune == 1114111
ShortName(c) == IF c > MaxRune THEN 65533 ELSE c

(* ---- a chain of short options: body is the text after the dash (non-empty), from position j.
        When need holds the last option of opts is the pending one. unkrest: Unspecified (4) met *)
RECURSIVE ShortFrom(_, _, _, _)
ShortFrom(body, j, specs, v) ==
  LET c    == body[j]
      k    == FindShort(specs, c)
      tail == Drop(body, j)
  IN  IF k # 0 /\ specs[k].arity = "no"
      THEN IF j = Len(body)
           THEN [opts |-> <<Opt(k, FALSE, <<c>>, <<>>)>>, need |-> FALSE, unkrest |-> FALSE]
           ELSE LET r == ShortFrom(body, j + 1, specs, v)
                IN  [opts |-> <<Opt(k, FALSE, <<c>>, <<>>)>> \o r.opts, need |-> r.need, unkrest |-> r.unkrest]
      ELSE IF k # 0
      THEN [opts |-> <<Opt(k, FALSE, <<c>>, tail)>>,
            need |-> specs[k].arity = "req" /\ tail = <<>>, unkrest |-> FALSE]
      ELSE IF v.unk = "chain" /\ tail # <<>>
      THEN LET r == ShortFrom(body, j + 1, specs, v)
           IN  [opts |-> <<Opt(0, FALSE, <<ShortName(c)>>, <<>>)>> \o r.opts, need |-> r.need, unkrest |-> TRUE]
      ELSE [opts |-> <<Opt(0, FALSE, <<ShortName(c)>>, tail)>>, need |-> FALSE, unkrest |-> tail # <<>>]
ShortTok(body, specs, v) == ShortFrom(body, 1, specs, v)

(* ---- the scanner ---- *)
Init0 == [opts |-> <<>>, rest |-> <<>>, pend |-> <<>>, stop |-> FALSE,
          unspec |-> FALSE, fdd |-> FALSE, funk |-> FALSE, fabbr |-> FALSE]

Actions == {"TakeArg", "NonOptAfter", "Terminator", "DDNoBit", "Long", "Short", "Word"}

DD == <<Dash, Dash>>
StartsDD(arg)    == Len(arg) >= 2 /\ arg[1] = Dash /\ arg[2] = Dash
LooksLong2(arg)  == Len(arg) >= 3 /\ arg[1] = Dash /\ arg[2] = Dash
LooksDash1(arg)  == Len(arg) >= 2 /\ arg[1] = Dash /\ arg[2] # Dash

Guard(a, st, arg, cfg) ==
  CASE a = "TakeArg"     -> st.pend # <<>>
    [] a = "NonOptAfter" -> st.pend = <<>> /\ st.stop
    [] a = "Terminator"  -> st.pend = <<>> /\ ~st.stop /\ arg = DD /\ cfg.dd
    [] a = "DDNoBit"     -> st.pend = <<>> /\ ~st.stop /\ arg = DD /\ ~cfg.dd
    [] a = "Long"        -> st.pend = <<>> /\ ~st.stop /\ (LooksLong2(arg) \/ (cfg.lo /\ LooksDash1(arg)))
    [] a = "Short"       -> st.pend = <<>> /\ ~st.stop /\ ~cfg.lo /\ LooksDash1(arg)
    [] a = "Word"        -> st.pend = <<>> /\ ~st.stop /\ (Len(arg) < 2 \/ arg[1] # Dash)

\* the same decision as a cascade (MCGetopt checks that it agrees with Guard and that exactly one
\* guard holds)
ActionOf(st, arg, cfg) ==
  IF st.pend # <<>> THEN "TakeArg"
  ELSE IF st.stop THEN "NonOptAfter"
  ELSE IF Len(arg) < 2 \/ arg[1] # Dash THEN "Word"
  ELSE IF arg[2] = Dash THEN (IF Len(arg) > 2 THEN "Long" ELSE IF cfg.dd THEN "Terminator" ELSE "DDNoBit")
  ELSE IF cfg.lo THEN "Long" ELSE "Short"

WithTok(st, r) ==
  IF r.need
  THEN [st EXCEPT !.opts = st.opts \o Front(r.opts), !.pend = <<r.opts[Len(r.opts)]>>]
  ELSE [st EXCEPT !.opts = st.opts \o r.opts]

Do(a, st, arg, specs, cfg, v) ==
  CASE a = "TakeArg"     -> [st EXCEPT !.opts = Append(st.opts, [st.pend[1] EXCEPT !.arg = arg]), !.pend = <<>>]
    [] a = "NonOptAfter" -> [st EXCEPT !.rest = Append(st.rest, arg)]
    [] a = "Terminator"  -> [st EXCEPT !.stop = TRUE]
    [] a = "DDNoBit"     -> IF v.dd = "word"
                            THEN [st EXCEPT !.rest = Append(st.rest, arg), !.stop = cfg.bsd, !.fdd = TRUE]
                            ELSE [st EXCEPT !.opts = Append(st.opts, Opt(0, TRUE, <<>>, <<>>)), !.fdd = TRUE]
    [] a = "Long"        -> LET body == IF arg[2] = Dash THEN Drop(arg, 2) ELSE Drop(arg, 1)
                                r    == LongTok(body, specs, v)
                                s1   == WithTok(st, r)
                            IN  [s1 EXCEPT !.unspec = st.unspec \/ r.unspec, !.fabbr = st.fabbr \/ r.abbr]
    [] a = "Short"       -> LET r  == ShortTok(Drop(arg, 1), specs, v)
                                s1 == WithTok(st, r)
                            IN  [s1 EXCEPT !.funk = st.funk \/ r.unkrest]
    [] a = "Word"        -> [st EXCEPT !.rest = Append(st.rest, arg), !.stop = cfg.bsd]

Step(st, arg, specs, cfg, v) == Do(ActionOf(st, arg, cfg), st, arg, specs, cfg, v)

RECURSIVE ScanFrom(_, _, _, _, _, _)
ScanFrom(st, args, i, specs, cfg, v) ==
  IF i > Len(args) THEN st
  ELSE ScanFrom(Step(st, args[i], specs, cfg, v), args, i + 1, specs, cfg, v)
Scan(args, specs, cfg, v) == ScanFrom(Init0, args, 1, specs, cfg, v)

HasUnknown(opts) == \E i \in 1..Len(opts) : opts[i].spec = 0

\* The variants that can make a difference, given the flags of the scan under V0 (the first
\* point where two variants part is a flagged element of the V0 scan).
VariantsFor(st0, forParse) ==
  [dd   : IF st0.fdd THEN {"word", "long"} ELSE {"word"},
   unk  : IF st0.funk /\ forParse THEN {"arg", "chain"} ELSE {"arg"},
   abbr : IF st0.fabbr THEN {"no", "yes"} ELSE {"no"}]

(* ---- Parse: what getopt.Parse must return ---- *)
ParseOf(st) == [opts |-> st.opts, rest |-> st.rest,
                err |-> st.pend # <<>> \/ HasUnknown(st.opts),
                unspec |-> st.unspec]
Parse(args, specs, cfg, v) == ParseOf(Scan(args, specs, cfg, v))
\* all accepted results; if one of them is unspec the case is Unspecified
ParseResultsOf(st0, args, specs, cfg) ==
  IF st0.fdd \/ st0.funk \/ st0.fabbr
  THEN {Parse(args, specs, cfg, v) : v \in VariantsFor(st0, TRUE)}
  ELSE {ParseOf(st0)}
ParseResults(args, specs, cfg) == ParseResultsOf(Scan(args, specs, cfg, V0), args, specs, cfg)

(* ---- Complete: state before the last element + context of the last element.
   ctx = [type, opt (<<>> or <<o>>), text]; extra = options contributed by the last element
   itself (a chain of short options): the documents do not say whether they are part of the
   returned options, so both are accepted by the executor. ---- *)
Ctx(type, opt, text) == [type |-> type, opt |-> opt, text |-> text]
NoExtra == <<>>
LC(ctx, extra, unspec, abbr) == [ctx |-> ctx, extra |-> extra, unspec |-> unspec, abbr |-> abbr]

LastCtx(st, last, specs, cfg, v) ==
  IF st.pend # <<>> THEN LC(Ctx("OptionArgument", <<[st.pend[1] EXCEPT !.arg = last]>>, <<>>), NoExtra, FALSE, FALSE)
  ELSE IF st.stop THEN LC(Ctx("Argument", <<>>, last), NoExtra, FALSE, FALSE)
  ELSE IF last = <<>> THEN LC(Ctx("OptionOrArgument", <<>>, <<>>), NoExtra, FALSE, FALSE)
  ELSE IF last = <<Dash>> THEN LC(Ctx("AnyOption", <<>>, <<>>), NoExtra, FALSE, FALSE)
  ELSE IF StartsDD(last) \/ (cfg.lo /\ last[1] = Dash)
  THEN LET body == IF StartsDD(last) THEN Drop(last, 2) ELSE Drop(last, 1)
       IN  IF ~LongHasVal(body)
           THEN LC(Ctx("LongOption", <<>>, body), NoExtra, last = DD /\ ~cfg.dd, FALSE)   \* Unspecified (5)
           ELSE LET r == LongTok(body, specs, v)
                IN  LC(Ctx("OptionArgument", r.opts, <<>>), NoExtra, r.unspec, r.abbr)
  ELSE IF last[1] = Dash
  THEN LET r == ShortTok(Drop(last, 1), specs, [v EXCEPT !.unk = "arg"])
           o == r.opts[Len(r.opts)]
       IN  IF ArityOf(specs, o) = "no"
           THEN LC(Ctx("ChainShortOption", <<>>, <<>>), r.opts, FALSE, FALSE)
           ELSE LC(Ctx("OptionArgument", <<o>>, <<>>), Front(r.opts), FALSE, FALSE)
  ELSE LC(Ctx("Argument", <<>>, last), NoExtra, FALSE, FALSE)

\* from the state reached on all but the last element
CompleteOf(before, last, specs, cfg, v) ==
  LET lc == LastCtx(before, last, specs, cfg, v)
  IN  [opts |-> before.opts, extra |-> lc.extra, rest |-> before.rest, ctx |-> lc.ctx,
       unspec |-> before.unspec \/ lc.unspec, fabbr |-> before.fabbr \/ lc.abbr]
Complete(args, specs, cfg, v) ==
  CompleteOf(Scan(Front(args), specs, cfg, v), args[Len(args)], specs, cfg, v)
\* before0 = Scan(Front(args)) under V0
CompleteResultsOf(before0, args, specs, cfg) ==
  LET c0 == CompleteOf(before0, args[Len(args)], specs, cfg, V0)
  IN  IF before0.fdd \/ c0.fabbr
      THEN {Complete(args, specs, cfg, v) : v \in VariantsFor([before0 EXCEPT !.fabbr = c0.fabbr], FALSE)}
      ELSE {c0}
CompleteResults(args, specs, cfg) == CompleteResultsOf(Scan(Front(args), specs, cfg, V0), args, specs, cfg)

(* ---- what edit:complete-getopt (always GNU configuration) lets a caller observe of a completion:
   the argument handler called (its position = number of non-option arguments before, and the
   text), the option completer called (which option, the partial argument), or the option
   candidates offered (their stems, in spec order). ---- *)
RECURSIVE StemsFrom(_, _, _, _, _)
StemsFrom(specs, k, wantShort, wantLong, prefix) ==
  IF k > Len(specs) THEN <<>>
  ELSE (IF wantShort /\ specs[k].short # NoShort THEN <<<<Dash, specs[k].short>>>> ELSE <<>>)
       \o (IF wantLong /\ specs[k].long # <<>> /\ HasPrefix(specs[k].long, prefix) THEN <<DD \o specs[k].long>> ELSE <<>>)
       \o StemsFrom(specs, k + 1, wantShort, wantLong, prefix)
CompleteGetoptObs(comp, specs) ==
  LET t == comp.ctx.type IN
  IF t \in {"Argument", "OptionOrArgument"} THEN <<"arg", Len(comp.rest), comp.ctx.text>>
  ELSE IF t = "OptionArgument"
  THEN LET o == comp.ctx.opt[1] IN IF o.spec = 0 THEN <<"stems", <<>>>> ELSE <<"optarg", o.spec, o.arg>>
  ELSE IF t = "AnyOption" THEN <<"stems", StemsFrom(specs, 1, TRUE, TRUE, <<>>)>>
  ELSE IF t = "LongOption" THEN <<"stems", StemsFrom(specs, 1, FALSE, TRUE, comp.ctx.text)>>
  ELSE <<"stems", StemsFrom(specs, 1, TRUE, FALSE, <<>>)>>

(* ---- what every result must satisfy, also in Unspecified cases ---- *)
RECURSIVE IsSubseqFrom(_, _, _, _)
IsSubseqFrom(a, i, b, j) ==      \* a[i..] is a subsequence of b[j..]
  IF i > Len(a) THEN TRUE
  ELSE IF j > Len(b) THEN FALSE
  ELSE IF a[i] = b[j] THEN IsSubseqFrom(a, i + 1, b, j + 1) ELSE IsSubseqFrom(a, i, b, j + 1)
IsSubseq(a, b) == IsSubseqFrom(a, 1, b, 1)

SaneOpt(o, specs, cfg) ==
  /\ o.spec \in 0..Len(specs)
  /\ o.spec # 0 => IF o.long THEN specs[o.spec].long # <<>> ELSE specs[o.spec].short # NoShort
  /\ cfg.lo => o.long
SaneResult(opts, rest, args, specs, cfg) ==
  /\ \A i \in 1..Len(opts) : SaneOpt(opts[i], specs, cfg)
  /\ IsSubseq(rest, args)
=============================================================================
