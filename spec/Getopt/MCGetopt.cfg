CONSTANT MaxLen = 2
CONSTANT PoolSel = "full"
CONSTANT SpecLo = 1
CONSTANT SpecHi = 30
INIT Init
NEXT Next
INVARIANT SpecsOK
INVARIANT OneAction
INVARIANT ScanAgrees
INVARIANT RestIsNonOptions
INVARIANT StopIsFinal
INVARIANT PendingOK
INVARIANT Accounting
INVARIANT GNUPermutation
INVARIANT BSDSuffix
INVARIANT CompleteIsParse
INVARIANT Emit
