\* M: the design invariants of the scanner (the executor rewrites the constants per tier)
CONSTANT MaxLen = 3
CONSTANT PoolSel = "small"
CONSTANT SpecNums = {1, 15, 26}
INIT Init
NEXT Next
INVARIANT SpecsOK
INVARIANT OneAction
INVARIANT ScanAgrees
INVARIANT RestIsNonOptions
INVARIANT StopIsFinal
INVARIANT PendingOK
INVARIANT Accounting
INVARIANT GNUPermutation
INVARIANT BSDSuffix
INVARIANT CompleteIsParse
