---------------------------- MODULE JudgeGetopt ----------------------------
(* V half of C38: recorded results of getopt.Parse / getopt.Complete on random, longer argument
   lists (and on the generated cases that are Unspecified), judged against Getopt.tla.
   A case: [g     |-> configuration bits dd + 2*bsd + 4*lo,
            specs |-> sequence of [short, long, arity],
            a     |-> the argument list,
            pan   |-> the call panicked,
            hp, p |-> Parse was called; <<opts, rest, err>>                 (option = <<spec, long, name, arg>>)
            hc, c |-> Complete was called; <<opts, rest, ctxType, ctxOpt, ctxText>>]
   Accepted: the result prescribed under one of the variants of Unspecified (2)-(4); when the
   case is Unspecified ((1), (5), ambiguous abbreviation), any result that satisfies SaneResult. *)
EXTENDS Getopt, TLC, Json
Cases == ndJsonDeserialize("cases.ndjson")
VARIABLE k
Init == k = 0
Next == k < Len(Cases) /\ k' = k + 1

CfgOf(g) == [dd |-> g % 2 = 1, bsd |-> (g \div 2) % 2 = 1, lo |-> (g \div 4) % 2 = 1]
OptT(o) == <<o.spec, o.long, o.name, o.arg>>
OptsT(os) == [i \in 1..Len(os) |-> OptT(os[i])]
OptR(t) == Opt(t[1], t[2], t[3], t[4])
OptsR(ts) == [i \in 1..Len(ts) |-> OptR(ts[i])]

ParseOK(c) ==
  LET cfg == CfgOf(c.g)
      rs  == ParseResults(c.a, c.specs, cfg)
  IN  IF \E e \in rs : e.unspec THEN SaneResult(OptsR(c.p[1]), c.p[2], c.a, c.specs, cfg)
      ELSE \E e \in rs : c.p = <<OptsT(e.opts), e.rest, e.err>>

CompleteOK(c) ==
  LET cfg == CfgOf(c.g)
      rs  == CompleteResults(c.a, c.specs, cfg)
  IN  IF \E e \in rs : e.unspec THEN SaneResult(OptsR(c.c[1]), c.c[2], c.a, c.specs, cfg)
      ELSE \E e \in rs :
             /\ c.c[1] \in {OptsT(e.opts), OptsT(e.opts \o e.extra)}
             /\ <<c.c[2], c.c[3], c.c[4], c.c[5]>> = <<e.rest, e.ctx.type, OptsT(e.ctx.opt), e.ctx.text>>

Why(c) == IF ~WellFormedSpecs(c.specs) THEN "out-of-model"
          ELSE IF c.pan THEN "panic"
          ELSE IF c.hp /\ ~ParseOK(c) THEN "parse"
          ELSE IF c.hc /\ ~CompleteOK(c) THEN "complete"
          ELSE "ok"
Inv == k = 0 \/ Why(Cases[k]) = "ok" \/ PrintT(<<"BAD", k, Why(Cases[k])>>)
=============================================================================
