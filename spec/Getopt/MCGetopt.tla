------------------------------ MODULE MCGetopt ------------------------------
(* Exhaustive configuration (M) and case generator (G) for C38.
   The argument list is the input stream of the scanner: Next appends one element of Pool and
   applies Step, so every reachable state is one argument list together with the scanner state
   after it.  TLC checks the design invariants in every state and Emit prints the case with the
   prescribed Parse and Complete results.
   Characters: a b (letters used by the specs), x (never specified), '-', '='. *)
EXTENDS Getopt, TLC, Json
CONSTANTS MaxLen,        \* longest argument list
          PoolSel,       \* "full": all lists up to MaxLen over Pool; "small"/"tiny": lists of exactly
                         \* MaxLen over SmallPool/TinyPool; "extra": lists up to MaxLen over ExtraPool
          SpecNums       \* the spec-set numbers handled by this run
VARIABLES cfg, sn, args, st, prev, roles
vars == <<cfg, sn, args, st, prev, roles>>

a == 97
b == 98
x == 120
D == Dash
E == Eq

Ar(i) == <<"no", "req", "opt">>[i]
\* 27 sets: one option with both forms, one short-only, one long-only, every arity combination
SpecSet(n) ==
  IF n <= 27
  THEN LET m == n - 1 IN
       << [short |-> a, long |-> <<a, b>>, arity |-> Ar((m \div 9) + 1)],
          [short |-> b, long |-> <<>>, arity |-> Ar(((m \div 3) % 3) + 1)],
          [short |-> NoShort, long |-> <<b, a>>, arity |-> Ar((m % 3) + 1)] >>
  ELSE IF n = 28 THEN <<>>
  ELSE IF n = 29 THEN << [short |-> a, long |-> <<>>, arity |-> "req"] >>
  ELSE << [short |-> NoShort, long |-> <<b, a>>, arity |-> "opt"],
          [short |-> b, long |-> <<a, b>>, arity |-> "req"] >>
NSpecSets == 30
specs == SpecSet(sn)

Pool == { <<>>, <<D>>, <<D, D>>, <<a>>,
          <<D, a>>, <<D, b>>, <<D, x>>, <<D, a, b>>, <<D, b, a>>, <<D, a, x>>, <<D, x, a>>,
          <<D, a, a, b>>, <<D, a, E>>, <<D, b, D>>,
          <<D, D, a, b>>, <<D, D, b, a>>, <<D, D, a, b, E>>, <<D, D, a, b, E, x>>, <<D, D, b, a, E, a>>,
          <<D, D, x, x>>, <<D, D, x, x, E, a>>, <<D, D, a>>, <<D, D, D>>, <<D, a, b, E, x>> }
SmallPool == { <<>>, <<D, D>>, <<a>>, <<D, a>>, <<D, b>>, <<D, a, b>>, <<D, x, a>>,
               <<D, D, a, b>>, <<D, D, b, a>>, <<D, D, a, b, E, x>>, <<D, D, x, x>>, <<D, b, a>> }

TinyPool == { <<a>>, <<D, D>>, <<D, a>>, <<D, b, a>>, <<D, D, b, a>>, <<D, D, a, b, E, x>> }
\* directed probes: the empty long name, a byte that is not UTF-8, NUL
BAD == MaxRune + 1 + 255
NUL == 0
ExtraPool == { <<D, D, E, x>>, <<D, D, E>>, <<D, E, x>>, <<D, BAD>>, <<D, a, BAD, b>>, <<D, BAD, a, b>>, <<D, NUL>>,
               <<D, D, BAD>>, <<BAD>>,
               <<a>>, <<D, a>>, <<D, b>>, <<D, D, a, b>>, <<D, D>>, <<>> }

Cfgs == [dd : BOOLEAN, bsd : BOOLEAN, lo : BOOLEAN]

Init == /\ cfg \in Cfgs
        /\ sn \in SpecNums
        /\ args = <<>>
        /\ st = Init0
        /\ prev = Init0
        /\ roles = <<>>

Tokens == CASE PoolSel = "full" -> Pool [] PoolSel = "small" -> SmallPool
            [] PoolSel = "tiny" -> TinyPool [] PoolSel = "extra" -> ExtraPool

Next == /\ Len(args) < MaxLen
        /\ \E tok \in Tokens :
             LET act == ActionOf(st, tok, cfg) IN
             /\ args' = Append(args, tok)
             /\ roles' = Append(roles, act)
             /\ st' = Do(act, st, tok, specs, cfg, V0)
             /\ prev' = st
        /\ UNCHANGED <<cfg, sn>>

(* ---------------- design invariants (M) ---------------- *)
SpecsOK == WellFormedSpecs(specs)

\* determinism and totality: for every possible next element exactly one action is enabled
OneAction == \A tok \in Pool \cup ExtraPool :
               {act \in Actions : Guard(act, st, tok, cfg)} = {ActionOf(st, tok, cfg)}

\* the fold used by the judges is the machine
ScanAgrees == st = Scan(args, specs, cfg, V0)

NonOptRoles == {"NonOptAfter", "Word", "DDNoBit"}
RECURSIVE PickFrom(_, _, _)
PickFrom(s, r, i) == IF i > Len(s) THEN <<>>
                     ELSE IF r[i] \in NonOptRoles THEN <<s[i]>> \o PickFrom(s, r, i + 1)
                     ELSE PickFrom(s, r, i + 1)
\* the non-option arguments are exactly the elements that played a non-option role, in order
RestIsNonOptions == st.rest = PickFrom(args, roles, 1)

StopRoles == IF cfg.bsd THEN {"Terminator", "Word", "DDNoBit"} ELSE {"Terminator"}
\* once scanning has stopped every later element is a non-option; it never stops otherwise
StopIsFinal ==
  /\ \A i, j \in 1..Len(roles) : (i < j /\ roles[i] \in StopRoles) => roles[j] = "NonOptAfter"
  /\ \A j \in 1..Len(roles) : roles[j] = "NonOptAfter" => \E i \in 1..(j - 1) : roles[i] \in StopRoles
  /\ st.stop = \E i \in 1..Len(roles) : roles[i] \in StopRoles
  /\ cfg.dd \/ \A i \in 1..Len(roles) : roles[i] # "Terminator"

PendingOK == st.pend # <<>> =>
               /\ roles[Len(roles)] \in {"Long", "Short"}
               /\ st.pend[1].spec # 0 /\ specs[st.pend[1].spec].arity = "req" /\ st.pend[1].arg = <<>>
               /\ ~st.stop

\* every element is accounted for exactly once
RoleCount(r) == Cardinality({i \in 1..Len(roles) : roles[i] = r})
Accounting ==
  /\ Len(roles) = Len(args)
  /\ Len(st.rest) = RoleCount("NonOptAfter") + RoleCount("Word") + RoleCount("DDNoBit")
  /\ RoleCount("TakeArg") + (IF st.pend # <<>> THEN 1 ELSE 0)
       = Cardinality({i \in 1..Len(roles) : roles[i] \in {"Long", "Short"}
                        /\ LET r == IF roles[i] = "Short" THEN ShortTok(Drop(args[i], 1), specs, V0)
                                    ELSE LongTok(IF StartsDD(args[i]) THEN Drop(args[i], 2) ELSE Drop(args[i], 1), specs, V0)
                           IN r.need})
  /\ RoleCount("Terminator") <= 1

\* GNU permutation: without the BSD bit, plain words do not influence how options are read
RECURSIVE DropWords(_, _, _)
DropWords(s, r, i) == IF i > Len(s) THEN <<>>
                      ELSE IF r[i] \in {"Word", "DDNoBit"} THEN DropWords(s, r, i + 1)
                      ELSE <<s[i]>> \o DropWords(s, r, i + 1)
GNUPermutation == ~cfg.bsd =>
  LET t == Scan(DropWords(args, roles, 1), specs, cfg, V0)
  IN  t.opts = st.opts /\ t.pend = st.pend /\ t.stop = st.stop

\* BSD: the non-option arguments are a suffix of the list (minus the terminator)
BSDSuffix == (cfg.bsd /\ st.stop) =>
  \E i \in 1..Len(args) :
     /\ roles[i] \in StopRoles
     /\ st.rest = IF roles[i] = "Terminator" THEN Drop(args, i) ELSE Drop(args, i - 1)

\* Complete reads all but the last element exactly as Parse does
CompleteIsParse == Len(args) >= 1 =>
  /\ prev = Scan(Front(args), specs, cfg, V0)
  /\ \A v \in {V0, [dd |-> "long", unk |-> "arg", abbr |-> "yes"]} :
       LET c == Complete(args, specs, cfg, v)
           p == Parse(Front(args), specs, cfg, v)
       IN  c.opts = p.opts /\ c.rest = p.rest

(* ---------------- generator (G) ----------------
   Compact JSON (TLC's output channel is the bottleneck):
     option  = [spec, long, name, arg]
     parse   = [opts, rest, err, unspec]
     comp    = [opts, extra, rest, ctxType, ctxOpt (<<>> or <<option>>), ctxText, unspec]
   Line: {"g": cfg bits dd+2*bsd+4*lo, "n": spec set number, "a": args, "p": parse,
          "q": the other accepted parses (variants of Unspecified (2)-(4)), "c": <<>> or <<comp>>,
          "d": the other accepted comps,
          "e": <<>> or <<CompleteGetoptObs>> (GNU configuration only, when the completion is specified)}
   Spec sets are printed (from the states with the empty list) as {"n":.., "specs":.., "pool": size}. *)
B2I(v) == IF v THEN 1 ELSE 0
OptT(o) == <<o.spec, o.long, o.name, o.arg>>
OptsT(os) == [i \in 1..Len(os) |-> OptT(os[i])]
ParseT(r) == <<OptsT(r.opts), r.rest, r.err, r.unspec>>
CompT(c) == <<OptsT(c.opts), OptsT(c.extra), c.rest, c.ctx.type, OptsT(c.ctx.opt), c.ctx.text, c.unspec>>
EmitThis == PoolSel \in {"full", "extra"} \/ Len(args) = MaxLen
Emit == /\ (args = <<>>) => PrintT(ToJson([n |-> sn, specs |-> specs, pool |-> Cardinality(Tokens)]))
        /\ EmitThis =>
             LET p  == ParseT(ParseOf(st))
                 qs == {ParseT(r) : r \in ParseResultsOf(st, args, specs, cfg)} \ {p}
                 cr == IF args = <<>> THEN {} ELSE CompleteResultsOf(prev, args, specs, cfg)
                 c0 == IF args = <<>> THEN <<>> ELSE <<CompT(CompleteOf(prev, args[Len(args)], specs, cfg, V0))>>
                 ds == {CompT(r) : r \in cr} \ (IF args = <<>> THEN {} ELSE {c0[1]})
                 e  == IF Cardinality(cr) = 1 /\ cfg = [dd |-> TRUE, bsd |-> FALSE, lo |-> FALSE]
                          /\ \A r \in cr : ~r.unspec
                       THEN <<CompleteGetoptObs(CHOOSE r \in cr : TRUE, specs)>> ELSE <<>>
             IN  PrintT(ToJson([g |-> B2I(cfg.dd) + 2 * B2I(cfg.bsd) + 4 * B2I(cfg.lo), n |-> sn, a |-> args,
                                p |-> p, q |-> qs, c |-> c0, d |-> ds, e |-> e]))
=============================================================================
