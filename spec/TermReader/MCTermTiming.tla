---------------------------- MODULE MCTermTiming ----------------------------
(* Timing scripts for C31: slow, long sequences.  Every initial state is one script
     prefix (ESC, ESC [, ESC [ <, ESC ESC [, ESC [ M, ESC O, a 3-byte UTF-8 leader)
     + k bytes of body (k = 0..KMax; digits, or digits and semicolons alternating)
     + an ending (the stream pauses = Timeout, or a final byte A ~ R M m)
   with a delay pattern per byte: all "now", all "late" (each byte arrives just under the timeout
   the decoder granted), or alternating.  The decoder runs deterministically; el is the model time
   elapsed since the first byte of the event (units of 1/10 timeout).
   Checked: TimeIndependence (every read inside a sequence requests a positive finite timeout,
   however long the sequence has been arriving), BoundedWait (el <= bytes x timeout + timeout at every
   point, in particular when the event is returned), and after a pause the decoder is back in Idle.
   The finished run is printed: per read the byte (-1 = pause), its delay class dl, the prescribed
   request class and emission -- replayed on the real decoder by a byte source that really waits. *)
EXTENDS TermReader, TLC, Json
CONSTANT KMax
VARIABLES s, input, delays, i, el, steps
vars == <<s, input, delays, i, el, steps>>

Prefixes == {<<27>>, <<27, 91>>, <<27, 91, 60>>, <<27, 27, 91>>, <<27, 91, 77>>, <<27, 79>>, <<228>>}
Body(k, pat) == [j \in 1..k |-> IF pat = 2 /\ j % 2 = 0 THEN 59 ELSE 48 + (j % 10)]
Ends == {<<-1>>, <<65>>, <<126>>, <<82>>, <<77>>, <<109>>}
DelayPats == {"now", "late", "alt"}
Dl(dp, j) == IF dp = "late" \/ (dp = "alt" /\ j % 2 = 1) THEN 1 ELSE 0

Init == /\ \E p \in Prefixes, k \in 0..KMax, pat \in {1, 2}, e \in Ends, dp \in DelayPats :
             /\ (k = 0 => pat = 1)
             /\ input = p \o Body(k, pat) \o e
             /\ delays = [j \in 1..(Len(p) + k + 1) |-> IF j = 1 THEN 0 ELSE Dl(dp, j)]
        /\ s = Init0 /\ i = 0 /\ el = 0 /\ steps = <<>>
Feed == /\ i < Len(input) /\ i' = i + 1
        /\ LET a == input[i + 1]
               legal == a # -1 \/ TimeoutEnabled(s)
               t == IF a = -1 THEN (IF legal THEN OnTimeout(s) ELSE [s |-> s, out |-> NoOut]) ELSE OnByte(s, a)
           IN /\ s' = t.s
              /\ el' = IF t.out.kinds # {} THEN 0 ELSE el + (IF a = -1 THEN TO ELSE Cost(delays[i + 1]))
              /\ steps' = IF legal THEN Append(steps, [a |-> a, dl |-> IF a = -1 THEN 0 ELSE delays[i + 1], req |-> Req(s), out |-> t.out])
                          ELSE steps          \* a pause while the decoder waits for ever is not an observation
        /\ UNCHANGED <<input, delays>>
Flush == /\ i = Len(input) /\ s # Init0
         /\ LET t == OnTimeout(s) IN
              /\ s' = t.s /\ el' = 0
              /\ steps' = Append(steps, [a |-> -1, dl |-> 0, req |-> Req(s), out |-> t.out])
         /\ UNCHANGED <<input, delays, i>>
Next == Feed \/ Flush
Spec == Init /\ [][Next]_vars

InvTime == TimeIndependence(s, el)
InvBounded == BoundedWait(s, el)
(* the pause ends the sequence: one timeout after the last byte the decoder is Idle again *)
PauseEnds == [][(i < Len(input) /\ input[i + 1] = -1 /\ TimeoutEnabled(s)) => s' = Init0]_vars
EmitB == (i = Len(input) /\ s = Init0) => PrintT(ToJson(steps))
=============================================================================
