CONSTANT K = 2
SPECIFICATION Spec
INVARIANT TimeoutsLegal
INVARIANT PlainTextLossless
INVARIANT PoolIsPlain
INVARIANT EmitB
