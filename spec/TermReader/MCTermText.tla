----------------------------- MODULE MCTermText -----------------------------
(* PlainTextLossless for C31 + directed scripts.
   Every initial state is one input: either UTF-8(text) for a text of 1..K code points from Pool
   (ASCII that looks like sequence syntax, and the boundary code points of every UTF-8 length),
   or one of the directed Scripts (documented key / mouse / report / paste sequences, with -1 =
   Timeout).  The decoder runs deterministically; outs collects the emissions.
   Lossless: when a text is consumed, outs = <<Key(c_1) .. Key(c_k)>> with n = Len(Enc(c_i)), and the
   decoder is Idle at every character boundary.  The finished run is printed for replay (G). *)
EXTENDS TermReader, TLC, Json
CONSTANT K
VARIABLES s, input, txt, i, outs, steps
vars == <<s, input, txt, i, outs, steps>>

Pool == {32, 48, 59, 65, 77, 79, 91, 126, 160, 233, 769, 2047, 2048, 20320, 55295, 57344, 65533, 65535,
         65536, 128512, 1114111}
RECURSIVE Cat(_)
Cat(q) == IF q = <<>> THEN <<>> ELSE Enc(Head(q)) \o Cat(Tail(q))
Texts == UNION {[1..k -> Pool] : k \in 1..K}

Scripts == {
  <<27, -1>>, <<27, 27, -1>>, <<27, 91, -1>>, <<27, 79, -1>>, <<27, 97>>, <<27, 27, 97>>,
  <<27, 91, 65>>, <<27, 91, 49, 59, 53, 65>>, <<27, 27, 91, 65>>, <<27, 79, 80>>, <<27, 79, 120>>,
  <<27, 91, 51, 126>>, <<27, 91, 51, 59, 53, 126>>, <<27, 91, 50, 55, 59, 53, 59, 57, 126>>,
  <<27, 91, 50, 48, 48, 126>>, <<27, 91, 50, 48, 49, 126>>, <<27, 91, 50, 48, 50, 126>>,
  <<27, 91, 51, 94>>, <<27, 91, 51, 59, 52, 82>>, <<27, 91, 51, 82>>, <<27, 91, 60, 48, 59, 49, 59, 50, 77>>,
  <<27, 91, 60, 48, 59, 49, 59, 50, 109>>, <<27, 91, 60, 48, 59, 49, 77>>, <<27, 91, 77, 32, 33, 34>>,
  <<27, 91, 77, 32, -1>>, <<27, 91, 77, 32, 33, -1>>, <<27, 91, 77, -1>>, <<27, 91, 49, -1>>, <<27, 91, 60, -1>>,
  <<27, 91, 49, 59, -1>>, <<27, 91, 120>>, <<27, 91, 49, 27>>, <<27, 91, 195, 169>>, <<27, 91, 195, -1>>,
  <<195, -1>>, <<228, 189, -1>>, <<240, 159, 152, -1>>, <<27, 195, -1>>, <<27, 79, 195, -1>>,
  <<128>>, <<255>>, <<27, 128>>, <<195, 97>>, <<192, 155>>, <<224, 128, 155>>, <<237, 160, 128>>, <<247, 191, 191, 191>>,
  <<27, 91, 77, 228, 189, 160, 33, 34>>, <<0>>, <<9>>, <<10>>, <<13>>, <<127>>, <<31>>,
  <<27, 91, 57, 57, 57, 57, 57, 57, 57, 57, 57, 57, 57, 57, 57, 57, 57, 57, 57, 57, 57, 57, 57, 65>> }

Init == /\ \/ \E t \in Texts : txt = t /\ input = Cat(t)
           \/ \E sc \in Scripts : txt = <<>> /\ input = sc
        /\ s = Init0 /\ i = 0 /\ outs = <<>> /\ steps = <<>>
Feed == /\ i < Len(input) /\ i' = i + 1
        /\ LET a == input[i + 1]
               t == IF a = -1 THEN OnTimeout(s) ELSE OnByte(s, a)
           IN /\ s' = t.s
              /\ outs' = IF t.out.kinds = {} THEN outs ELSE Append(outs, t.out)
              /\ steps' = Append(steps, [a |-> a, req |-> Req(s), out |-> t.out])
        /\ UNCHANGED <<input, txt>>
(* the input ended inside a sequence: the decoder's pending finite read times out *)
Flush == /\ i = Len(input) /\ s # Init0
         /\ LET t == OnTimeout(s) IN
              /\ s' = t.s /\ outs' = Append(outs, t.out)
              /\ steps' = Append(steps, [a |-> -1, req |-> Req(s), out |-> t.out])
         /\ UNCHANGED <<input, txt, i>>
Next == Feed \/ Flush
Spec == Init /\ [][Next]_vars

TimeoutsLegal == i < Len(input) /\ input[i + 1] = -1 => TimeoutEnabled(s)
Want(c) == [kinds |-> {"Key"}, n |-> Len(Enc(c)), rune |-> c]
PlainTextLossless ==
  (txt # <<>> /\ i = Len(input)) =>
     /\ s = Init0                       \* no Flush is ever needed for a text
     /\ outs = [j \in 1..Len(txt) |-> Want(txt[j])]
PoolIsPlain == \A c \in Pool : PlainCP(c) /\ WellFormed(Len(Enc(c)), c)
EmitB == (i = Len(input) /\ s = Init0) => PrintT(ToJson([txt |-> txt, steps |-> steps]))
=============================================================================
