---------------------------- MODULE MCTermReader ----------------------------
(* Exhaustive model of the decoder + generator of behaviours for C31.
   Alphabet: per phase, one or two representative bytes of every byte class that the decoder
   distinguishes in that phase ("classes merged per phase"); the representatives are CONSTANTS
   chosen by the executor from the seed.  A behaviour is a string of at most L bytes with the
   Timeout action taken or not wherever it is enabled.
   Record = FALSE: hist/nb are frozen, the graph is the decoder's state graph over the alphabet
                   (bounded by s.n <= MaxN): Total / NeverBlocksMidSequence / BlockOnlyAtBoundary.
   Record = TRUE : every behaviour is a state; those with L bytes that are back in Idle are printed
                   (step list with the requested timeout and the prescribed emission per read). *)
EXTENDS TermReader, TLC, Json
CONSTANTS L, MaxN, Record,
          RAscii, RDigit, RCtrl, RU2, RU3, RU4, RCont, RCont2, RBad, RFinK, RFinU
VARIABLES s, hist, nb
vars == <<s, hist, nb>>

Alpha(t) ==
  IF t.pend > 0 THEN {RCont, RCont2, RAscii, ESC, RU2}
  ELSE CASE t.ph = "Idle" -> {ESC, RAscii, LBR, RDigit, RU2, RU3, RU4, RCont, RBad, RCtrl}
         [] t.ph \in {"Esc", "EscEsc"} -> {ESC, LBR, BO, RAscii, RCtrl, RU2, RU3, RCont, RBad}
         [] t.ph \in {"Csi0", "Csi"} -> {LT, BM, Bm, BR, TILDE, RDigit, SEMI, RFinK, RFinU, ESC, RU2, RBad, RCtrl, LBR, BO}
         [] t.ph \in {"M1", "M2", "M3"} -> {RAscii, ESC, RU2, RCont, RCtrl, RDigit}
         [] t.ph = "Ss3" -> {RFinK, RFinU, ESC, RU2, RCont, BM, BR, RDigit}

Init == s = Init0 /\ hist = <<>> /\ nb = 0
Log(a, t) == IF Record THEN Append(hist, [a |-> a, req |-> Req(s), out |-> t.out]) ELSE hist
ByteStep(b) == /\ (Record => nb < L)
               /\ LET t == OnByte(s, b) IN s' = t.s /\ hist' = Log(b, t)
               /\ nb' = IF Record THEN nb + 1 ELSE nb
TimeoutStep == /\ TimeoutEnabled(s)
               /\ LET t == OnTimeout(s) IN s' = t.s /\ hist' = Log(-1, t)
               /\ nb' = nb
Next == (\E b \in Alpha(s) : ByteStep(b)) \/ TimeoutStep
Spec == Init /\ [][Next]_vars
Bound == s.n <= MaxN

InvType   == TypeOK(s)
InvNoBlock == NeverBlocksMidSequence(s)
InvBoundary == BlockOnlyAtBoundary(s)
InvTotal  == Total(s)
(* the Timeout action always ends the sequence: action property *)
TimeoutEnds == [][TimeoutEnabled(s) /\ s' = OnTimeout(s).s => s' = Init0]_vars
EmitB == (Record /\ nb = L /\ s = Init0) => PrintT(ToJson(hist))
=============================================================================
