--------------------------- MODULE TraceTermReader ---------------------------
(* V for C31: what the REAL decoder did on recorded streams, one record per read call
     [a   |-> byte served (0..255), -1 = the read timed out, -2 = Reset (new stream),
      req |-> "block" | "finite"   the timeout the real decoder requested for this read,
      k   |-> "" or the kind of the event readEvent returned right after this read,
      n   |-> bytes consumed by that event, r |-> rune of a Key event (else -1), m |-> its modifiers]
   The walker runs the model over the served bytes/timeouts and requires, per read: the requested
   timeout class is the prescribed one (a blocking request inside a sequence is rejected); an event
   is returned exactly where the model emits, its kind is allowed, it consumed the prescribed number
   of bytes, and a plain character is reported as the unmodified Key of exactly that code point.
   After a rejection the rest of the stream is skipped (one report per stream). *)
EXTENDS TermReader, TLC, Json
Cases == ndJsonDeserialize("cases.ndjson")
VARIABLES k, s, bad
Init == k = 0 /\ s = Init0 /\ bad = FALSE
Why(e, t) ==
  IF e.req # Req(s) THEN "requested-timeout"
  ELSE IF e.a = -1 /\ ~TimeoutEnabled(s) THEN "timeout-on-blocking-read"
  ELSE IF t.out.kinds = {} THEN (IF e.k # "" THEN "early-event" ELSE "")
  ELSE IF e.k = "" THEN "missing-event"
  ELSE IF e.k \notin t.out.kinds THEN "event-kind"
  ELSE IF e.n # t.out.n THEN "bytes-consumed"
  ELSE IF t.out.rune >= 0 /\ (e.k # "Key" \/ e.r # t.out.rune \/ e.m # 0) THEN "plain-character"
  ELSE ""
Next == /\ k < Len(Cases) /\ k' = k + 1
        /\ LET e == Cases[k + 1] IN
           IF e.a = -2 THEN s' = Init0 /\ bad' = FALSE
           ELSE IF bad THEN UNCHANGED <<s, bad>>
           ELSE LET t == IF e.a = -1 THEN OnTimeout(s) ELSE OnByte(s, e.a)
                    w == Why(e, t)
                IN /\ s' = t.s
                   /\ bad' = (w # "" /\ PrintT(<<"BAD", k + 1, w, s.ph, ToJson(t.out)>>))
Inv == TRUE
=============================================================================
