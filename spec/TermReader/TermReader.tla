------------------------------ MODULE TermReader ------------------------------
(* C31 -- the terminal input decoder (pkg/cli/term: readEvent in reader_unix.go, readRune in
   read_rune.go) as a state machine over BYTES (0..255), driven by two environment actions:

     OnByte(s, b)   the byte b arrives within the timeout the decoder requested
     OnTimeout(s)   no byte arrives within the requested timeout (only possible when the request
                    is finite)

   Each returns [s |-> successor, out |-> emission]; NoOut = nothing emitted by this read.
   Req(s) is the OBSERVABLE of every read: "block" (a negative timeout = wait for ever) or "finite"
   (a POSITIVE timeout; a zero timeout is recorded as "zero" by the executor and is neither).
   Req depends on the decoder state only -- NOT on how long the current sequence has been arriving:
   a byte may arrive at once ("now") or just before the requested timeout expires ("late"), and
   however many late bytes a sequence has had, the next read inside it still has a positive finite
   timeout (TimeIndependence; MCTermTiming carries the elapsed time explicitly and checks
   BoundedWait: an event is returned within  bytes consumed x timeout + one timeout).

   State s = [ph, st, pend, acc, len, wf, n]
     ph    Idle | Esc | EscEsc | Csi0 (just after ESC [) | Csi (inside the arguments) |
           M1 M2 M3 (X10 mouse: ESC [ M cb cx cy) | Ss3 (after ESC O)
     st    CSI starter: 0 or 60 ('<', SGR mouse)
     pend  continuation bytes still awaited for the rune being assembled (0..3); acc its value so
           far; len its total length; wf: the bytes so far are well-formed UTF-8
     n     bytes consumed since the last emission

   The grammar is the one documented in reader_unix.go: "A CSI sequence is \e[ followed by zero or
   more numerical arguments (separated by semicolons), ending in a non-numeric, non-semicolon
   rune"; "G3-style key sequences: \eO followed by exactly one character"; ESC ESC prefix = Alt
   (rxvt); ESC x = Alt-x; a lone ESC / ESC [ / ESC O followed by silence are the keys
   Escape / Alt-[ / Alt-O.  Every unit read inside a sequence is a RUNE (UTF-8 assembled).

   Emission out = [kinds, n, rune]:
     kinds  the SET of event kinds the specification allows here, among
            Key Mouse CursorPosition PasteSetting Error.  Which (final byte, argument list)
            combinations are known keys / a well-formed report is DATA of the real lookup tables
            (csiSeqByLast, csiSeqTilde, csiSeqTilde27, g3Seq, argument counts): it is abstracted to
            "the kind for that final byte, or Error (bad sequence)" -- not specified here.
     n      number of bytes the event consumed (sequence boundaries)
     rune   for a plain character decoded in Idle: its code point (the Key must carry exactly it,
            unmodified); -1 = not prescribed

   Properties (checked by TLC in MCTermReader / MCTermText):
     NeverBlocksMidSequence  every state that is not (Idle, nothing pending) requests a FINITE
                             timeout, and the Timeout action emits and returns to Idle
     BlockOnlyAtBoundary     a blocking read is requested only when no byte of an event is consumed
     TimeIndependence, BoundedWait (MCTermTiming)  see Req above
     Total                   OnByte is defined and type-correct for all 256 bytes in every state
     PlainTextLossless       (MCTermText) feeding UTF-8(text) yields exactly Key(c) for every
                             character c of text, in order, each consuming exactly its bytes

   Unspecified (both outcomes accepted):
     Stray(b)  a byte that cannot start a rune (continuation byte 80..BF or F8..FF) where a rune
               is expected: the code decodes it as the rune 0 (so it is the key Ctrl-` in Idle);
               the statement only requires "an event or an error": kinds gets Error added.
     Malformed UTF-8 (bad continuation bytes, overlong forms, surrogates, > 10FFFF): the value is
               the code's bit arithmetic acc*64 + b%64; no rune is prescribed for the Key.
   Limit stated with the model: a character whose continuation bytes arrive later than the UTF-8
   timeout is reported as an Error (Timeout in (Idle, pend > 0)); PlainTextLossless is about
   streams whose characters arrive whole. *)
EXTENDS Integers, Sequences, FiniteSets

ESC == 27    LBR == 91    BO == 79    LT == 60    BM == 77    Bm == 109    BR == 82
TILDE == 126    SEMI == 59
IsDigit(r) == 48 <= r /\ r <= 57
EOS == -1   \* runeEndOfSeq: the read inside a sequence failed (timeout)

Phases == {"Idle", "Esc", "EscEsc", "Csi0", "Csi", "M1", "M2", "M3", "Ss3"}
Kinds  == {"Key", "Mouse", "CursorPosition", "PasteSetting", "Error"}

Init0 == [ph |-> "Idle", st |-> 0, pend |-> 0, acc |-> 0, len |-> 0, wf |-> TRUE, n |-> 0]
NoOut == [kinds |-> {}, n |-> 0, rune |-> -1]

TypeOK(s) == /\ s.ph \in Phases /\ s.st \in {0, LT} /\ s.pend \in 0..3 /\ s.acc \in 0..2097151
             /\ s.len \in 0..4 /\ s.wf \in BOOLEAN /\ s.n \in Nat
             /\ (s.ph = "Idle" /\ s.pend = 0 => s = Init0)

Req(s) == IF s.ph = "Idle" /\ s.pend = 0 THEN "block" ELSE "finite"

(* the characters of "printable text without escape or control bytes": every code point that is
   not a C0/C1 control or DEL *)
PlainCP(r) == r >= 32 /\ r # 127 /\ ~(128 <= r /\ r <= 159)
WellFormed(len, v) == CASE len = 1 -> v < 128
                        [] len = 2 -> 128 <= v /\ v < 2048
                        [] len = 3 -> 2048 <= v /\ v < 65536 /\ ~(55296 <= v /\ v <= 57343)
                        [] len = 4 -> 65536 <= v /\ v <= 1114111
                        [] OTHER   -> FALSE

Emit(s, kinds, rune) == [s |-> Init0, out |-> [kinds |-> kinds, n |-> s.n, rune |-> rune]]
Goto(s, ph, st) == [s |-> [s EXCEPT !.ph = ph, !.st = st, !.pend = 0, !.acc = 0, !.len = 0, !.wf = TRUE],
                    out |-> NoOut]

Final(st, r) == IF st = 0 /\ r = BR THEN {"CursorPosition", "Error"}
                ELSE IF st = LT /\ (r = Bm \/ r = BM) THEN {"Mouse", "Error"}
                ELSE IF r = TILDE THEN {"PasteSetting", "Key", "Error"}
                ELSE {"Key", "Error"}

CsiLoop(s, r, x) ==
  IF r = SEMI \/ IsDigit(r) THEN Goto(s, "Csi", s.st)
  ELSE IF r = EOS THEN Emit(s, {"Error"}, -1)            \* incomplete CSI
  ELSE Emit(s, Final(s.st, r) \cup x, -1)

(* a complete rune r (or EOS) has been read in phase s.ph; s.n already counts its bytes.
   plain: r is a well-formed plain character; stray: r = 0 stands for an undecodable byte *)
OnRune(s, r, plain, stray) ==
  LET x == IF stray THEN {"Error"} ELSE {} IN
  CASE s.ph = "Idle" ->
         IF r = ESC THEN Goto(s, "Esc", 0)
         ELSE Emit(s, {"Key"} \cup x, IF plain THEN r ELSE -1)
    [] s.ph \in {"Esc", "EscEsc"} ->
         IF r = ESC /\ s.ph = "Esc" THEN Goto(s, "EscEsc", 0)
         ELSE IF r = EOS THEN Emit(s, {"Key"}, -1)        \* lone Escape
         ELSE IF r = LBR THEN Goto(s, "Csi0", 0)
         ELSE IF r = BO THEN Goto(s, "Ss3", 0)
         ELSE Emit(s, {"Key"} \cup x, -1)                 \* Alt-modified key
    [] s.ph = "Csi0" ->
         IF r = EOS THEN Emit(s, {"Key"}, -1)             \* Alt-[
         ELSE IF r = LT THEN Goto(s, "Csi", LT)
         ELSE IF r = BM THEN Goto(s, "M1", 0)
         ELSE CsiLoop(s, r, x)
    [] s.ph = "Csi" -> CsiLoop(s, r, x)
    [] s.ph \in {"M1", "M2"} ->
         IF r = EOS THEN Emit(s, {"Error"}, -1)           \* incomplete mouse event
         ELSE Goto(s, IF s.ph = "M1" THEN "M2" ELSE "M3", 0)
    [] s.ph = "M3" ->
         IF r = EOS THEN Emit(s, {"Error"}, -1) ELSE Emit(s, {"Mouse"}, -1)
    [] s.ph = "Ss3" ->
         IF r = EOS THEN Emit(s, {"Key"}, -1)             \* Alt-O
         ELSE Emit(s, {"Key", "Error"}, -1)               \* g3Seq is data

Stray(b) == (128 <= b /\ b <= 191) \/ b >= 248

OnByte(s, b) ==
  LET s1 == [s EXCEPT !.n = s.n + 1] IN
  IF s.pend > 0
  THEN LET v  == s.acc * 64 + (b % 64)
           wf == s.wf /\ 128 <= b /\ b <= 191
       IN IF s.pend = 1
          THEN OnRune([s1 EXCEPT !.pend = 0, !.acc = 0, !.len = 0, !.wf = TRUE], v,
                      wf /\ WellFormed(s.len, v) /\ PlainCP(v), FALSE)
          ELSE [s |-> [s1 EXCEPT !.pend = s.pend - 1, !.acc = v, !.wf = wf], out |-> NoOut]
  ELSE IF b < 128 THEN OnRune(s1, b, PlainCP(b), FALSE)
  ELSE IF b \div 32 = 6 THEN [s |-> [s1 EXCEPT !.pend = 1, !.acc = b % 32, !.len = 2, !.wf = TRUE], out |-> NoOut]
  ELSE IF b \div 16 = 14 THEN [s |-> [s1 EXCEPT !.pend = 2, !.acc = b % 16, !.len = 3, !.wf = TRUE], out |-> NoOut]
  ELSE IF b \div 8 = 30 THEN [s |-> [s1 EXCEPT !.pend = 3, !.acc = b % 8, !.len = 4, !.wf = TRUE], out |-> NoOut]
  ELSE OnRune(s1, 0, FALSE, TRUE)                          \* Stray(b)

TimeoutEnabled(s) == Req(s) = "finite"
OnTimeout(s) ==
  IF s.ph = "Idle" THEN Emit(s, {"Error"}, -1)            \* pend > 0: the character is lost
  ELSE OnRune([s EXCEPT !.pend = 0, !.acc = 0, !.len = 0, !.wf = TRUE], EOS, FALSE, FALSE)

(* ---- properties of the design *)
NeverBlocksMidSequence(s) ==
  ~(s.ph = "Idle" /\ s.pend = 0) =>
     /\ TimeoutEnabled(s)
     /\ LET t == OnTimeout(s) IN t.s = Init0 /\ t.out.kinds # {} /\ t.out.n = s.n
BlockOnlyAtBoundary(s) == Req(s) = "block" => s.n = 0
Total(s) == \A b \in 0..255 :
              LET t == OnByte(s, b) IN
              /\ TypeOK(t.s)
              /\ t.out.kinds \subseteq Kinds
              /\ (t.out.kinds # {} <=> t.s = Init0)
              /\ (t.out.kinds # {} => t.out.n = s.n + 1)

(* ---- time.  One unit = 1/10 of the sequence timeout.  A byte that arrives "now" costs 0, a
   "late" byte just under one timeout (9), a Timeout exactly one timeout (10).  el = time elapsed
   since the first byte of the event being decoded. *)
TO == 10
Cost(dl) == IF dl = 1 THEN TO - 1 ELSE 0
BoundedWait(s, el) == el <= s.n * TO + TO
TimeIndependence(s, el) == ~(s.ph = "Idle" /\ s.pend = 0) => Req(s) = "finite"   \* whatever el is

(* ---- UTF-8 encoding, the reference for PlainTextLossless *)
Enc(c) == IF c < 128 THEN <<c>>
          ELSE IF c < 2048 THEN <<192 + (c \div 64), 128 + (c % 64)>>
          ELSE IF c < 65536 THEN <<224 + (c \div 4096), 128 + ((c \div 64) % 64), 128 + (c % 64)>>
          ELSE <<240 + (c \div 262144), 128 + ((c \div 4096) % 64), 128 + ((c \div 64) % 64), 128 + (c % 64)>>
=============================================================================
