CONSTANTS L = 3 MaxN = 7 Record = FALSE
 RAscii = 97 RDigit = 53 RCtrl = 1 RU2 = 195 RU3 = 228 RU4 = 241 RCont = 169 RCont2 = 191 RBad = 255 RFinK = 65 RFinU = 120
SPECIFICATION Spec
CONSTRAINT Bound
INVARIANT InvType
INVARIANT InvNoBlock
INVARIANT InvBoundary
INVARIANT InvTotal
PROPERTY TimeoutEnds
