CONSTANT KMax = 14
SPECIFICATION Spec
INVARIANT InvTime
INVARIANT InvBounded
PROPERTY PauseEnds
INVARIANT EmitB
