-------------------------------- MODULE Alias --------------------------------
(* C14 -- element assignment never mutates values seen elsewhere.

   Language-level semantics of  set x[p1]..[pn] = v,  del x[p1]..[pn],  tmp / with on elements
   (website/ref/language.md "set": "Elvish does not mutate the underlying list or map. Instead,
   Elvish creates a new list or map with the mutation applied, and assigns it to the variable";
   pkg/eval/vars/element.go MakeElement / elem.Set / DelElement, vals.Assoc, vals.Dissoc).

   Values  [t, n, e, ks]: atom  t = "a", n = its number (typed numbers: neither indexable nor assocable)
                          list  t = "l", e = sequence of values
                          map   t = "m", key ks[j] maps to e[j]; entries in ascending Rank of the key
                          Err   t = "err"  (the operation raises an exception)
   Keys    [s, i, num]: the index text s as written in the program; num/i: it is the decimal integer i
                        (lists convert it, negative counts from the end; maps use the text s as key).
                        For a non-numeric text, i is its position in the executor's fixed key pool: it
                        only fixes the canonical order (Rank) of map entries in the abstract form.  A typed
                        integer key of a map, written (num n), is such a text too (never used on lists), and so is
                        the key $nil (on a list it is a bad index: the step raises).

   State   store  variable -> value
           alias  sequence of [name, kind, val]   what each alias reader yields (never touched)
           snap   ghost: value of each alias at the time it was taken
   Actions (the step record o; Apply(store, o) is the prescription)
     SetElem(x, p, v)            store' = [store EXCEPT ![x] = AssocPath(store[x], p, v)]
     DelElem(x, p)               store' = [store EXCEPT ![x] = DissocPath(store[x], p)]
     TmpElem / WithElem(x, p, v) inside the scope x reads AssocPath(store[x], p, v) (`mid`), afterwards
                                 x is rebound to the saved WHOLE value: store' = store
     SetElemsStale(x, p, v, p2, v2)   set x[p] x[p2] = v v2 : both element variables are built from the
                                 PRE-statement value, the second assignment wins:
                                 store'[x] = AssocPath(store[x], p2, v2)   (named deviation, confirmed
                                 behaviour; generated only when both assocs succeed)
     TakeAlias(kind, x, p)       var A = $x | var A = $x[p] | closure capturing the value | captured
                                 output | container sharing [$x $x]
   An operation that raises (index out of range, key missing on the way, atom on the way, deleting
   from a list) leaves the store unchanged.
   The assigned value v is an atom, a literal list, or the current value of a variable ($y, $x itself).

   Properties: AliasesFrozen (every alias still reads its snapshot), OnlyTargetRebound (action
   property: a step changes at most the assigned variable), GetAfterSet and ElementFrame (the new
   value is the nested assoc of the old one: the addressed element is v, every other element path of
   the old value still leads to the same value).
   Unspecified: nothing.  Out of model: slices as indices, non-decimal index texts. *)
EXTENDS Integers, Sequences, FiniteSets

Atom(n)       == [t |-> "a", n |-> n, e |-> <<>>, ks |-> <<>>]
List(s)       == [t |-> "l", n |-> 0, e |-> s, ks |-> <<>>]
MapOf(ks, vs) == [t |-> "m", n |-> 0, e |-> vs, ks |-> ks]      \* parallel: key ks[j] maps to e[j]
Err           == [t |-> "err", n |-> 0, e |-> <<>>, ks |-> <<>>]

SKey(s, i) == [s |-> s, i |-> i, num |-> FALSE]
NKey(s, i) == [s |-> s, i |-> i, num |-> TRUE]
Rank(k) == IF k.num THEN 1000 + k.i ELSE k.i

Lookup(v, k)  == LET S == {j \in 1..Len(v.ks) : v.ks[j].s = k.s} IN IF S = {} THEN 0 ELSE CHOOSE j \in S : TRUE
Pos(v, k)     == IF ~k.num THEN -1 ELSE IF k.i < 0 THEN k.i + Len(v.e) ELSE k.i      \* 0-based list position
InRange(v, k) == k.num /\ 0 <= Pos(v, k) /\ Pos(v, k) < Len(v.e)

Index(v, k) ==
  CASE v.t = "l" -> IF InRange(v, k) THEN v.e[Pos(v, k) + 1] ELSE Err
    [] v.t = "m" -> IF Lookup(v, k) = 0 THEN Err ELSE v.e[Lookup(v, k)]
    [] OTHER     -> Err

InsertAt(q, j, x) == SubSeq(q, 1, j - 1) \o <<x>> \o SubSeq(q, j, Len(q))
RemoveAt(q, j)    == SubSeq(q, 1, j - 1) \o SubSeq(q, j + 1, Len(q))

Assoc(v, k, w) ==
  CASE v.t = "l" -> IF InRange(v, k) THEN [v EXCEPT !.e[Pos(v, k) + 1] = w] ELSE Err
    [] v.t = "m" -> IF Lookup(v, k) # 0 THEN [v EXCEPT !.e[Lookup(v, k)] = w]
                    ELSE LET j == 1 + Cardinality({m \in 1..Len(v.ks) : Rank(v.ks[m]) < Rank(k)})
                         IN [v EXCEPT !.e = InsertAt(v.e, j, w), !.ks = InsertAt(v.ks, j, k)]
    [] OTHER     -> Err

Dissoc(v, k) ==
  IF v.t # "m" THEN Err
  ELSE IF Lookup(v, k) = 0 THEN v
  ELSE [v EXCEPT !.e = RemoveAt(v.e, Lookup(v, k)), !.ks = RemoveAt(v.ks, Lookup(v, k))]

RECURSIVE IndexPath(_, _), AssocPath(_, _, _), DissocPath(_, _)
IndexPath(v, p) == IF p = <<>> \/ v = Err THEN v ELSE IndexPath(Index(v, Head(p)), Tail(p))

(* set x[p1]..[pn] = w  ==  x = assoc x p1 (assoc x[p1] p2 (... (assoc x[p1]..[pn-1] pn w))) *)
AssocPath(v, p, w) ==
  IF Len(p) = 1 THEN Assoc(v, p[1], w)
  ELSE LET sub == Index(v, p[1]) IN
       IF sub = Err THEN Err
       ELSE LET r == AssocPath(sub, Tail(p), w) IN IF r = Err THEN Err ELSE Assoc(v, p[1], r)

DissocPath(v, p) ==
  IF Len(p) = 1 THEN Dissoc(v, p[1])
  ELSE LET sub == Index(v, p[1]) IN
       IF sub = Err THEN Err
       ELSE LET r == DissocPath(sub, Tail(p)) IN IF r = Err THEN Err ELSE Assoc(v, p[1], r)

(* ---- value descriptors of the right-hand side:  [src, n, name] *)
VAtom(n)  == [src |-> "atom", n |-> n, name |-> ""]
VLit(n)   == [src |-> "lit", n |-> n, name |-> ""]      \* the literal list [(num n) (num n+1)]
VVar(y)   == [src |-> "var", n |-> 0, name |-> y]       \* $y
ValOf(st, d) == CASE d.src = "atom" -> Atom(d.n)
                  [] d.src = "lit"  -> List(<<Atom(d.n), Atom(d.n + 1)>>)
                  [] d.src = "var"  -> st[d.name]

(* ---- steps.  o = [op, x, p, v, p2, v2, kind, name] *)
O0 == [op |-> "", x |-> "", p |-> <<>>, v |-> VAtom(0), p2 |-> <<>>, v2 |-> VAtom(0), kind |-> "", name |-> ""]

\* value of x the step computes (Err: the step raises)
Target(st, o) ==
  CASE o.op \in {"SetElem", "TmpElem", "WithElem"} -> AssocPath(st[o.x], o.p, ValOf(st, o.v))
    [] o.op = "DelElem"       -> DissocPath(st[o.x], o.p)
    [] o.op = "SetElemsStale" -> IF AssocPath(st[o.x], o.p, ValOf(st, o.v)) = Err THEN Err
                                 ELSE AssocPath(st[o.x], o.p2, ValOf(st, o.v2))
    [] OTHER -> st[o.x]

Raises(st, o) == IF o.op = "TakeAlias" THEN IndexPath(st[o.x], o.p) = Err ELSE Target(st, o) = Err

\* what x reads inside the scope of tmp / with
Mid(st, o) == Target(st, o)

Apply(st, o) ==
  IF Raises(st, o) \/ o.op \in {"TmpElem", "WithElem", "TakeAlias"} THEN st
  ELSE [st EXCEPT ![o.x] = Target(st, o)]

\* the value an alias taken by step o holds
AliasVal(st, o) ==
  LET w == IndexPath(st[o.x], o.p)
  IN IF o.kind = "share" THEN List(<<w, w>>) ELSE w

(* ---- the property on one step st -o-> st2, and on the aliases *)
OnlyTargetReboundStep(st, o, st2) == \A y \in DOMAIN st : y # o.x => st2[y] = st[y]

RECURSIVE Paths(_, _)
\* all element paths of v of length <= d
Paths(v, d) ==
  IF d = 0 \/ v.t \notin {"l", "m"} THEN {<<>>}
  ELSE {<<>>} \cup UNION {
         {<<k>> \o q : q \in Paths(Index(v, k), d - 1)} :
         k \in IF v.t = "l" THEN {NKey("", i) : i \in 0..(Len(v.e) - 1)} ELSE {v.ks[j] : j \in 1..Len(v.ks)}}
KeysEq(p, q) == Len(p) = Len(q) /\ \A i \in 1..Len(p) : IF p[i].num /\ q[i].num THEN p[i].i = q[i].i ELSE p[i].s = q[i].s
IsPrefix(p, q) == Len(p) <= Len(q) /\ KeysEq(p, SubSeq(q, 1, Len(p)))
\* positive form of the path (negative list indices resolved against old), for comparing with Paths
RECURSIVE Norm(_, _)
Norm(v, p) == IF p = <<>> THEN <<>>
              ELSE LET k == IF v.t = "l" /\ p[1].num THEN NKey("", Pos(v, p[1])) ELSE p[1]
                   IN <<k>> \o Norm(Index(v, p[1]), Tail(p))

GetAfterSet(old, p, w, new) == new = Err \/ IndexPath(new, p) = w
ElementFrame(old, p, new) ==
  new = Err \/ \A q \in Paths(old, 3) :
     (~IsPrefix(q, Norm(old, p)) /\ ~IsPrefix(Norm(old, p), q)) => IndexPath(new, q) = IndexPath(old, q)
=============================================================================
