CONSTANTS MaxSteps = 1 MaxNew = 1 NInit = 4
SPECIFICATION Spec
VIEW View
INVARIANT AliasesFrozen
INVARIANT LastOK
PROPERTY OnlyTargetRebound
ACTION_CONSTRAINT EmitT
