----------------------------- MODULE TraceAlias -----------------------------
(* V for C14: histories recorded from the REAL evaluator, one event per executed chunk:
     [o |-> the step (as in Alias), raised |-> it ended in an exception, mid |-> what x read inside a
      tmp/with scope, store |-> <<value of x, value of y>> read after the step,
      al |-> what every alias reader yielded after the step (in the order the aliases were taken)]
   A "Reset" event starts a history on a fresh interpreter and gives the initial store.
   The stateful walker applies every step to the model state and requires: the step raised iff the
   model says so, both variables hold the prescribed values, and EVERY alias still reads the value
   it had when it was taken.  After a rejection it skips to the next Reset. *)
EXTENDS Alias, TLC, Json
Cases == ndJsonDeserialize("cases.ndjson")
VARIABLES k, st, al, bad
Init == k = 0 /\ st = [x |-> Err, y |-> Err] /\ al = <<>> /\ bad = FALSE
Why(s, a, e) ==
  LET s2 == Apply(s, e.o) IN
  IF e.raised # Raises(s, e.o) THEN "raises"
  ELSE IF e.store[1] # s2["x"] THEN "x"
  ELSE IF e.store[2] # s2["y"] THEN "y"
  ELSE IF e.al # a THEN "alias"
  ELSE IF e.o.op \in {"TmpElem", "WithElem"} /\ ~e.raised /\ e.mid # Mid(s, e.o) THEN "mid"
  ELSE ""
Next == /\ k < Len(Cases) /\ k' = k + 1
        /\ LET e == Cases[k + 1] IN
           IF e.o.op = "Reset" THEN st' = [x |-> e.store[1], y |-> e.store[2]] /\ al' = <<>> /\ bad' = FALSE
           ELSE IF bad THEN UNCHANGED <<st, al, bad>>
           ELSE LET a2 == IF e.o.op = "TakeAlias" /\ ~Raises(st, e.o) THEN Append(al, AliasVal(st, e.o)) ELSE al
                    w  == Why(st, a2, e)
                IN /\ st' = Apply(st, e.o)
                   /\ al' = a2
                   /\ bad' = (w # "" /\ PrintT(<<"BAD", k + 1, e.o.op, w>>))
Inv == TRUE
=============================================================================
