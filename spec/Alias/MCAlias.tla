------------------------------ MODULE MCAlias ------------------------------
(* M + G for C14: exhaustive model of element assignment over a small alphabet, and generator of
   behaviours (one per transition: a path to its source state plus the step; hist is hidden by the
   VIEW, the always-true action constraint EmitT prints hist').  Every behaviour starts from one of
   the initial stores with the five kinds of aliases already taken on each variable; more aliases are
   taken on the way (of values that element assignment itself produced). *)
EXTENDS Alias, TLC, Json
CONSTANTS MaxSteps, MaxNew, NInit
VARIABLES store, alias, snap, hist
vars == <<store, alias, snap, hist>>

K0 == NKey("0", 0)   K1 == NKey("1", 1)   K2 == NKey("2", 2)   Kk == SKey("k", 1)   KL == NKey("-1", -1)
Knil == SKey("$nil", 3000)     \* the $nil key of a map (its value sits outside the hash trie)
Keys == {K0, K1, K2, Kk, Knil}
Vars == {"x", "y"}
Other(x) == IF x = "x" THEN "y" ELSE "x"

A(n) == Atom(n)
M1(k, v) == MapOf(<<k>>, <<v>>)
M3 == MapOf(<<SKey("m", 2), SKey("n", 3), SKey("o", 4)>>, <<A(1), A(2), A(3)>>)
Inits == <<
  [x |-> List(<<List(<<A(1), A(2)>>), M1(Kk, A(3))>>),                         y |-> List(<<A(4), A(5)>>)],
  [x |-> MapOf(<<Kk, SKey("m", 2)>>, <<List(<<A(1), A(2)>>), M1(Kk, A(3))>>),     y |-> A(4)],
  [x |-> List(<<A(1), List(<<A(2), List(<<A(3), A(4)>>)>>)>>),                 y |-> M1(Kk, A(5))],
  [x |-> MapOf(<<>>, <<>>),                                                    y |-> List(<<>>)],
  \* a 3-key map (a trie node with spare capacity after its growth) and the same map nested in a list:
  \* the steps with the keys k, 0, 1, 2 ADD keys to it
  [x |-> M3,                                                                   y |-> List(<<M3, A(7)>>)],
  \* maps that already hold the $nil key, at the top and nested: re-assoc / del of x[$nil], y[0][$nil]
  [x |-> MapOf(<<Kk, Knil>>, <<A(1), A(2)>>),                                  y |-> List(<<MapOf(<<Knil>>, <<A(3)>>), A(4)>>)] >>

\* paths worth trying on value v: every key at the top; below a valid first key every key; below an
\* invalid one a single representative; one valid path of length 3 if there is one
P1 == {<<k>> : k \in Keys \cup {KL}}
P2(v) == {<<k, j>> : k \in {k \in Keys : Index(v, k) # Err}, j \in Keys}
         \cup {<<k, K0>> : k \in {k \in Keys : Index(v, k) = Err}}
P3(v) == {p \in {<<K1, K1, K0>>, <<Kk, K0, K0>>} : IndexPath(v, SubSeq(p, 1, 2)) # Err}
PathsOf(v) == P1 \cup P2(v) \cup P3(v)

MutsOf(st, x) ==
  {[O0 EXCEPT !.op = "SetElem", !.x = x, !.p = p, !.v = v] : p \in PathsOf(st[x]), v \in {VAtom(9), VVar(Other(x))}}
  \cup {[O0 EXCEPT !.op = "SetElem", !.x = x, !.p = p, !.v = v] : p \in P1, v \in {VVar(x), VLit(7)}}
  \cup {[O0 EXCEPT !.op = "DelElem", !.x = x, !.p = p] : p \in PathsOf(st[x])}
  \cup {[O0 EXCEPT !.op = op, !.x = x, !.p = p, !.v = VAtom(8)] : op \in {"TmpElem", "WithElem"}, p \in P1 \cup P2(st[x])}
  \cup {o \in {[O0 EXCEPT !.op = "SetElemsStale", !.x = x, !.p = p, !.v = VAtom(6), !.p2 = q, !.v2 = VAtom(7)] :
                  p \in P1 \cup P2(st[x]), q \in P1} : ~Raises(st, o) /\ o.p # o.p2}
Muts(st) == UNION {MutsOf(st, x) : x \in Vars}
Takes(st, n) ==
  {[O0 EXCEPT !.op = "TakeAlias", !.x = x, !.kind = kd, !.name = n] : x \in Vars, kd \in {"var", "closure", "output", "share"}}
  \cup {[O0 EXCEPT !.op = "TakeAlias", !.x = x, !.kind = "sub", !.p = p, !.name = n] : x \in Vars, p \in {<<K0>>, <<K1>>, <<Kk>>}}

\* the aliases every behaviour starts with (names fixed; the executor takes them in its prelude)
InitTakes == << [O0 EXCEPT !.op = "TakeAlias", !.x = "x", !.kind = "var", !.name = "ax1"],
                [O0 EXCEPT !.op = "TakeAlias", !.x = "x", !.kind = "closure", !.name = "ax2"],
                [O0 EXCEPT !.op = "TakeAlias", !.x = "x", !.kind = "output", !.name = "ax3"],
                [O0 EXCEPT !.op = "TakeAlias", !.x = "x", !.kind = "share", !.name = "ax4"],
                [O0 EXCEPT !.op = "TakeAlias", !.x = "y", !.kind = "var", !.name = "ay1"],
                [O0 EXCEPT !.op = "TakeAlias", !.x = "y", !.kind = "share", !.name = "ay2"] >>
AliasRec(st, o) == [name |-> o.name, kind |-> o.kind, x |-> o.x, p |-> o.p, val |-> AliasVal(st, o)]

StoreSeq(st) == <<st["x"], st["y"]>>
Vals(al) == [i \in 1..Len(al) |-> al[i].val]
\* one hist entry: the step, whether it raises, the prescribed store and alias values after it
Entry(st, al, o) == [o |-> o, raises |-> Raises(st, o), mid |-> IF Raises(st, o) THEN Err ELSE Mid(st, o),
                     store |-> StoreSeq(Apply(st, o)), al |-> al]

Init == \E i \in 1..NInit :
          /\ store = Inits[i]
          /\ alias = [j \in 1..Len(InitTakes) |-> AliasRec(Inits[i], InitTakes[j])]
          /\ snap = [j \in 1..Len(InitTakes) |-> AliasVal(Inits[i], InitTakes[j])]
          /\ hist = <<[o |-> [O0 EXCEPT !.op = "Init"], raises |-> FALSE, mid |-> Err, store |-> StoreSeq(Inits[i]),
                       al |-> [j \in 1..Len(InitTakes) |-> AliasRec(Inits[i], InitTakes[j])]]>>

Mutate(o) == /\ store' = Apply(store, o)
             /\ UNCHANGED <<alias, snap>>
             /\ hist' = Append(hist, Entry(store, alias, o))
Take(o)   == /\ ~Raises(store, o)
             /\ alias' = Append(alias, AliasRec(store, o))
             /\ snap' = Append(snap, AliasVal(store, o))
             /\ UNCHANGED store
             /\ hist' = Append(hist, Entry(store, Append(alias, AliasRec(store, o)), o))
NewName == IF Len(alias) = Len(InitTakes) THEN "n1" ELSE IF Len(alias) = Len(InitTakes) + 1 THEN "n2" ELSE "n3"
Next == /\ Len(hist) <= MaxSteps
        /\ \/ \E o \in Muts(store) : Mutate(o)
           \/ /\ Len(alias) < Len(InitTakes) + MaxNew
              /\ \E o \in Takes(store, NewName) : Take(o)
Spec == Init /\ [][Next]_vars
View == <<store, alias, snap, Len(hist)>>

(* ---- properties *)
AliasesFrozen == \A i \in 1..Len(alias) : alias[i].val = snap[i]
OnlyTargetRebound == [][OnlyTargetReboundStep(store, hist'[Len(hist')].o, store')]_vars
\* the last step (if it was an assignment that did not raise) produced the nested assoc of the old value
LastOK ==
  Len(hist) < 2 \/
  LET e == hist[Len(hist)]  old == hist[Len(hist) - 1].store  IN
  LET ov == IF e.o.x = "x" THEN old[1] ELSE old[2]
      nv == IF e.o.x = "x" THEN e.store[1] ELSE e.store[2]
      st == [x |-> old[1], y |-> old[2]]
  IN IF e.raises THEN e.store = old
     ELSE CASE e.o.op = "SetElem" -> GetAfterSet(ov, e.o.p, ValOf(st, e.o.v), nv) /\ ElementFrame(ov, e.o.p, nv)
            [] e.o.op = "DelElem" -> IndexPath(nv, e.o.p) = Err /\ ElementFrame(ov, e.o.p, nv)
            [] e.o.op \in {"TmpElem", "WithElem"} -> e.store = old /\ GetAfterSet(ov, e.o.p, ValOf(st, e.o.v), e.mid)
            [] e.o.op = "SetElemsStale" -> GetAfterSet(ov, e.o.p2, ValOf(st, e.o.v2), nv) /\ ElementFrame(ov, e.o.p2, nv)
            [] OTHER -> e.store = old
EmitT == PrintT(ToJson(hist'))
=============================================================================
