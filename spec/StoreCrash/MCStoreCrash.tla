---------------------------- MODULE MCStoreCrash ----------------------------
(* M for C25: histories of <= MaxOps operations in all (over all processes) from a small pool, a crash possible in
   every state, <= MaxCrashes crashes, each followed by Reopen and Continue. *)
EXTENDS StoreCrash
CONSTANTS MaxOps, MaxCrashes, Atomic
VARIABLES durable, base, attempted, acked, inflight, phase, ackedSeqs, crashes, nops
vars == <<durable, base, attempted, acked, inflight, phase, ackedSeqs, crashes, nops>>
O0 == [op |-> "", a |-> 0, b |-> 0, t |-> <<>>, d |-> 0, f |-> 0, bl |-> <<>>]
Pool == {[O0 EXCEPT !.op = "AddCmd", !.t = <<1>>], [O0 EXCEPT !.op = "AddCmd", !.t = <<2>>],
         [O0 EXCEPT !.op = "DelCmd", !.a = 1], [O0 EXCEPT !.op = "Cmd", !.a = 1],
         [O0 EXCEPT !.op = "AddDir", !.d = 1, !.f = 2], [O0 EXCEPT !.op = "DelDir", !.d = 1]}
Off == [on |-> FALSE, committed |-> FALSE, half |-> FALSE, r |-> R0]
Cur == attempted[Len(attempted)]
Init == /\ durable = Empty /\ base = Empty /\ attempted = <<>> /\ acked = 0 /\ inflight = Off
        /\ phase = "run" /\ ackedSeqs = {} /\ crashes = 0 /\ nops = 0
Begin(o) == /\ phase = "run" /\ ~inflight.on /\ nops < MaxOps
            /\ attempted' = Append(attempted, o) /\ nops' = nops + 1
            /\ inflight' = [Off EXCEPT !.on = TRUE]
            /\ UNCHANGED <<durable, base, acked, phase, ackedSeqs, crashes>>
Commit == /\ phase = "run" /\ inflight.on /\ ~inflight.committed
          /\ \/ /\ (Atomic \/ Cur.op # "AddCmd" \/ inflight.half)
                /\ durable' = (IF inflight.half THEN [durable EXCEPT !.cmds = durable.cmds \cup {[seq |-> durable.next, text |-> Cur.t]}]
                                                 ELSE Apply(durable, Cur))
                /\ inflight' = [inflight EXCEPT !.committed = TRUE,
                                                !.r = IF inflight.half THEN [R0 EXCEPT !.n = durable.next] ELSE Res(durable, Cur)]
             \/ /\ ~Atomic /\ Cur.op = "AddCmd" /\ ~inflight.half       \* the excluded design: counter first
                /\ durable' = [durable EXCEPT !.next = durable.next + 1]
                /\ inflight' = [inflight EXCEPT !.half = TRUE]
          /\ UNCHANGED <<base, attempted, acked, phase, ackedSeqs, crashes, nops>>
Ack == /\ phase = "run" /\ inflight.on /\ inflight.committed
       /\ acked' = acked + 1 /\ inflight' = Off
       /\ ackedSeqs' = IF Cur.op = "AddCmd" THEN ackedSeqs \cup {inflight.r.n} ELSE ackedSeqs
       /\ UNCHANGED <<durable, base, attempted, phase, crashes, nops>>
Crash == /\ phase = "run" /\ crashes < MaxCrashes
         /\ phase' = "down" /\ inflight' = Off /\ crashes' = crashes + 1
         /\ UNCHANGED <<durable, base, attempted, acked, ackedSeqs, nops>>
Reopen == /\ phase = "down" /\ phase' = "open"
          /\ UNCHANGED <<durable, base, attempted, acked, inflight, ackedSeqs, crashes, nops>>
Continue == /\ phase = "open" /\ phase' = "run"
            /\ base' = durable /\ attempted' = <<>> /\ acked' = 0
            /\ UNCHANGED <<durable, inflight, ackedSeqs, crashes, nops>>
Next == (\E o \in Pool : Begin(o)) \/ Commit \/ Ack \/ Crash \/ Reopen \/ Continue
Spec == Init /\ [][Next]_vars
PrefixOK == phase \in {"down", "open"} => durable \in PrefixStates(base, attempted, acked)
SeqAboveAcked == \A n \in ackedSeqs : n <= durable.next
StoreOK == SeqsBelowNext(durable) /\ SeqsUnique(durable) /\ DirsUnique(durable)
NextNeverDecreases == [][durable'.next >= durable.next]_vars
=============================================================================
