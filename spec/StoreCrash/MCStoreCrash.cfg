CONSTANTS MaxOps = 4 MaxCrashes = 2 Atomic = TRUE
SPECIFICATION Spec
INVARIANT PrefixOK
INVARIANT SeqAboveAcked
INVARIANT StoreOK
PROPERTY NextNeverDecreases
