------------------------------ MODULE StoreCrash ------------------------------
(* C25 -- the history store (pkg/store: db_store.go, cmd.go, dir.go; one bbolt read-write transaction
   with fsync per operation) survives a crash of the process using it at any point.

   State
     durable    the store state on disk (a HistStore state)
     base       the durable state when the current process opened the database
     attempted  the operations the current process has started, in order          (child prints BEGIN k)
     acked      how many of them it has acknowledged                               (child prints ACK k r)
     inflight   [on, committed, r]  the operation being executed, whether its transaction has
                committed, and the result it will return
     phase      "run" | "down" (killed) | "open" (reopened by the next process)
     ackedSeqs  ghost: every sequence number ever acknowledged for an AddCmd
   Actions
     Begin(o)   a process starts operation o
     Commit     its transaction commits: durable' = Apply(durable, o), ATOMICALLY (the point of bbolt's
                meta-page switch).  With the switch Atomic = FALSE the model instead commits AddCmd in
                two steps (sequence counter, then the entry) -- the design the property excludes; TLC
                must then find the torn state (vacuity guard for PrefixOK).
     Ack        the operation returns and is acknowledged
     Crash      enabled in EVERY state of a running process: the process is killed; inflight is lost
     Reopen     the next process opens the database (must succeed: the model has no failing Reopen)
     Continue   ... and carries on: base' = durable, attempted' = <<>>
   Properties
     PrefixOK       durable = Apply folded over the first p attempted operations from base, for some p with
                    acked <= p <= acked + 1   (every acknowledged operation is there; at most the one in
                    flight beyond them, wholly or not at all)
     SeqAboveAcked  every acknowledged sequence number is <= durable.next, hence any number handed out
                    later (durable.next + 1) is larger than every acknowledged one
   This decides atomicity and recovery under process kill (the page cache survives SIGKILL), not
   power loss; the property statement speaks of a killed process.
   Unspecified: as in HistStore (negative arguments; not generated). *)
EXTENDS HistStore, TLC

RECURSIVE Fold(_, _, _)
Fold(s, ops, n) == IF n = 0 THEN s ELSE Apply(Fold(s, ops, n - 1), ops[n])

(* is `s` the state after the first p operations, for an allowed p?  (used by the model and the walker) *)
PrefixStates(b, ops, ack) == {Fold(b, ops, p) : p \in {q \in {ack, ack + 1} : q <= Len(ops)}}
=============================================================================
