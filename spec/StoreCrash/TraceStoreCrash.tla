--------------------------- MODULE TraceStoreCrash ---------------------------
(* V for C25: crash experiments on the REAL store, run in real child processes that are killed.
   One experiment = a group of events (uniform fields) starting with "Reset" (fresh database file):
     "Crashed"  a child process ran the operations  attempted  in order, acknowledged the first
                acked  of them with the results  results  ([r, dirs] each), and ended (killed at an
                enumerated system call, at a random time, or not at all: then acked = Len(attempted)).
                The parent then reopened the file: opened = whether store.NewStore succeeded; cmds / next /
                dirs = the whole state read back (CmdsWithSeq(0,-1), NextCmdSeq, Dirs({})).
     "Op"       an operation the parent (or nobody else) executed after reopening, with its result.
   The walker keeps the model state st (HistStore).  At "Crashed": every acknowledged result must be the
   prescribed one along the fold from st; the reopened state must be the fold over the first p attempted
   operations for some acked <= p <= acked + 1 (StoreCrash!PrefixStates); st becomes that state.
   "Op" is judged as in TraceHistStore; since st.next is at least every acknowledged sequence number,
   an accepted AddCmd result after reopening exceeds all of them. *)
EXTENDS StoreCrash, Json
Cases == ndJsonDeserialize("cases.ndjson")
VARIABLES k, st, bad
O0 == [op |-> "", a |-> 0, b |-> 0, t |-> <<>>, d |-> 0, f |-> 0, bl |-> <<>>]
ListAll == [O0 EXCEPT !.op = "CmdsWithSeq", !.b = -1]
DirsAll == [O0 EXCEPT !.op = "Dirs"]
StepOK(s, o, r, dirs) == IF Unspecified(o) THEN TRUE
                         ELSE IF o.op = "Dirs" THEN DirsOK(s, o, dirs)
                         ELSE r = Res(s, o)
\* the state read back after reopening is model state s
Looks(s, e) == /\ e.cmds = Res(s, ListAll).list
               /\ e.next = s.next + 1
               /\ DirsOK(s, DirsAll, e.dirs)
AckedOK(s, e) == \A i \in 1..e.acked :
                   StepOK(Fold(s, e.attempted, i - 1), e.attempted[i], e.results[i].r, e.results[i].dirs)
Cands(s, e) == {p \in {e.acked, e.acked + 1} : p <= Len(e.attempted) /\ Looks(Fold(s, e.attempted, p), e)}
MinP(S) == CHOOSE p \in S : \A q \in S : p <= q
Why(s, e) == IF ~e.opened THEN "does-not-open"
             ELSE IF e.acked > Len(e.attempted) THEN "acked-beyond-attempted"
             ELSE IF ~AckedOK(s, e) THEN "acked-result"
             ELSE IF Cands(s, e) = {} THEN "not-a-prefix"
             ELSE ""
Init == k = 0 /\ st = Empty /\ bad = FALSE
Next == /\ k < Len(Cases) /\ k' = k + 1
        /\ LET e == Cases[k + 1] IN
           IF e.k = "Reset" THEN st' = Empty /\ bad' = FALSE
           ELSE IF bad THEN UNCHANGED <<st, bad>>
           ELSE IF e.k = "Crashed"
                THEN LET w == Why(st, e) IN
                     IF w # "" THEN st' = st /\ bad' = PrintT(<<"BAD", k + 1, w, e.acked, Len(e.attempted)>>)
                     ELSE /\ st' = Fold(st, e.attempted, MinP(Cands(st, e)))
                          /\ bad' = FALSE
                          /\ PrintT(<<"P", k + 1, e.acked, MinP(Cands(st, e)), Len(e.attempted)>>)
                ELSE /\ st' = Apply(st, e.o)
                     /\ bad' = (~StepOK(st, e.o, e.r, e.dirs) /\ PrintT(<<"BAD", k + 1, "continued-result", e.o.op, ToJson(Res(st, e.o))>>))
Inv == TRUE
=============================================================================
