---------------------------- MODULE MCStyledText ----------------------------
(* C33, M + G for behaviours: the operations of StyledText.tla as actions on a pool of texts
   (results feed later operations) and one TextBuilder.  One action per public call:

     DoT(s, gs)          pool += T(s, gs)
     DoConcat(i, j)      pool += Concat(pool[i], pool[j])
     DoPartition(i, ix)  pool += pool[i].Partition(ix)      (specified indices only)
     DoSplit(i, r)       pool += pool[i].SplitByRune(r)     (non-empty texts only: piece count fixed)
     DoTrim(i, w)        pool += pool[i].TrimWcwidth(w)
     DoStyle(i, gs)      pool += StyleText(pool[i], gs)
     DoTBWrite(i)        builder.WriteText(pool[i])         observed: Empty()
     DoTBText            pool += builder.Text()             observed: Empty()
     DoTBReset           builder.Reset()                    observed: Empty()

   hist records every step with its prescribed results; a behaviour of length Depth is printed
   (Emit) and replayed on the real API with the REAL results fed forward, compared after every step.
   Invariants: every text in the pool is Normal; StepLaw = the content law of the last step. *)
EXTENDS StyledText, TLC, Json, SequencesExt
CONSTANTS Depth, MaxW, MaxPool, LitSel
VARIABLES pool, tb, hist

CA == Char(97, 1, 1)
CW == Char(20320, 2, 3)
CZ == Char(769, 0, 2)
CN == Char(10, 0, 1)
CE == Char(233, 1, 2)
G(k, col, b) == [k |-> k, c |-> col, b |-> b]
LitStrings == IF LitSel = 1 THEN {<<>>, <<CA>>, <<CW>>, <<CA, CZ>>, <<CA, CN>>, <<CN, CW>>}
              ELSE {<<>>, <<CA>>, <<CW>>, <<CZ>>, <<CN>>, <<CA, CZ>>, <<CA, CN>>, <<CN, CW>>, <<CE, CA>>, <<CW, CZ, CA>>, <<CA, CN, CN>>}
LitStylings  == {<<>>, <<G("fg", "red", 0)>>, <<G("on", "", 1)>>}
PoolStylings == {<<G("fg", "red", 0)>>, <<G("toggle", "", 1)>>, <<G("reset", "", 0)>>}

E(op) == [op |-> op, ai |-> <<>>, ix |-> <<>>, w |-> 0, gs |-> <<>>, r |-> 0, s |-> <<>>, res |-> <<>>, flags |-> <<>>]

Init == pool = <<>> /\ tb = TBInit /\ hist = <<>>
Add(e, p, b) == pool' = p /\ tb' = b /\ hist' = Append(hist, e)
Room == Len(pool) < MaxPool

DoT == Room /\ \E s \in LitStrings, gs \in LitStylings :
         LET t == RefT(s, gs) IN Add([E("t") EXCEPT !.s = s, !.gs = gs, !.res = <<t>>], Append(pool, t), tb)
DoConcat == Room /\ \E i \in 1..Len(pool), j \in 1..Len(pool) :
         LET t == RefConcat(<<pool[i], pool[j]>>) IN Add([E("concat") EXCEPT !.ai = <<i, j>>, !.res = <<t>>], Append(pool, t), tb)
IxChoices(t) == LET n == SumB(Plain(t)) IN {<<a>> : a \in 0..n} \cup {<<a, b>> : a \in 0..n, b \in 0..n}
DoPartition == Room /\ \E i \in 1..Len(pool) : \E ix \in IxChoices(pool[i]) :
         /\ ~PartitionUnspecified(pool[i], ix)
         /\ LET ps == RefPartition(pool[i], ix) IN Add([E("partition") EXCEPT !.ai = <<i>>, !.ix = ix, !.res = ps], pool \o ps, tb)
DoSplit == Room /\ \E i \in 1..Len(pool), r \in {10, 97} :
         /\ pool[i].segs # <<>>
         /\ LET ps == RefSplit(pool[i], r) IN Add([E("split") EXCEPT !.ai = <<i>>, !.r = r, !.res = ps], pool \o ps, tb)
DoTrim == Room /\ \E i \in 1..Len(pool), w \in 0..MaxW :
         LET t == RefTrim(pool[i], w) IN Add([E("trim") EXCEPT !.ai = <<i>>, !.w = w, !.res = <<t>>], Append(pool, t), tb)
DoStyle == Room /\ \E i \in 1..Len(pool), gs \in PoolStylings :
         LET t == RefStyle(pool[i], gs) IN Add([E("style") EXCEPT !.ai = <<i>>, !.gs = gs, !.res = <<t>>], Append(pool, t), tb)
DoTBWrite == \E i \in 1..Len(pool) :
         LET b == TBWrite(tb, pool[i]) IN Add([E("tbwrite") EXCEPT !.ai = <<i>>, !.flags = <<TBEmpty(b)>>], pool, b)
DoTBText == Room /\ Add([E("tbtext") EXCEPT !.res = <<TBText(tb)>>, !.flags = <<TBEmpty(tb)>>], Append(pool, TBText(tb)), tb)
DoTBReset == tb # TBInit /\ Add([E("tbreset") EXCEPT !.flags = <<TRUE>>], pool, TBReset(tb))

Next == Len(hist) < Depth /\
        (DoT \/ DoConcat \/ DoPartition \/ DoSplit \/ DoTrim \/ DoStyle \/ DoTBWrite \/ DoTBText \/ DoTBReset)

PoolNormal == \A i \in 1..Len(pool) : Normal(pool[i])
StepLaw ==
  hist = <<>> \/
  LET e == hist[Len(hist)]
      a == IF e.ai = <<>> THEN NilText ELSE pool[e.ai[1]]
  IN CASE e.op = "t"         -> Plain(e.res[1]) = e.s
       [] e.op = "concat"    -> Plain(e.res[1]) = Plain(a) \o Plain(pool[e.ai[2]])
       [] e.op = "partition" -> RefConcat(e.res) = a /\ Len(e.res) = Len(e.ix) + 1
       [] e.op = "split"     -> /\ SCAll(e.res) = SelectSeq(SC(a), LAMBDA x : Id(x.c) # e.r)
                                /\ Len(e.res) = Len(SelectSeq(Plain(a), LAMBDA x : Id(x) = e.r)) + 1
       [] e.op = "trim"      -> /\ SC(e.res[1]) = Prefix(SC(a), Len(Plain(e.res[1])))
                                /\ SumW(Plain(e.res[1])) <= e.w
                                /\ Len(Plain(e.res[1])) < Len(Plain(a)) => SumW(Prefix(Plain(a), Len(Plain(e.res[1])) + 1)) > e.w
       [] e.op = "style"     -> Plain(e.res[1]) = Plain(a)
       [] e.op = "tbwrite"   -> e.flags[1] <=> (TBText(tb) = NilText)
       [] e.op = "tbtext"    -> e.res[1] = FromSC(tb) /\ Normal(e.res[1])
       [] e.op = "tbreset"   -> tb = <<>>
Emit == Len(hist) < Depth \/ PrintT(ToJson(hist))
=============================================================================
