------------------------------ MODULE Styledown ------------------------------
(* C33, Styledown codec (pkg/ui/styledown): "rendering styled text to styledown notation and
   parsing it back gives the same styled text".

   Markup is modelled structurally, not as bytes:
     [lines : sequence of [text : chars, style : style chars],   alternating text / style lines
      noeol : BOOLEAN,                                            "no-eol" in the configuration stanza
      used  : sequence of style chars]                            definitions written, in order of first use
   A sheet is a sequence of [ch, st]: the style chars available (built-in: ' ' default, '*' bold,
   '_' underlined, '#' inverse; then the caller's definitions), injective in both directions.

     DerenderM(t, sheet)   styledown.Derender(t, defs)    one (text, style) line pair per line of t;
                           a style char is repeated once per display column of its char
     RenderM(m, sheet)     styledown.Render(markup)       chars paired with style chars by width;
                           lines joined by an UNSTYLED newline; final newline unless no-eol

   Outcome of Derender-then-Render on a text t, as observed by the executor: [err, t2].
     RoundTripAccepted(t, sheet):
       a style of a non-newline char is not in the sheet      -> Derender must report an error
       otherwise                                               -> no error and t2 = t
   Design fact checked in the model (NotationLosesNewlineStyle): the notation has no place for the
   style of a newline, so RenderM(DerenderM(t)) = t exactly when every newline of t is unstyled;
   for the others the property can only be met by reporting an error.  Both are accepted:
       t has a styled newline                                  -> error, or t2 = t
   Unspecified (SDUnspecified): t contains a zero-width char other than newline -- Render rejects
   zero-width characters ("zero-width character is not allowed"), Derender does not say. *)
EXTENDS StyledText

SDBuiltin == << [ch |-> 32, st |-> DefaultStyle],
                [ch |-> 42, st |-> [fg |-> "", bg |-> "", at |-> 1]],
                [ch |-> 95, st |-> [fg |-> "", bg |-> "", at |-> 8]],
                [ch |-> 35, st |-> [fg |-> "", bg |-> "", at |-> 32]] >>

InSheet(sheet, st) == \E i \in 1..Len(sheet) : sheet[i].st = st
CharFor(sheet, st) == sheet[CHOOSE i \in 1..Len(sheet) : sheet[i].st = st].ch
StyleFor(sheet, ch) == sheet[CHOOSE i \in 1..Len(sheet) : sheet[i].ch = ch].st
IsBuiltinChar(ch) == \E i \in 1..Len(SDBuiltin) : SDBuiltin[i].ch = ch

IsNL(c) == Id(c) = 10
SDUnspecified(t) == \E i \in 1..Len(Plain(t)) : Wd(Plain(t)[i]) = 0 /\ ~IsNL(Plain(t)[i])
StylesCovered(t, sheet) == \A i \in 1..Len(SC(t)) : IsNL(SC(t)[i].c) \/ InSheet(sheet, SC(t)[i].st)
NewlinesUnstyled(t) == \A i \in 1..Len(SC(t)) : IsNL(SC(t)[i].c) => SC(t)[i].st = DefaultStyle

RECURSIVE Rep(_, _)
Rep(x, n) == IF n = 0 THEN <<>> ELSE <<x>> \o Rep(x, n - 1)
RECURSIVE StyleLine(_, _)
StyleLine(sc, sheet) == IF sc = <<>> THEN <<>>
                        ELSE Rep(CharFor(sheet, Head(sc).st), Wd(Head(sc).c)) \o StyleLine(Tail(sc), sheet)
RECURSIVE LinesOf(_, _)
LinesOf(pieces, sheet) == IF pieces = <<>> THEN <<>>
                          ELSE <<[text |-> PlainSC(Head(pieces)), style |-> StyleLine(Head(pieces), sheet)]>>
                               \o LinesOf(Tail(pieces), sheet)
RECURSIVE FirstUse(_, _)
\* style chars of a flattened style line in order of first use, built-ins left out
FirstUse(chs, seen) == IF chs = <<>> THEN <<>>
                       ELSE IF Head(chs) \in seen \/ IsBuiltinChar(Head(chs)) THEN FirstUse(Tail(chs), seen)
                       ELSE <<Head(chs)>> \o FirstUse(Tail(chs), seen \cup {Head(chs)})
RECURSIVE AllStyle(_)
AllStyle(ls) == IF ls = <<>> THEN <<>> ELSE Head(ls).style \o AllStyle(Tail(ls))

DerenderM(t, sheet) ==
  LET pieces   == IF t.segs = <<>> THEN <<>> ELSE SplitSC(SC(t), 10)
      trailing == pieces # <<>> /\ pieces[Len(pieces)] = <<>>
      body     == IF trailing THEN SubSeq(pieces, 1, Len(pieces) - 1) ELSE pieces
      ls       == LinesOf(body, sheet)
  IN [lines |-> ls, noeol |-> ~trailing, used |-> FirstUse(AllStyle(ls), {})]

RECURSIVE Zip(_, _, _)
Zip(text, style, sheet) ==
  IF text = <<>> THEN <<>>
  ELSE <<[c |-> Head(text), st |-> StyleFor(sheet, style[1])]>>
       \o Zip(Tail(text), SubSeq(style, Wd(Head(text)) + 1, Len(style)), sheet)
NLChar == Char(10, 0, 1)
RECURSIVE JoinLines(_, _)
JoinLines(ls, sheet) ==
  IF ls = <<>> THEN <<>>
  ELSE IF Len(ls) = 1 THEN Zip(ls[1].text, ls[1].style, sheet)
  ELSE Zip(ls[1].text, ls[1].style, sheet) \o <<[c |-> NLChar, st |-> DefaultStyle]>> \o JoinLines(Tail(ls), sheet)
RenderM(m, sheet) ==
  FromSC(JoinLines(m.lines, sheet) \o (IF m.noeol THEN <<>> ELSE <<[c |-> NLChar, st |-> DefaultStyle]>>))

\* well-formed markup: every style line is exactly as wide as its text line
WellFormed(m) == \A i \in 1..Len(m.lines) : Len(m.lines[i].style) = SumW(m.lines[i].text)

Outcome(err, t) == [err |-> err, t2 |-> t]
RoundTripAccepted(t, sheet) ==
  IF ~StylesCovered(t, sheet) THEN {Outcome(TRUE, NilText)}
  ELSE IF NewlinesUnstyled(t) THEN {Outcome(FALSE, t)}
  ELSE {Outcome(TRUE, NilText), Outcome(FALSE, t)}

(* ---- laws checked in MCStyledown ---- *)
RoundTripLaw(t, sheet) ==
  (Normal(t) /\ ~SDUnspecified(t) /\ StylesCovered(t, sheet) /\ NewlinesUnstyled(t)) =>
     /\ WellFormed(DerenderM(t, sheet))
     /\ RenderM(DerenderM(t, sheet), sheet) = t
NotationLosesNewlineStyle(t, sheet) ==
  (Normal(t) /\ ~SDUnspecified(t) /\ StylesCovered(t, sheet) /\ ~NewlinesUnstyled(t) /\
     \A i \in 1..Len(SC(t)) : InSheet(sheet, SC(t)[i].st)) =>
     RenderM(DerenderM(t, sheet), sheet) # t
=============================================================================
