--------------------------- MODULE JudgeStyledText ---------------------------
(* C33, V: case walker.  Each recorded case is [c : the call with its projected arguments,
   res : what the real code returned, projected].  The case is accepted iff the specification
   leaves it Unspecified or the real result is one of the accepted results.  For a rejected case
   the accepted results are printed so that the executor can label the rejection. *)
EXTENDS StyledText, TLC, Json, SequencesExt
Cases == ndJsonDeserialize("cases.ndjson")
VARIABLE k
Init == k = 0
Next == k < Len(Cases) /\ k' = k + 1
CaseOK(x) == Unspec(x.c) \/ x.res \in Accepted(x.c)
Inv == k = 0 \/ CaseOK(Cases[k]) \/ PrintT(<<"BAD", k, ToJson(SetToSeq(Accepted(Cases[k].c)))>>)
=============================================================================
