--------------------------- MODULE JudgeStyledown ---------------------------
(* C33, V: case walker for Styledown round trips.  A recorded case is
   [t : projected text, defs : the caller's style definitions as [ch, st] (the sheet is the
   built-ins followed by them), out : [err, t2] = what Derender-then-Render did]. *)
EXTENDS Styledown, TLC, Json, SequencesExt
Cases == ndJsonDeserialize("cases.ndjson")
VARIABLE k
Init == k = 0
Next == k < Len(Cases) /\ k' = k + 1
CaseOK(x) == SDUnspecified(x.t) \/ x.out \in RoundTripAccepted(x.t, SDBuiltin \o x.defs)
Inv == k = 0 \/ CaseOK(Cases[k]) \/ PrintT(<<"BAD", k>>)
=============================================================================
