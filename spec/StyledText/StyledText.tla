------------------------------ MODULE StyledText ------------------------------
(* C33 -- styled text (pkg/ui: Text, Segment, TextBuilder, Styling) stays normalised and keeps
   its content.

   WHAT IS MODELLED
     char      an integer packing (code point, display width 0..2, UTF-8 length 1..4):
               Char(id, w, b).  Width and byte length are DATA supplied by the executor (width =
               wcwidth.OfRune, checked when concretising); the module only uses them.
     style     [fg, bg : colour name, "" = default;  at : bit set bold=1 dim=2 italic=4
               underlined=8 blink=16 inverse=32]          (ui.Style)
     styling   [k : "reset"|"fg"|"bg"|"on"|"off"|"toggle", c : colour, b : bit]   (ui.Styling)
     segment   [st : style, cs : sequence of chars]        (ui.Segment)
     text      [nil : BOOLEAN, segs : sequence of segments] (ui.Text; nil = "the Go slice is nil";
               the projection of the real value reports nil and the segments independently)

   THE PROPERTY
     Normal(t)   (doc comment of ui.Text) == the empty text is nil /\ no segment is empty /\ no two
                 adjacent segments have the same style.
     The meaning of a text is its sequence of styled chars SC(t).  FromSC(sc) is THE normal text
     with that meaning (theorem NormalIsCanonical: Normal(t) <=> t = FromSC(SC(t))), so every
     operation is specified by what it does to styled chars -- that is its content law -- and its
     result is FromSC(..) -- that is normality.

   OPERATIONS (one per public call; the result prescribed here is compared with the real result)
     RefT(s, sgs)            ui.T(s, stylings...)
     RefConcat(ts)           ui.Concat(texts...)          Plain = concatenation of the Plains
     RefPartition(t, ix)     Text.Partition(indices...)   Concat(pieces) = t ; cut at byte offsets
     SplitAccepted(t, r)     Text.SplitByRune(r)          Join(pieces, r) = t ; no piece contains r
     RefTrim(t, w)           Text.TrimWcwidth(w)          the longest prefix of width <= w
     RefStyle(t, sgs)        ui.StyleText(t, stylings...) same chars, every style transformed
     RefStyleSegment(g, sgs) ui.StyleSegment(seg, ..)     same chars, style transformed
     TextBuilder             TBWrite / TBText / TBEmpty / TBReset over the builder's styled chars
     (Styledown: see Styledown.tla.)

   UNSPECIFIED (both outcomes accepted; the executor does not judge these cases)
     PartitionUnspecified(t, ix)  an index that is not a char boundary of the text (inside a
                                  multi-byte char, negative, beyond the end) or decreasing indices
     TrimUnspecified(w)           w < 0
     SplitByRune of the empty text: zero pieces (the code) or one empty piece (strings.Split
                                  convention) -- both satisfy Join(pieces) = t. *)
EXTENDS Integers, Sequences, FiniteSets

(* ------------------------------ chars ------------------------------ *)
Char(id, w, b) == id * 12 + w * 4 + (b - 1)
Id(c) == c \div 12
Wd(c) == (c % 12) \div 4
Bt(c) == (c % 4) + 1

RECURSIVE SumW(_)
SumW(s) == IF s = <<>> THEN 0 ELSE Wd(Head(s)) + SumW(Tail(s))
RECURSIVE SumB(_)
SumB(s) == IF s = <<>> THEN 0 ELSE Bt(Head(s)) + SumB(Tail(s))
Prefix(s, n) == SubSeq(s, 1, n)

(* ------------------------------ styles ------------------------------ *)
DefaultStyle == [fg |-> "", bg |-> "", at |-> 0]
Has(at, bit) == (at \div bit) % 2 = 1
ApplyOne(st, g) ==
  CASE g.k = "reset"  -> DefaultStyle
    [] g.k = "fg"     -> [st EXCEPT !.fg = g.c]
    [] g.k = "bg"     -> [st EXCEPT !.bg = g.c]
    [] g.k = "on"     -> IF Has(st.at, g.b) THEN st ELSE [st EXCEPT !.at = @ + g.b]
    [] g.k = "off"    -> IF Has(st.at, g.b) THEN [st EXCEPT !.at = @ - g.b] ELSE st
    [] g.k = "toggle" -> IF Has(st.at, g.b) THEN [st EXCEPT !.at = @ - g.b] ELSE [st EXCEPT !.at = @ + g.b]
RECURSIVE Apply(_, _)
Apply(st, gs) == IF gs = <<>> THEN st ELSE Apply(ApplyOne(st, Head(gs)), Tail(gs))

(* ------------------------------ texts ------------------------------ *)
Seg(st, cs) == [st |-> st, cs |-> cs]
Txt(segs)   == [nil |-> segs = <<>>, segs |-> segs]
NilText     == Txt(<<>>)

Normal(t) ==
  /\ t.nil <=> t.segs = <<>>
  /\ \A i \in 1..Len(t.segs) : t.segs[i].cs # <<>>
  /\ \A i \in 1..(Len(t.segs) - 1) : t.segs[i].st # t.segs[i + 1].st

RECURSIVE Flat(_)
Flat(segs) == IF segs = <<>> THEN <<>> ELSE Head(segs).cs \o Flat(Tail(segs))
Plain(t) == Flat(t.segs)

\* styled chars of a segment / a segment sequence / a text
RECURSIVE SCSeg(_, _)
SCSeg(st, cs) == IF cs = <<>> THEN <<>> ELSE <<[c |-> Head(cs), st |-> st]>> \o SCSeg(st, Tail(cs))
RECURSIVE SCSegs(_)
SCSegs(segs) == IF segs = <<>> THEN <<>> ELSE SCSeg(Head(segs).st, Head(segs).cs) \o SCSegs(Tail(segs))
SC(t) == SCSegs(t.segs)

\* maximal runs of equal style
RECURSIVE Group(_)
Group(sc) ==
  IF sc = <<>> THEN <<>>
  ELSE LET h == Head(sc)  rest == Group(Tail(sc))
       IN IF rest # <<>> /\ rest[1].st = h.st
          THEN <<Seg(h.st, <<h.c>> \o rest[1].cs)>> \o Tail(rest)
          ELSE <<Seg(h.st, <<h.c>>)>> \o rest
FromSC(sc) == Txt(Group(sc))

RECURSIVE PlainSC(_)
PlainSC(sc) == IF sc = <<>> THEN <<>> ELSE <<Head(sc).c>> \o PlainSC(Tail(sc))
RECURSIVE Restyle(_, _)
Restyle(sc, gs) ==
  IF sc = <<>> THEN <<>> ELSE <<[c |-> Head(sc).c, st |-> Apply(Head(sc).st, gs)]>> \o Restyle(Tail(sc), gs)

(* ------------------------------ operations ------------------------------ *)
RefT(s, gs) == FromSC(SCSeg(Apply(DefaultStyle, gs), s))

RECURSIVE SCAll(_)
SCAll(ts) == IF ts = <<>> THEN <<>> ELSE SC(Head(ts)) \o SCAll(Tail(ts))
RefConcat(ts) == FromSC(SCAll(ts))

\* byte offset k is a char boundary of cs
Boundary(cs, k) == \E n \in 0..Len(cs) : SumB(Prefix(cs, n)) = k
CharsBefore(cs, k) == CHOOSE n \in 0..Len(cs) : SumB(Prefix(cs, n)) = k
PartitionUnspecified(t, ix) ==
  \/ \E i \in 1..Len(ix) : ~Boundary(Plain(t), ix[i])
  \/ \E i \in 1..(Len(ix) - 1) : ix[i] > ix[i + 1]
RECURSIVE Pieces(_, _, _)
\* sc: what is left, done: bytes already consumed, ix: remaining indices
Pieces(sc, done, ix) ==
  IF ix = <<>> THEN <<FromSC(sc)>>
  ELSE LET n == CharsBefore(PlainSC(sc), Head(ix) - done)
       IN <<FromSC(Prefix(sc, n))>> \o Pieces(SubSeq(sc, n + 1, Len(sc)), Head(ix), Tail(ix))
RefPartition(t, ix) == Pieces(SC(t), 0, ix)

RECURSIVE SplitSC(_, _)
SplitSC(sc, r) ==
  IF \A i \in 1..Len(sc) : Id(sc[i].c) # r THEN <<sc>>
  ELSE LET k == CHOOSE k \in 1..Len(sc) : Id(sc[k].c) = r /\ \A j \in 1..(k - 1) : Id(sc[j].c) # r
       IN <<Prefix(sc, k - 1)>> \o SplitSC(SubSeq(sc, k + 1, Len(sc)), r)
RECURSIVE TextsOf(_)
TextsOf(scs) == IF scs = <<>> THEN <<>> ELSE <<FromSC(Head(scs))>> \o TextsOf(Tail(scs))
RefSplit(t, r) == TextsOf(SplitSC(SC(t), r))
SplitAccepted(t, r) == IF t.segs = <<>> THEN {<<>>, <<NilText>>} ELSE {RefSplit(t, r)}

TrimUnspecified(w) == w < 0
\* the longest prefix whose width is <= w  (widths are >= 0, so prefix widths are monotone)
TrimLen(cs, w) ==
  CHOOSE n \in 0..Len(cs) :
    /\ SumW(Prefix(cs, n)) <= w
    /\ \A m \in (n + 1)..Len(cs) : SumW(Prefix(cs, m)) > w
RefTrim(t, w) == FromSC(Prefix(SC(t), TrimLen(Plain(t), w)))

RefStyle(t, gs) == FromSC(Restyle(SC(t), gs))
RefStyleSegment(g, gs) == Seg(Apply(g.st, gs), g.cs)

\* TextBuilder: its abstract state is the styled chars written since the last Reset
TBInit         == <<>>
TBWrite(tb, t) == tb \o SC(t)
TBText(tb)     == FromSC(tb)
TBEmpty(tb)    == tb = <<>>
TBReset(tb)    == <<>>

(* ------------------------------ cases ------------------------------
   A case is one call:  [op, t, ts, ix, w, gs, r, s]  (unused fields carry <<>> / 0 / NilText):
     "t"         T(s, gs)                      "concat"   Concat(ts)
     "partition" t.Partition(ix)               "split"    t.SplitByRune(r)    (r a code point)
     "trim"      t.TrimWcwidth(w)              "style"    StyleText(t, gs)
     "styleseg"  StyleSegment(t.segs[1], gs)   (result wrapped as a one-segment non-nil text)
     "tb"        a TextBuilder script: ts[i] is written at step i, after Reset() when ix[i] = 1;
                 observed: Text() and Empty() of the zero value and after every step
   Accepted(cc) is the set of results [texts, flags] the specification accepts. *)
Unspec(cc) == CASE cc.op = "partition" -> PartitionUnspecified(cc.t, cc.ix)
                [] cc.op = "trim"      -> TrimUnspecified(cc.w)
                [] OTHER               -> FALSE

\* builder: the texts and Empty() flags observed after each step, starting with the zero value
RECURSIVE TBRun(_, _, _)
TBRun(tb, ts, ix) ==
  IF ts = <<>> THEN [texts |-> <<>>, flags |-> <<>>]
  ELSE LET tb1 == TBWrite(IF Head(ix) = 1 THEN TBReset(tb) ELSE tb, Head(ts))
           rest == TBRun(tb1, Tail(ts), Tail(ix))
       IN [texts |-> <<TBText(tb1)>> \o rest.texts, flags |-> <<TBEmpty(tb1)>> \o rest.flags]

One(texts) == {[texts |-> texts, flags |-> <<>>]}
Accepted(cc) ==
  CASE cc.op = "t"         -> One(<<RefT(cc.s, cc.gs)>>)
    [] cc.op = "concat"    -> One(<<RefConcat(cc.ts)>>)
    [] cc.op = "partition" -> IF Unspec(cc) THEN {} ELSE One(RefPartition(cc.t, cc.ix))
    [] cc.op = "split"     -> UNION {One(ps) : ps \in SplitAccepted(cc.t, cc.r)}
    [] cc.op = "trim"      -> IF Unspec(cc) THEN {} ELSE One(<<RefTrim(cc.t, cc.w)>>)
    [] cc.op = "style"     -> One(<<RefStyle(cc.t, cc.gs)>>)
    [] cc.op = "styleseg"  -> One(<<[nil |-> FALSE, segs |-> <<RefStyleSegment(cc.t.segs[1], cc.gs)>>]>>)
    [] cc.op = "tb"        -> LET r0 == TBRun(TBInit, cc.ts, cc.ix)
                              IN {[texts |-> <<TBText(TBInit)>> \o r0.texts, flags |-> <<TBEmpty(TBInit)>> \o r0.flags]}


(* ------------------------------ laws (checked by TLC in MCStyledCases / MCStyledText) ------ *)
NormalIsCanonical(t) == Normal(t) <=> t = FromSC(SC(t))

RECURSIVE PlainAll(_)
PlainAll(ts) == IF ts = <<>> THEN <<>> ELSE Plain(Head(ts)) \o PlainAll(Tail(ts))
AllNormal(ts) == \A i \in 1..Len(ts) : Normal(ts[i])

LawT(s, gs)      == Normal(RefT(s, gs)) /\ Plain(RefT(s, gs)) = s
LawConcat(ts)    == Normal(RefConcat(ts)) /\ Plain(RefConcat(ts)) = PlainAll(ts)
LawPartition(t, ix) ==
  PartitionUnspecified(t, ix) \/
    LET ps == RefPartition(t, ix)
    IN /\ Len(ps) = Len(ix) + 1
       /\ AllNormal(ps)
       /\ Normal(t) => RefConcat(ps) = t
       /\ \A i \in 1..Len(ix) : SumB(PlainAll(Prefix(ps, i))) = ix[i]
RECURSIVE Join(_, _)
\* plain join with the separator char sep
Join(ps, sep) == IF ps = <<>> THEN <<>>
                 ELSE IF Len(ps) = 1 THEN Plain(ps[1])
                 ELSE Plain(ps[1]) \o <<sep>> \o Join(Tail(ps), sep)
LawSplit(t, sep) ==
  \A ps \in SplitAccepted(t, Id(sep)) :
    /\ AllNormal(ps)
    /\ \A i \in 1..Len(ps) : \A j \in 1..Len(Plain(ps[i])) : Id(Plain(ps[i])[j]) # Id(sep)
    \* every occurrence of the rune in t is the same char sep in the bounded models
    /\ (\A j \in 1..Len(Plain(t)) : Id(Plain(t)[j]) = Id(sep) => Plain(t)[j] = sep) => Join(ps, sep) = Plain(t)
LawTrim(t, w) ==
  TrimUnspecified(w) \/
    LET r == RefTrim(t, w)  p == Plain(r)  q == Plain(t)
    IN /\ Normal(r)
       /\ Len(p) <= Len(q) /\ p = Prefix(q, Len(p))
       /\ SumW(p) <= w
       /\ Len(p) < Len(q) => SumW(Prefix(q, Len(p) + 1)) > w
       /\ Normal(t) => SC(r) = Prefix(SC(t), Len(p))
LawStyle(t, gs) == Normal(RefStyle(t, gs)) /\ Plain(RefStyle(t, gs)) = Plain(t)
=============================================================================
