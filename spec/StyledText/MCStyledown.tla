---------------------------- MODULE MCStyledown ----------------------------
(* C33, M + G for the Styledown codec.  InitRT: every initial state is a text (with the sheet
   built-ins + 'R' = red); TLC checks RoundTripLaw / NotationLosesNewlineStyle and prints the text
   with the accepted outcomes of Derender-then-Render.  InitRender: every initial state is a
   structural markup (possibly with an unknown style char or an inconsistent pair under a wide
   char); TLC prints it with the accepted outcome of Render. *)
EXTENDS Styledown, TLC, Json, SequencesExt
CONSTANTS MaxSegs, MaxChars, MaxLines, NSty
VARIABLE c

CA == Char(97, 1, 1)
CW == Char(20320, 2, 3)
CN == Char(10, 0, 1)
CZ == Char(769, 0, 2)
Red   == [fg |-> "red", bg |-> "", at |-> 0]
BoldS == [fg |-> "", bg |-> "", at |-> 1]
Blue  == [fg |-> "blue", bg |-> "", at |-> 0]      \* not in the sheet
Sheet == SDBuiltin \o <<[ch |-> 82, st |-> Red]>>
Styles == {DefaultStyle, BoldS, Red, Blue}
Chars == {CA, CW, CN}

RECURSIVE StringsLen(_)
StringsLen(n) == IF n = 0 THEN {<<>>} ELSE {<<ch>> \o s : ch \in Chars, s \in StringsLen(n - 1)}
Strings == UNION {StringsLen(n) : n \in 1..MaxChars}
RECURSIVE SegsLen(_)
SegsLen(k) == IF k = 0 THEN {<<>>}
              ELSE {x \in {<<Seg(st, cs)>> \o rest : st \in Styles, cs \in Strings, rest \in SegsLen(k - 1)} :
                      Len(x) = 1 \/ x[1].st # x[2].st}
Texts(z) == {Txt(segs) : segs \in UNION {SegsLen(k) : k \in 0..MaxSegs}} \cup {Txt(<<Seg(DefaultStyle, <<CA, CZ>>)>>)}

EmptyM == [lines |-> <<>>, noeol |-> FALSE, used |-> <<>>]
InitRT == c \in {[kind |-> "rt", t |-> t, m |-> EmptyM] : t \in Texts(0)}

\* markups: text lines over {a, wide}, style lines of the right width over the first NSty of StyChars
MTexts == UNION {{s \in StringsLen(n) : \A i \in 1..n : s[i] # CN} : n \in 0..2}
StyChars == <<42, 63, 82, 32>>     \* '*' '?' (undefined) 'R' ' '
RECURSIVE StyleSeqs(_)
StyleSeqs(n) == IF n = 0 THEN {<<>>} ELSE {<<ch>> \o s : ch \in {StyChars[i] : i \in 1..NSty}, s \in StyleSeqs(n - 1)}
RECURSIVE LineSeqs(_)
LineSeqs(n) == IF n = 0 THEN {<<>>} ELSE {<<l>> \o r : l \in UNION {{[text |-> tx, style |-> sy] : sy \in StyleSeqs(SumW(tx))} : tx \in MTexts}, r \in LineSeqs(n - 1)}
Markups(z) == {[lines |-> ls, noeol |-> e, used |-> <<>>] : ls \in UNION {LineSeqs(n) : n \in 0..MaxLines}, e \in BOOLEAN}
InitRender == c \in {[kind |-> "render", t |-> NilText, m |-> m] : m \in Markups(0)}
InitBoth == InitRT \/ InitRender
Next == UNCHANGED c

\* Render must reject: a style char that is not defined; different style chars under one wide char
RECURSIVE LineBad(_, _)
LineBad(text, style) ==
  IF text = <<>> THEN FALSE
  ELSE LET w == Wd(Head(text)) IN
       \/ \E i \in 1..w : style[i] # style[1]
       \/ ~\E j \in 1..Len(Sheet) : Sheet[j].ch = style[1]
       \/ LineBad(Tail(text), SubSeq(style, w + 1, Len(style)))
MarkupBad(m) == \E i \in 1..Len(m.lines) : LineBad(m.lines[i].text, m.lines[i].style)
RenderAccepted(m) == IF MarkupBad(m) THEN {Outcome(TRUE, NilText)} ELSE {Outcome(FALSE, RenderM(m, Sheet))}

Accepted2 == IF c.kind = "rt" THEN RoundTripAccepted(c.t, Sheet) ELSE RenderAccepted(c.m)
LawOK == IF c.kind = "rt"
         THEN RoundTripLaw(c.t, Sheet) /\ NotationLosesNewlineStyle(c.t, Sheet)
         ELSE WellFormed(c.m) /\ (~MarkupBad(c.m) => Normal(RenderM(c.m, Sheet)))
Emit == PrintT(ToJson([c |-> c, alts |-> SetToSeq(Accepted2), unspec |-> (c.kind = "rt" /\ SDUnspecified(c.t))]))
=============================================================================
