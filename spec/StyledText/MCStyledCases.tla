---------------------------- MODULE MCStyledCases ----------------------------
(* C33, M + G for the one-step operations.  Every initial state is one case (operation +
   arguments); TLC checks the content/normality laws of the reference on it (LawOK) and prints the
   case with the set of results the specification accepts (Emit).  INIT InitAll enumerates all
   operations (or one: InitT / InitConcat / ...); the scope of each operation (ScopeOf) depends on
   the tier, with an alphabet chosen per operation so that the enumeration stays exhaustive. *)
EXTENDS StyledText, TLC, Json, SequencesExt
CONSTANT Tier      \* 1 = quick scopes, 2 = thorough scopes
VARIABLE c

CA == Char(97, 1, 1)       \* a
CB == Char(98, 1, 1)       \* b
CE == Char(233, 1, 2)      \* e-acute: narrow, 2 bytes
CW == Char(20320, 2, 3)    \* CJK ideograph: wide, 3 bytes
CZ == Char(769, 0, 2)      \* combining acute: zero width, 2 bytes
CN == Char(10, 0, 1)       \* newline
AlphaOf(k) == CASE k = 1 -> {CA, CW, CZ}
                [] k = 2 -> {CA, CN, CW}
                [] k = 3 -> {CA, CE}
                [] k = 4 -> {CA, CW}
                [] k = 5 -> {CA, CW, CZ, CN}
                [] k = 6 -> {CA, CE, CW}

\* scope of an operation: ms segments per text, mc chars per segment, ns styles, al alphabet,
\* mw widths 0..mw (and -1), mi partition indices, sl TextBuilder script length
Scope(ms, mc, ns, al, mw, mi, sl) == [ms |-> ms, mc |-> mc, ns |-> ns, al |-> al, mw |-> mw, mi |-> mi, sl |-> sl]
ScopeOf(op) ==
  IF Tier = 1
  THEN CASE op = "t"         -> Scope(1, 2, 2, 5, 0, 0, 0)
         [] op = "concat"    -> Scope(2, 1, 3, 4, 0, 0, 0)
         [] op = "concat3"   -> Scope(1, 1, 3, 4, 0, 0, 0)
         [] op = "partition" -> Scope(2, 1, 2, 6, 0, 2, 0)
         [] op = "split"     -> Scope(2, 2, 2, 2, 0, 0, 0)
         [] op = "trim"      -> Scope(2, 2, 2, 1, 4, 0, 0)
         [] op = "style"     -> Scope(3, 1, 3, 4, 0, 0, 0)
         [] op = "styleseg"  -> Scope(1, 2, 4, 4, 0, 0, 0)
         [] op = "tb"        -> Scope(2, 1, 2, 4, 0, 0, 2)
  ELSE CASE op = "t"         -> Scope(1, 3, 2, 5, 0, 0, 0)
         [] op = "concat"    -> Scope(2, 2, 3, 4, 0, 0, 0)
         [] op = "concat3"   -> Scope(2, 1, 3, 4, 0, 0, 0)
         [] op = "partition" -> Scope(3, 2, 2, 3, 0, 2, 0)
         [] op = "split"     -> Scope(3, 2, 3, 2, 0, 0, 0)
         [] op = "trim"      -> Scope(3, 2, 3, 1, 7, 0, 0)
         [] op = "style"     -> Scope(3, 1, 4, 4, 0, 0, 0)
         [] op = "styleseg"  -> Scope(1, 2, 4, 5, 0, 0, 0)
         [] op = "tb"        -> Scope(2, 1, 2, 4, 0, 0, 3)

Red  == [fg |-> "red", bg |-> "", at |-> 0]
Bold == [fg |-> "", bg |-> "", at |-> 1]
RedB == [fg |-> "red", bg |-> "", at |-> 1]
StyleList == <<DefaultStyle, Red, Bold, RedB>>
Styles(sc) == {StyleList[i] : i \in 1..sc.ns}

G(k, col, b) == [k |-> k, c |-> col, b |-> b]
StylingSeqs == {<<>>, <<G("fg", "red", 0)>>, <<G("fg", "", 0)>>, <<G("on", "", 1)>>, <<G("off", "", 1)>>,
                <<G("toggle", "", 1)>>, <<G("reset", "", 0)>>, <<G("fg", "#0a0b0c", 0), G("on", "", 32)>>,
                <<G("bg", "blue", 0)>>, <<G("toggle", "", 1), G("fg", "red", 0)>>}

RECURSIVE StringsLen(_, _)
StringsLen(sc, n) == IF n = 0 THEN {<<>>} ELSE {<<ch>> \o s : ch \in AlphaOf(sc.al), s \in StringsLen(sc, n - 1)}
Strings(sc) == UNION {StringsLen(sc, n) : n \in 1..sc.mc}

RECURSIVE SegsLen(_, _)
SegsLen(sc, k) == IF k = 0 THEN {<<>>}
                  ELSE {x \in {<<Seg(st, cs)>> \o rest : st \in Styles(sc), cs \in Strings(sc), rest \in SegsLen(sc, k - 1)} :
                          Len(x) = 1 \/ x[1].st # x[2].st}
Texts(sc) == {Txt(segs) : segs \in UNION {SegsLen(sc, k) : k \in 0..sc.ms}}

Case(op) == [op |-> op, t |-> NilText, ts |-> <<>>, ix |-> <<>>, w |-> 0, gs |-> <<>>, r |-> 0, s |-> <<>>]

CasesT(sc)       == {[Case("t") EXCEPT !.s = s, !.gs = gs] : s \in Strings(sc) \cup {<<>>}, gs \in StylingSeqs}
CasesConcat(sc)  == LET T == Texts(sc) IN
                    {[Case("concat") EXCEPT !.ts = ts] : ts \in {<<>>} \cup {<<a>> : a \in T} \cup {<<a, b>> : a \in T, b \in T}}
CasesConcat3(sc) == LET T == Texts(sc) IN {[Case("concat") EXCEPT !.ts = <<a, b, d>>] : a \in T, b \in T, d \in T}
RECURSIVE IxLen(_, _)
IxLen(n, hi) == IF n = 0 THEN {<<>>} ELSE {<<i>> \o s : i \in (-1)..hi, s \in IxLen(n - 1, hi)}
\* indices further than 1 beyond the text's own length add nothing
CasesPartition(sc) == {[Case("partition") EXCEPT !.t = t, !.ix = ix] :
                         t \in Texts(sc), ix \in UNION {IxLen(n, sc.ms * sc.mc * 3 + 1) : n \in 0..sc.mi}}
NearIx(cc) == \A i \in 1..Len(cc.ix) : cc.ix[i] <= SumB(Plain(cc.t)) + 1
CasesSplit(sc)   == {[Case("split") EXCEPT !.t = t, !.r = r] : t \in Texts(sc), r \in {10, 97}}
CasesTrim(sc)    == {[Case("trim") EXCEPT !.t = t, !.w = w] : t \in Texts(sc), w \in (-1)..sc.mw}
CasesStyle(sc)   == {[Case("style") EXCEPT !.t = t, !.gs = gs] : t \in Texts(sc), gs \in StylingSeqs}
CasesStyleSeg(sc) == {[Case("styleseg") EXCEPT !.t = [nil |-> FALSE, segs |-> <<Seg(st, cs)>>], !.gs = gs] :
                        st \in Styles(sc), cs \in Strings(sc) \cup {<<>>}, gs \in StylingSeqs}
\* TextBuilder scripts: ts[i] is written at step i; ix[i] = 1 means Reset() before that write
RECURSIVE Scripts(_, _)
Scripts(T, n) == IF n = 0 THEN {[ts |-> <<>>, ix |-> <<>>]}
                 ELSE {[ts |-> <<t>> \o s.ts, ix |-> <<z>> \o s.ix] : t \in T, z \in {0, 1}, s \in Scripts(T, n - 1)}
CasesTB(sc)      == LET T == Texts(sc) IN
                    {[Case("tb") EXCEPT !.ts = s.ts, !.ix = s.ix] : s \in UNION {Scripts(T, n) : n \in 0..sc.sl}}

InitT         == c \in CasesT(ScopeOf("t"))
InitConcat    == c \in CasesConcat(ScopeOf("concat"))
InitConcat3   == c \in CasesConcat3(ScopeOf("concat3"))
InitPartition == c \in {cc \in CasesPartition(ScopeOf("partition")) : NearIx(cc)}
InitSplit     == c \in CasesSplit(ScopeOf("split"))
InitTrim      == c \in CasesTrim(ScopeOf("trim"))
InitStyle     == c \in CasesStyle(ScopeOf("style"))
InitStyleSeg  == c \in CasesStyleSeg(ScopeOf("styleseg"))
InitTB        == c \in CasesTB(ScopeOf("tb"))
InitAll == InitT \/ InitConcat \/ InitConcat3 \/ InitPartition \/ InitSplit \/ InitTrim \/ InitStyle \/ InitStyleSeg \/ InitTB
\* TLC computes initial states with one thread; InitShards + NextShards enumerate the same cases as
\* InitAll as successors of nine marker states, so that the workers share the work.
ShardCases(i) == CASE i = 1 -> CasesT(ScopeOf("t"))               [] i = 2 -> CasesConcat(ScopeOf("concat"))
                   [] i = 3 -> CasesConcat3(ScopeOf("concat3"))   [] i = 4 -> {cc \in CasesPartition(ScopeOf("partition")) : NearIx(cc)}
                   [] i = 5 -> CasesSplit(ScopeOf("split"))       [] i = 6 -> CasesTrim(ScopeOf("trim"))
                   [] i = 7 -> CasesStyle(ScopeOf("style"))       [] i = 8 -> CasesStyleSeg(ScopeOf("styleseg"))
                   [] i = 9 -> CasesTB(ScopeOf("tb"))
InitShards == c \in {[Case("shard") EXCEPT !.w = i] : i \in 1..9}
NextShards == c.op = "shard" /\ c' \in ShardCases(c.w)
Next == UNCHANGED c

LawOK ==
  CASE c.op = "shard"     -> TRUE
    [] c.op = "t"         -> LawT(c.s, c.gs)
    [] c.op = "concat"    -> LawConcat(c.ts)
    [] c.op = "partition" -> LawPartition(c.t, c.ix)
    [] c.op = "split"     -> LawSplit(c.t, IF c.r = 10 THEN CN ELSE CA)
    [] c.op = "trim"      -> LawTrim(c.t, c.w)
    [] c.op = "style"     -> LawStyle(c.t, c.gs)
    [] c.op = "styleseg"  -> RefStyleSegment(c.t.segs[1], c.gs).cs = c.t.segs[1].cs
    [] c.op = "tb"        -> \A a \in Accepted(c) : AllNormal(a.texts) /\
                                \A i \in 1..Len(a.texts) : a.flags[i] <=> (a.texts[i] = NilText)
\* the inputs are normal, and normality is exactly "equal to the canonical form"
InputsOK == /\ (c.op # "styleseg" => Normal(c.t)) /\ AllNormal(c.ts)
            /\ NormalIsCanonical(c.t) /\ \A i \in 1..Len(c.ts) : NormalIsCanonical(c.ts[i])
Emit == c.op = "shard" \/ PrintT(ToJson([c |-> c, alts |-> SetToSeq(Accepted(c)), unspec |-> Unspec(c)]))
=============================================================================
