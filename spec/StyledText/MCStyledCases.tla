---------------------------- MODULE MCStyledCases ----------------------------
(* C33, M + G for the one-step operations.  Every initial state is one case (operation +
   arguments); TLC checks the content/normality laws of the reference on it (LawOK) and prints the
   case with the set of results the specification accepts (Emit).  One TLC run per operation
   (INIT InitT / InitConcat / ...), bounds from the CONSTANTs, alphabets chosen per operation so that
   the enumeration stays exhaustive for its scope. *)
EXTENDS StyledText, TLC, Json, SequencesExt
CONSTANTS MaxSegs,   \* segments per text
          MaxChars,  \* chars per segment
          MaxW,      \* widths 0..MaxW (and -1, Unspecified) for trim
          NStyles,   \* 2..4 styles for the input texts
          Alpha,     \* alphabet selector, see AlphaOf
          MaxIx,     \* number of partition indices
          MaxScript  \* TextBuilder script length
VARIABLE c

CA == Char(97, 1, 1)       \* a
CB == Char(98, 1, 1)       \* b
CE == Char(233, 1, 2)      \* e-acute: narrow, 2 bytes
CW == Char(20320, 2, 3)    \* CJK ideograph: wide, 3 bytes
CZ == Char(769, 0, 2)      \* combining acute: zero width, 2 bytes
CN == Char(10, 0, 1)       \* newline
AlphaOf(k) == CASE k = 1 -> {CA, CW, CZ}
                [] k = 2 -> {CA, CN, CW}
                [] k = 3 -> {CA, CE}
                [] k = 4 -> {CA, CW}
                [] k = 5 -> {CA, CW, CZ, CN}
                [] k = 6 -> {CA, CE, CW}
Chars == AlphaOf(Alpha)

Red  == [fg |-> "red", bg |-> "", at |-> 0]
Bold == [fg |-> "", bg |-> "", at |-> 1]
RedB == [fg |-> "red", bg |-> "", at |-> 1]
StyleList == <<DefaultStyle, Red, Bold, RedB>>
Styles == {StyleList[i] : i \in 1..NStyles}

G(k, col, b) == [k |-> k, c |-> col, b |-> b]
StylingSeqs == {<<>>, <<G("fg", "red", 0)>>, <<G("fg", "", 0)>>, <<G("on", "", 1)>>, <<G("off", "", 1)>>,
                <<G("toggle", "", 1)>>, <<G("reset", "", 0)>>, <<G("fg", "#0a0b0c", 0), G("on", "", 32)>>,
                <<G("bg", "blue", 0)>>, <<G("toggle", "", 1), G("fg", "red", 0)>>}

RECURSIVE StringsLen(_)
StringsLen(n) == IF n = 0 THEN {<<>>} ELSE {<<ch>> \o s : ch \in Chars, s \in StringsLen(n - 1)}
Strings == UNION {StringsLen(n) : n \in 1..MaxChars}

RECURSIVE SegsLen(_)
SegsLen(k) == IF k = 0 THEN {<<>>}
              ELSE {x \in {<<Seg(st, cs)>> \o rest : st \in Styles, cs \in Strings, rest \in SegsLen(k - 1)} :
                      Len(x) = 1 \/ x[1].st # x[2].st}
Texts == {Txt(segs) : segs \in UNION {SegsLen(k) : k \in 0..MaxSegs}}

\* (the case sets take a dummy parameter so that TLC does not evaluate all of them at startup)
Case(op) == [op |-> op, t |-> NilText, ts |-> <<>>, ix |-> <<>>, w |-> 0, gs |-> <<>>, r |-> 0, s |-> <<>>]

CasesT(z)       == {[Case("t") EXCEPT !.s = s, !.gs = gs] : s \in Strings \cup {<<>>}, gs \in StylingSeqs}
CasesConcat(z)  == {[Case("concat") EXCEPT !.ts = ts] :
                   ts \in {<<>>} \cup {<<a>> : a \in Texts} \cup {<<a, b>> : a \in Texts, b \in Texts}}
CasesConcat3(z) == {[Case("concat") EXCEPT !.ts = <<a, b, d>>] : a \in Texts, b \in Texts, d \in Texts}
RECURSIVE IxLen(_, _)
IxLen(n, hi) == IF n = 0 THEN {<<>>} ELSE {<<i>> \o s : i \in (-1)..hi, s \in IxLen(n - 1, hi)}
CasesPartition(z) == {[Case("partition") EXCEPT !.t = t, !.ix = ix] :
                     t \in Texts, ix \in UNION {IxLen(n, MaxSegs * MaxChars * 3 + 1) : n \in 0..MaxIx}}
\* indices further than 1 beyond the text's own length add nothing
NearIx(cc) == \A i \in 1..Len(cc.ix) : cc.ix[i] <= SumB(Plain(cc.t)) + 1
CasesSplit(z)   == {[Case("split") EXCEPT !.t = t, !.r = r] : t \in Texts, r \in {10, 97}}
CasesTrim(z)    == {[Case("trim") EXCEPT !.t = t, !.w = w] : t \in Texts, w \in (-1)..MaxW}
CasesStyle(z)   == {[Case("style") EXCEPT !.t = t, !.gs = gs] : t \in Texts, gs \in StylingSeqs}
CasesStyleSeg(z) == {[Case("styleseg") EXCEPT !.t = [nil |-> FALSE, segs |-> <<Seg(st, cs)>>], !.gs = gs] :
                     st \in Styles, cs \in Strings \cup {<<>>}, gs \in StylingSeqs}
\* TextBuilder scripts: ts[i] is written at step i; ix[i] = 1 means Reset() before that write
RECURSIVE Scripts(_)
Scripts(n) == IF n = 0 THEN {[ts |-> <<>>, ix |-> <<>>]}
              ELSE {[ts |-> <<t>> \o s.ts, ix |-> <<z>> \o s.ix] : t \in Texts, z \in {0, 1}, s \in Scripts(n - 1)}
CasesTB(z)      == {[Case("tb") EXCEPT !.ts = s.ts, !.ix = s.ix] : s \in UNION {Scripts(n) : n \in 0..MaxScript}}

InitT         == c \in CasesT(0)
InitConcat    == c \in CasesConcat(0)
InitConcat3   == c \in CasesConcat3(0)
InitPartition == c \in {cc \in CasesPartition(0) : NearIx(cc)}
InitSplit     == c \in CasesSplit(0)
InitTrim      == c \in CasesTrim(0)
InitStyle     == c \in CasesStyle(0)
InitStyleSeg  == c \in CasesStyleSeg(0)
InitTB        == c \in CasesTB(0)
Next == UNCHANGED c

LawOK ==
  CASE c.op = "t"         -> LawT(c.s, c.gs)
    [] c.op = "concat"    -> LawConcat(c.ts)
    [] c.op = "partition" -> LawPartition(c.t, c.ix)
    [] c.op = "split"     -> LawSplit(c.t, IF c.r = 10 THEN CN ELSE CA)
    [] c.op = "trim"      -> LawTrim(c.t, c.w)
    [] c.op = "style"     -> LawStyle(c.t, c.gs)
    [] c.op = "styleseg"  -> RefStyleSegment(c.t.segs[1], c.gs).cs = c.t.segs[1].cs
    [] c.op = "tb"        -> \A a \in Accepted(c) : AllNormal(a.texts) /\
                                \A i \in 1..Len(a.texts) : a.flags[i] <=> (a.texts[i] = NilText)
\* the inputs are normal, and normality is exactly "equal to the canonical form"
InputsOK == /\ (c.op # "styleseg" => Normal(c.t)) /\ AllNormal(c.ts)
            /\ NormalIsCanonical(c.t) /\ \A i \in 1..Len(c.ts) : NormalIsCanonical(c.ts[i])
Emit == PrintT(ToJson([c |-> c, alts |-> SetToSeq(Accepted(c)), unspec |-> Unspec(c)]))
=============================================================================
