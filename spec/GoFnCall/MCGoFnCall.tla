----------------------------- MODULE MCGoFnCall -----------------------------
(* Exhaustive configuration + generator for GoFnCall (C17 M and G(1)).  Every initial state is one
   signature; TLC checks totality / invoke-safety for every call of the scope on it and prints the
   signature with all calls and their prescribed outcomes.  PK / AK restrict the kind alphabets, MaxP / MaxA bound the lengths, Frames / OptKinds /
   CallOpts the frame and option dimensions (the executor writes the .cfg per tier and partition). *)
EXTENDS GoFnCall, TLC, Json, SequencesExt
CONSTANTS PK, AK, MaxP, MaxA, Frames, OptKinds, CallOpts
VARIABLE sig
\* explicit tuples (cheaper for TLC than function sets); lengths 0..4
Tup(S, m) == CASE m = 0 -> {<<>>}
               [] m = 1 -> {<<a>> : a \in S}
               [] m = 2 -> {<<a, b>> : a \in S, b \in S}
               [] m = 3 -> {<<a, b, c>> : a \in S, b \in S, c \in S}
               [] m = 4 -> {<<a, b, c, d>> : a \in S, b \in S, c \in S, d \in S}
SeqsUpTo(S, n) == UNION {Tup(S, m) : m \in 0..n}
ASSUME MaxP <= 4 /\ MaxA <= 4
Sigs == {s \in [frame : Frames, opts : OptKinds, normal : SeqsUpTo(PK, MaxP),
                variadic : PK \cup {"none"}, inputs : BOOLEAN] :
            /\ WellFormed(s)
            /\ Len(s.normal) + (IF s.variadic # "none" \/ s.inputs THEN 1 ELSE 0) <= MaxP}
ASSUME \A o \in CallOpts : o \subseteq OptItems /\ OptSetOK(o)
Calls == [args : SeqsUpTo(AK, MaxA), opts : CallOpts]
ASSUME PK \subseteq AllParamKinds /\ AK \subseteq AllArgKinds
Init == sig \in Sigs
Next == UNCHANGED sig
Totality == \A call \in Calls : Total(sig, call)
Safe == \A call \in Calls : InvokeSafe(sig, call)
\* one line per signature: every call of the scope with its prescribed outcome
Emit == PrintT(ToJson([sig |-> sig,
          cases |-> SetToSeq({[args |-> call.args, opts |-> SetToSeq(call.opts),
                               exp |-> Outcome(sig, call), alt |-> OutcomeAlt(sig, call), unspec |-> UnspecifiedCall(sig, call)] : call \in Calls})]))
=============================================================================
