INIT JInit
NEXT JNext
INVARIANT Inv
