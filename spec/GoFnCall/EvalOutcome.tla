----------------------------- MODULE EvalOutcome -----------------------------
(* C17, part 2: the life cycle of one evaluation (eval.Evaler.Eval) as the property states it:

       Start  --Return(nil)-------->  "returned-nil"          evaluation ended normally
       Start  --Return(exception)-->  "returned-exception"    ended with an Elvish exception
                                                              (or a parse / compilation error:
                                                              the program never started)
   and NOTHING else: the states
       "panic"          a Go runtime panic unwound the evaluating goroutine,
       "process-died"   the process was killed (panic on a goroutine spawned by the evaluation,
                        or a runtime fatal error such as a concurrent map write),
       "blocked"        the evaluation has not returned and every goroutine that belongs to it is
                        blocked on a channel / pipe / semaphore operation (deadlock)
   are declared so that recorded outcomes can name them, but no action reaches them.

   Variables: st (the state), exc (whether an exception is pending while running: the body may
   raise and catch any number of exceptions before it returns).
   Actions: Raise, Catch (internal, program-level), ReturnNil, ReturnExc.
   Properties: Safe (invariant: st is never a forbidden state), Terminates (under weak fairness of
   returning, every evaluation ends) -- checked in MCEvalOutcome.
   Accepted(o) is the judgement used for recorded outcomes of the real code (JudgeEvalOutcome):
   an outcome is accepted iff it is a terminal state the life cycle can reach.

   CrossBand(form): the one deadlock pattern that is a consequence of the documented design (two
   bounded bands per pipe: a value channel of capacity ValueCap and a byte pipe) rather than of a
   slip: a pipeline stage that emits more than ValueCap values while its consumer waits on the byte
   band only (`range 100 | read-line`).  It is still rejected (C17 forbids it by its letter); the
   predicate only gives the rejection its own key so that every OTHER blocked evaluation stays
   a separate violation. *)
EXTENDS Integers, Sequences
VARIABLES st, exc

Returned  == {"returned-nil", "returned-exception"}
Forbidden == {"panic", "process-died", "blocked"}
States    == {"start"} \cup Returned \cup Forbidden

Init == st = "start" /\ exc = FALSE
Raise == st = "start" /\ ~exc /\ exc' = TRUE /\ UNCHANGED st
Catch == st = "start" /\ exc /\ exc' = FALSE /\ UNCHANGED st
ReturnNil == st = "start" /\ ~exc /\ st' = "returned-nil" /\ UNCHANGED exc
ReturnExc == st = "start" /\ exc /\ st' = "returned-exception" /\ UNCHANGED exc
Next == Raise \/ Catch \/ ReturnNil \/ ReturnExc
vars == <<st, exc>>
Spec == Init /\ [][Next]_vars /\ WF_vars(ReturnNil) /\ SF_vars(ReturnExc) /\ SF_vars(ReturnNil)

TypeOK == st \in States /\ exc \in BOOLEAN
Safe == st \notin Forbidden
Terminates == <>(st \in Returned)
\* a returned evaluation stays returned (no action is enabled: the verdict is final)
Final == [][(st \in Returned) => (st' = st)]_vars

\* ---- judgement of recorded outcomes: the terminal states Next can produce from Init
Reach1(s, e) == {<<s2, e2>> \in States \X BOOLEAN :
                   \/ s = "start" /\ ~e /\ s2 = s /\ e2 = TRUE
                   \/ s = "start" /\ e /\ s2 = s /\ e2 = FALSE
                   \/ s = "start" /\ ~e /\ s2 = "returned-nil" /\ e2 = e
                   \/ s = "start" /\ e /\ s2 = "returned-exception" /\ e2 = e}
RECURSIVE Closure(_)
Closure(S) == LET T == S \cup UNION {Reach1(p[1], p[2]) : p \in S} IN IF T = S THEN S ELSE Closure(T)
Reachable == {p[1] : p \in Closure({<<"start", FALSE>>})}
Accepted(o) == o \in Reachable \ {"start"}

\* ---- the design-level deadlock pattern
ValueCap == 32
\* form: [prodBand |-> "values"|"bytes"|"none", prodCount |-> n, consBand |-> "bytes"|"values"|"both"|"none"]
CrossBand(form) == form.prodBand = "values" /\ form.prodCount > ValueCap /\ form.consBand = "bytes"
=============================================================================
