------------------------------ MODULE GoFnCall ------------------------------
(* C17, part 1: the call protocol of a Go-native Elvish function (pkg/eval/go_fn.go: goFn.Call)
   as a case analysis, written from the documentation of eval.NewGoFn and vals.ScanToGo.

   A *signature* describes the Go function wrapped by eval.NewGoFn:
     [frame    : BOOLEAN                 first parameter *Frame
      opts     : {"none","raw","struct"}  RawOptions parameter / options struct / neither
      normal   : Seq(ParamKinds)          positional parameters
      variadic : ParamKinds \cup {"none"} element kind of a variadic last parameter
      inputs   : BOOLEAN]                 last parameter of type eval.Inputs
   A *call* is [args : Seq(ArgKinds), opts : SUBSET OptItems].

   Outcome(sig, call) is the prescribed result, in the order goFn.Call decides it:
     "arity"        errs.ArityMismatch                     (number of arguments)
     "noopt"        eval.ErrNoOptAccepted                  (options given, none declared)
     "badopt"       unknown option / option value not convertible (options struct only)
     "wrongarg"(i)  eval.WrongArgType for the first (0-based) argument that is not convertible
     "noiter"       the argument standing for the inputs cannot be iterated
     "invoke"(conv) the implementation is called with the converted arguments conv

   The property C17 needs from this module: the analysis is TOTAL (every signature/call pair has
   exactly one outcome; no pair leads to a fault), and the real goFn.Call follows it (G: every case
   is replayed on a real eval.NewGoFn).

   Unspecified(p, a): $nil given for a parameter whose Go type has a nil zero value other than
   `any` (interfaces such as Callable / List / Map / Exception, pointers such as *Closure, *os.File).
   vals.ScanToGo documents "*ptr = src" assignment, which Go allows for nil; the unchanged tree
   therefore invokes the implementation with a typed nil (the root cause of a family of C17
   crashes, since implementations dereference it), and the proposed repair rejects it with
   WrongArgType.  The property statement demands neither, so both outcomes are accepted here. *)
EXTENDS Integers, Sequences, FiniteSets

\* ---- parameter kinds: the Go types that occur in the real command table (+ bool)
AllParamKinds == {"int", "float", "num", "rune", "string", "bool", "any",
                  "callable", "list", "map", "exception", "closure", "file"}
Nilable(p) == p \in {"callable", "list", "map", "exception", "closure", "file"}

\* ---- argument kinds: classes of Elvish values, finer for strings because conversion parses them
AllArgKinds == {"s-digit", "s-int", "s-hex", "s-bigint", "s-rat", "s-float", "s-rune", "s-other",
                "s-empty", "s-badutf8",
                "int", "bigint", "rat", "float", "nil", "bool", "list", "map",
                "closure", "builtin", "file", "exception"}
IsStr(a) == a \in {"s-digit", "s-int", "s-hex", "s-bigint", "s-rat", "s-float", "s-rune", "s-other",
                   "s-empty", "s-badutf8"}
\* the value kind an argument has when no conversion happens
Plain(a) == IF IsStr(a) THEN "string" ELSE a

\* strconv.ParseInt(s, 0, 0) succeeds
IntOK(a) == a \in {"int", "s-digit", "s-int", "s-hex"}
\* number class after vals.ParseNum (strings) / of a typed number; "none" = not a number
NumClass(a) == CASE a \in {"int", "s-digit", "s-int", "s-hex"} -> "int"
                 [] a \in {"bigint", "s-bigint"} -> "bigint"
                 [] a \in {"rat", "s-rat"} -> "rat"
                 [] a \in {"float", "s-float"} -> "float"
                 [] OTHER -> "none"
\* exactly one valid UTF-8 encoded rune
RuneOK(a) == a \in {"s-digit", "s-rune"}
\* vals.CanIterate
Iterable(a) == IsStr(a) \/ a = "list"

Unspecified(p, a) == Nilable(p) /\ a = "nil"

\* Convert(p, a): [ok, as] -- whether an argument of kind a is accepted for a parameter of kind p
\* and the kind of the Go value the implementation then receives.
Convert(p, a) ==
  CASE p = "int"    -> [ok |-> IntOK(a), as |-> "int"]
    [] p = "float"  -> [ok |-> NumClass(a) # "none", as |-> "float"]
    [] p = "num"    -> [ok |-> NumClass(a) # "none", as |-> NumClass(a)]
    [] p = "rune"   -> [ok |-> RuneOK(a), as |-> "rune"]
    [] p = "string" -> [ok |-> IsStr(a), as |-> "string"]
    [] p = "bool"   -> [ok |-> a = "bool", as |-> "bool"]
    [] p = "any"    -> [ok |-> TRUE, as |-> Plain(a)]
    [] p = "callable" -> [ok |-> a \in {"closure", "builtin", "nil"}, as |-> a]
    [] OTHER        -> [ok |-> a \in {p, "nil"}, as |-> a]     \* list map exception closure file
\* the two readings of the Unspecified pairs: nilok = TRUE (typed nil is passed on, as "*ptr = src"
\* allows), nilok = FALSE ($nil is not a value of the parameter's type: wrong argument type)
ConvertR(p, a, nilok) == IF ~nilok /\ Unspecified(p, a) THEN [ok |-> FALSE, as |-> a] ELSE Convert(p, a)

\* ---- options
\* k: declared option (field of type any); ig / ib: declared int option with a good / bad value;
\* u: option the struct does not declare.
OptItems == {"k", "ig", "ib", "u"}
OptSetOK(o) == ~({"ig", "ib"} \subseteq o)      \* one value per option name

WellFormed(sig) == ~(sig.variadic # "none" /\ sig.inputs)

NNormal(sig) == Len(sig.normal)
ArityOK(sig, n) ==
  IF sig.variadic # "none" THEN n >= NNormal(sig)
  ELSE IF sig.inputs THEN n = NNormal(sig) \/ n = NNormal(sig) + 1
  ELSE n = NNormal(sig)
ArityLo(sig) == NNormal(sig)
ArityHi(sig) == IF sig.variadic # "none" THEN -1 ELSE IF sig.inputs THEN NNormal(sig) + 1 ELSE NNormal(sig)

\* kind of the parameter that receives argument i (1-based); "inputs" for the inputs argument
ParamFor(sig, i) == IF i <= NNormal(sig) THEN sig.normal[i]
                    ELSE IF sig.variadic # "none" THEN sig.variadic ELSE "inputs"

\* positions converted by ScanToGo (everything but the inputs argument)
Scanned(sig, call) == {i \in 1..Len(call.args) : ParamFor(sig, i) # "inputs"}
ArgBad(sig, call, i, nilok) == ParamFor(sig, i) # "inputs" /\ ~ConvertR(ParamFor(sig, i), call.args[i], nilok).ok
\* first (1-based) argument that is not convertible, 0 if none: goFn.Call scans left to right
RECURSIVE FirstBadFrom(_, _, _, _)
FirstBadFrom(sig, call, i, nilok) ==
  IF i > Len(call.args) THEN 0
  ELSE IF ArgBad(sig, call, i, nilok) THEN i ELSE FirstBadFrom(sig, call, i + 1, nilok)
FirstBad(sig, call, nilok) == FirstBadFrom(sig, call, 1, nilok)
UnspecifiedCall(sig, call) ==
  \E i \in Scanned(sig, call) : Unspecified(ParamFor(sig, i), call.args[i])

Res(o, lo, hi, i, conv) == [o |-> o, lo |-> lo, hi |-> hi, i |-> i, conv |-> conv]
OutcomeR(sig, call, nilok) ==
  LET n == Len(call.args)
      fb == FirstBad(sig, call, nilok) IN
  IF ~ArityOK(sig, n) THEN Res("arity", ArityLo(sig), ArityHi(sig), 0, <<>>)
  ELSE IF sig.opts = "none" /\ call.opts # {} THEN Res("noopt", 0, 0, 0, <<>>)
  ELSE IF sig.opts = "struct" /\ (call.opts \cap {"u", "ib"}) # {} THEN Res("badopt", 0, 0, 0, <<>>)
  ELSE IF fb # 0 THEN Res("wrongarg", 0, 0, fb - 1, <<>>)
  ELSE IF sig.inputs /\ n = NNormal(sig) + 1 /\ ~Iterable(call.args[n]) THEN Res("noiter", 0, 0, 0, <<>>)
  ELSE Res("invoke", 0, 0, 0,
           [j \in 1..n |-> IF ParamFor(sig, j) = "inputs" THEN "inputs"
                           ELSE Convert(ParamFor(sig, j), call.args[j]).as])
\* the prescribed outcome, and the alternative one for calls that contain an Unspecified pair
Outcome(sig, call) == OutcomeR(sig, call, TRUE)
OutcomeAlt(sig, call) == OutcomeR(sig, call, FALSE)

OutcomeNames == {"arity", "noopt", "badopt", "wrongarg", "noiter", "invoke"}

\* ---- design theorems checked by TLC in MCGoFnCall
\* totality: the case analysis yields exactly one well-formed outcome
Total(sig, call) ==
  LET r == Outcome(sig, call) IN
  /\ r.o \in OutcomeNames
  /\ r.o = "wrongarg" => (r.i >= 0 /\ r.i < Len(call.args))
  /\ r.o = "invoke" => Len(r.conv) = Len(call.args)
  /\ OutcomeAlt(sig, call).o \in OutcomeNames
  \* the two readings differ only on calls with an Unspecified pair
  /\ ~UnspecifiedCall(sig, call) => OutcomeAlt(sig, call) = r
\* an implementation is only ever invoked with an argument count it can take and values of its kinds
InvokeSafe(sig, call) ==
  LET r == Outcome(sig, call) IN
  r.o = "invoke" =>
    /\ ArityOK(sig, Len(call.args))
    /\ \A j \in Scanned(sig, call) :
         LET p == ParamFor(sig, j) IN
         \/ Unspecified(p, call.args[j])
         \/ CASE p \in {"int", "float", "rune", "string", "bool"} -> r.conv[j] = p
              [] p = "num" -> r.conv[j] \in {"int", "bigint", "rat", "float"}
              [] p = "callable" -> r.conv[j] \in {"closure", "builtin"}
              [] p = "any" -> TRUE
              [] OTHER -> r.conv[j] = p
=============================================================================
