---------------------------- MODULE MCEvalOutcome ----------------------------
(* M for EvalOutcome: the forbidden states are unreachable, every evaluation terminates under
   fairness, and the judgement set computed for JudgeEvalOutcome equals the reachable terminal
   states. *)
EXTENDS EvalOutcome, TLC
JudgeAgrees == Reachable \ {"start"} = Returned
ASSUME JudgeAgrees
=============================================================================
