SPECIFICATION Spec
INVARIANT TypeOK
INVARIANT Safe
PROPERTY Terminates
PROPERTY Final
