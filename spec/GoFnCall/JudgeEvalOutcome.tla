-------------------------- MODULE JudgeEvalOutcome --------------------------
(* V half of C17: every recorded call of the sweep (command x argument classes, redirection form,
   pipeline form, helper call) with what the REAL code did is judged against EvalOutcome: only a
   reachable terminal state of the life cycle is accepted.  The judge also names the class of a
   rejection: "hang:cross-band" for the design-level pattern, otherwise the forbidden state. *)
EXTENDS Integers, Sequences, TLC, Json
\* the life-cycle module, instantiated at its initial state (only its constant-level judgement
\* operators Accepted / Forbidden / CrossBand are used)
EO == INSTANCE EvalOutcome WITH st <- "start", exc <- FALSE
Cases == ndJsonDeserialize("cases.ndjson")
VARIABLE k
JInit == k = 0
JNext == k < Len(Cases) /\ k' = k + 1
\* a case: [id, kind, outcome, form]  (form is [prodBand, prodCount, consBand]; "none"/0 for plain calls)
CaseOK(c) == EO!Accepted(c.outcome)
Why(c) == IF c.outcome = "blocked" /\ EO!CrossBand(c.form) THEN "hang:cross-band"
          ELSE IF c.outcome \in EO!Forbidden THEN c.outcome
          ELSE "unknown-outcome"
Inv == k = 0 \/ CaseOK(Cases[k]) \/ PrintT(<<"BAD", k, Why(Cases[k])>>)
=============================================================================
