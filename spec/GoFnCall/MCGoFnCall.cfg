CONSTANT PK = {"int", "callable"}
CONSTANT AK = {"s-int", "s-other", "nil"}
CONSTANT MaxP = 2
CONSTANT MaxA = 3
CONSTANT Frames = {TRUE, FALSE}
CONSTANT OptKinds = {"none", "raw", "struct"}
CONSTANT CallOpts = {{}, {"k"}, {"u"}, {"ib"}, {"ig"}, {"k", "u"}}
INIT Init
NEXT Next
INVARIANT Totality
INVARIANT Safe
INVARIANT Emit
