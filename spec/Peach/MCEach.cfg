CONSTANTS MaxN = 4 MaxOut = 2
SPECIFICATION Spec
INVARIANT OutputInOrder NoStartAfterBroken StopsAtFirstNonOk ExcIsFirstFail RefAgrees
