----------------------------- MODULE TraceEach -----------------------------
(* Events recorded from the REAL `each` with the harness callback (CbStart/Put/CbEnd) and the outcome of
   Eval (Returned) must be a behaviour of Each.tla; what Eval returned is kept in `obs` and compared by
   the invariant EachObsOK.  No internal steps. *)
EXTENDS Each, Json, TLC
Trace == ndJsonDeserialize("trace.ndjson")
VARIABLES l, obs
tvars == <<evars, l, obs>>
Is(e) == l <= Len(Trace) /\ Trace[l].ev = e
T == Trace[l]
Range(s) == {s[k] : k \in 1..Len(s)}
NoObs == [out |-> <<>>, errs |-> {}, nbrk |-> 0]
TInit == l = 1 /\ obs = NoObs /\ EInitWith([n |-> 0, res |-> <<>>, nout |-> <<>>]) /\ Is("Reset")
Reset == /\ Is("Reset") /\ l' = l + 1 /\ obs' = NoObs /\ (l = 1 \/ eret)
         /\ Len(T.ress) = T.n /\ Len(T.nouts) = T.n
         /\ ecfg' = [n |-> T.n, res |-> T.ress, nout |-> T.nouts]
         /\ ecur' = 1 /\ eact' = 0 /\ epos' = 0 /\ ebroken' = FALSE /\ eerr' = 0 /\ eout' = <<>> /\ eret' = FALSE /\ eexc' = {}
TNext == \/ Reset
         \/ Is("CbStart") /\ l' = l + 1 /\ EStart /\ eact' = T.i /\ T.conc = 1 /\ UNCHANGED obs
         \/ Is("Put") /\ l' = l + 1 /\ EPut /\ eact = T.i /\ T.v = Val(T.i, epos') /\ UNCHANGED obs
         \/ Is("CbEnd") /\ l' = l + 1 /\ EEnd /\ eact = T.i /\ T.res = ecfg.res[T.i] /\ UNCHANGED obs
         \/ Is("Returned") /\ l' = l + 1 /\ EReturn /\ obs' = [out |-> T.out, errs |-> Range(T.errs), nbrk |-> T.nbrk]
            /\ T.other = <<>> /\ T.nintr = 0
TSpec == TInit /\ [][TNext]_tvars
EachObsOK == eret => obs.out = eout /\ obs.errs = eexc /\ obs.nbrk = 0
HW == TLCSet(1, IF TLCGet(1) > l THEN TLCGet(1) ELSE l)
Accepted == PrintT(<<"HW", TLCGet(1)>>) /\ TLCGet(1) = Len(Trace) + 1
ASSUME TLCSet(1, 0)
=============================================================================
