----------------------------- MODULE StressPeach -----------------------------
(* Case walker for the STRESS phase of C20: compact summaries of side-by-side runs of the real `each` and the
   real `peach &num-workers=1` on the same callbacks and inputs (identical summaries are shipped once with a
   count).  A case: [n, res, nout, count, each, peach], a side: [starts, out, fails, nbrk, other] =
   the callbacks in the order they were entered, the values output, the failed inputs in the exception, the
   number of break flows in it, anything else in it.
   Judged: Peach1RefinesEach on the summary -- both sides are exactly what EachRef.tla prescribes (same
   outputs in the same order, no callback started after the one that broke/failed, same exception). *)
EXTENDS EachRef, Json, TLC
Cases == ndJsonDeserialize("cases.ndjson")
VARIABLE k
Range(s) == {s[i] : i \in 1..Len(s)}
Cfg(c) == [n |-> c.n, res |-> c.res, nout |-> c.nout]
SideOK(c, s) == /\ s.starts = RefStarts(Cfg(c)) /\ s.out = RefOut(Cfg(c))
                /\ Range(s.fails) = RefFails(Cfg(c)) /\ Len(s.fails) = Cardinality(RefFails(Cfg(c)))
                /\ s.nbrk = 0 /\ s.other = <<>>
CaseOK(c) == Len(c.res) = c.n /\ Len(c.nout) = c.n /\ SideOK(c, c.each) /\ SideOK(c, c.peach)
Why(c) == <<IF SideOK(c, c.each) THEN "each-ok" ELSE "each-differs",
            IF SideOK(c, c.peach) THEN "peach-ok" ELSE "peach-differs",
            Len(c.peach.starts) > RefStop(Cfg(c))>>
Init == k = 0
Next == k < Len(Cases) /\ k' = k + 1
Spec == Init /\ [][Next]_k
Inv == k = 0 \/ CaseOK(Cases[k]) \/ PrintT(<<"BAD", k, Why(Cases[k])>>)
=============================================================================
