-------------------------------- MODULE Peach --------------------------------
(* C20 (and the bounded-worker part of C19) -- `peach` and `run-parallel`
   (pkg/eval/builtin_fn_flow.go), shaped like the code: a FEEDER (the goroutine that called peach,
   iterating the inputs) and one WORKER goroutine per input.

   A run is described by cfg = [mode, n, bound, res, nout] (chosen in Init, constant afterwards):
     mode   "peach" | "runpar" (run-parallel: n functions, no bound, no broken flag)
     n      number of inputs 1..n;   bound  &num-workers, 0 = +inf
     res[i] \in {"ok", "break", "fail"}: how callback i finishes ("ok" also covers `continue`)
     nout[i] callback i puts the values i*1000+1 .. i*1000+nout[i] before it finishes

   Feeder pc (the body of the closure passed to `inputs`, then wg.Wait):
     test -[FTest: broken? skip input : go on]-> acqenter -[FAcqEnter = hook peach.acquire-enter]->
     acquire -[FAcquireOK | FAcquireCancelled: workerSema.Acquire(ctx, 1) returns]-> acqret
     -[FAcqRet = hook peach.acquire-return]-> decide -[one of the four decisions below]-> spawn
     -[FSpawn = hook peach.spawn; wg.Add(1); go ...]-> test ... -[FReturn: wg.Wait() returned]-> returned
   Decisions after Acquire returned (the code AS IS takes the first and the third):
     FSpawnAsIs             permit obtained, spawn without looking at `broken` again
     FRetest                permit obtained, `broken` re-tested: set => give the permit back, skip the input
     ProceedWithoutPermit   Acquire returned an error (context cancelled), the error is ignored and the
                            worker is spawned WITHOUT a permit            (named deviation of the code)
     FStopOnAcquireError    Acquire's error honoured: stop feeding
   Which decisions exist is chosen by the constants  Recheck, Honour \subseteq BOOLEAN:
     {FALSE},{FALSE} = the code as is;  {TRUE},{TRUE} = the repaired order;  BOOLEAN,BOOLEAN = either
     (trace validation accepts both shapes, the invariants decide).
   Worker pc:  none -[FSpawn]-> spawned -[WStart: callback entered]-> run -[WPut]*-[WEnd: callback
     returned]-> flag | done;  flag -[WFlag: broken := 1 / exception recorded]-> done  (wg.Done is folded
     into reaching `done`);  done -[WRelease = hook peach.release + Release(1)]-> released (bounded only).
   Cancel: the evaluation's context is cancelled (only if MayCancel; C20 runs without it).

   Properties (state invariants unless noted)
     AtMostOnce            every input's callback is started at most once
     ExactlyOnceIfClean    at return, if no callback breaks/fails (and no cancel): every input ran once
     BoundRespected        at most `bound` callbacks are inside their call at any time
     SemNonNegative        Release never exceeds the permits held (the real semaphore PANICS there)
     OutputIsUnion         at return, the value output is exactly the values put by the callbacks
                           (as a multiset; in order when bound = 1)
     ReturnAfterAllFinished  at return no worker is spawned-but-unfinished
     AllErrorsReported     at return the exception carries exactly the failures of the started callbacks
     Peach1RefinesEach     (action property) with bound = 1 and no cancel, peach is `each`: under the
                           mapping EachI every step is a step of Each.tla or leaves its state unchanged
                           -- no callback starts after one broke/failed, same outputs in the same
                           order, same exception
     RunParallelAll        run-parallel: at return every function ran exactly once and every non-ok
                           outcome is in the exception
   Unspecified: the relative order of values put by concurrently running callbacks (bound # 1).  *)
EXTENDS Integers, FiniteSets, Sequences, TLC
CONSTANTS Recheck, Honour,   \* subsets of BOOLEAN, see above
          MayCancel
VARIABLES cfg,
          fpc, cur, permit,   \* feeder: pc, current input, "Acquire gave me a permit for cur"
          sem,                \* permits handed out and not released (negative = over-release)
          wpc, pos, ended,    \* per input: worker pc, values put, result of the callback ("none" before)
          nstart,             \* ghost: how often callback i was entered
          broken, errs, cancelled,
          out,                \* values put by the callbacks, in the order of the puts
          ret                 \* what peach returned: [out, errs (inputs whose `fail` is in the exception), nbrk]
vars == <<cfg, fpc, cur, permit, sem, wpc, pos, ended, nstart, broken, errs, cancelled, out, ret>>

In == 1..cfg.n
Val(i, j) == i * 1000 + j
NoRet == [out |-> <<>>, errs |-> {}, nbrk |-> 0]
InitWith(c) ==
  /\ cfg = c /\ fpc = "test" /\ cur = 1 /\ permit = FALSE /\ sem = 0
  /\ wpc = [i \in 1..c.n |-> "none"] /\ pos = [i \in 1..c.n |-> 0] /\ ended = [i \in 1..c.n |-> "none"]
  /\ nstart = [i \in 1..c.n |-> 0]
  /\ broken = FALSE /\ errs = {} /\ cancelled = FALSE /\ out = <<>> /\ ret = NoRet

Running == {i \in In : wpc[i] = "run"}
Started == {i \in In : wpc[i] \notin {"none", "spawned"}}
NonOk(i) == ended[i] \in {"break", "fail", "intr"}

\* ------------------------------------------------------------------ feeder
FTest == /\ fpc = "test" /\ cur <= cfg.n
         /\ IF cfg.mode = "peach" /\ broken
              THEN cur' = cur + 1 /\ UNCHANGED fpc           \* input skipped (inputs are still drained)
              ELSE fpc' = (IF cfg.bound = 0 THEN "spawn" ELSE "acqenter") /\ UNCHANGED cur
         /\ permit' = FALSE
         /\ UNCHANGED <<cfg, sem, wpc, pos, ended, nstart, broken, errs, cancelled, out, ret>>
FAcqEnter == /\ fpc = "acqenter" /\ fpc' = "acquire"
             /\ UNCHANGED <<cfg, cur, permit, sem, wpc, pos, ended, nstart, broken, errs, cancelled, out, ret>>
FAcquireOK == /\ fpc = "acquire" /\ sem < cfg.bound
              /\ sem' = sem + 1 /\ permit' = TRUE /\ fpc' = "acqret"
              /\ UNCHANGED <<cfg, cur, wpc, pos, ended, nstart, broken, errs, cancelled, out, ret>>
FAcquireCancelled == /\ fpc = "acquire" /\ cancelled         \* returns ctx.Err(); semaphore unchanged
                     /\ permit' = FALSE /\ fpc' = "acqret"
                     /\ UNCHANGED <<cfg, cur, sem, wpc, pos, ended, nstart, broken, errs, cancelled, out, ret>>
FAcqRet == /\ fpc = "acqret" /\ fpc' = "decide"
           /\ UNCHANGED <<cfg, cur, permit, sem, wpc, pos, ended, nstart, broken, errs, cancelled, out, ret>>
FSpawnAsIs == /\ fpc = "decide" /\ permit /\ FALSE \in Recheck /\ fpc' = "spawn"
              /\ UNCHANGED <<cfg, cur, permit, sem, wpc, pos, ended, nstart, broken, errs, cancelled, out, ret>>
FRetest == /\ fpc = "decide" /\ permit /\ TRUE \in Recheck
           /\ IF broken THEN /\ sem' = sem - 1 /\ permit' = FALSE /\ cur' = cur + 1 /\ fpc' = "test"
                        ELSE /\ fpc' = "spawn" /\ UNCHANGED <<sem, permit, cur>>
           /\ UNCHANGED <<cfg, wpc, pos, ended, nstart, broken, errs, cancelled, out, ret>>
ProceedWithoutPermit == /\ fpc = "decide" /\ ~permit /\ FALSE \in Honour /\ fpc' = "spawn"
                        /\ UNCHANGED <<cfg, cur, permit, sem, wpc, pos, ended, nstart, broken, errs, cancelled, out, ret>>
FStopOnAcquireError == /\ fpc = "decide" /\ ~permit /\ TRUE \in Honour
                       /\ broken' = TRUE /\ cur' = cur + 1 /\ fpc' = "test"
                       /\ UNCHANGED <<cfg, permit, sem, wpc, pos, ended, nstart, errs, cancelled, out, ret>>
FSpawn == /\ fpc = "spawn" /\ wpc[cur] = "none"
          /\ wpc' = [wpc EXCEPT ![cur] = "spawned"] /\ cur' = cur + 1 /\ fpc' = "test"
          /\ UNCHANGED <<cfg, permit, sem, pos, ended, nstart, broken, errs, cancelled, out, ret>>
CanReturn == fpc = "test" /\ cur > cfg.n /\ \A i \in In : wpc[i] \in {"none", "done", "released"}
FReturn(r) == /\ CanReturn /\ fpc' = "returned" /\ ret' = r
              /\ UNCHANGED <<cfg, cur, permit, sem, wpc, pos, ended, nstart, broken, errs, cancelled, out>>
\* what the design returns: everything the callbacks put, every recorded exception
NBrk == IF cfg.mode = "runpar" THEN Cardinality({i \in errs : ended[i] = "break"}) ELSE 0
DesignRet == [out |-> out, errs |-> {i \in errs : ended[i] = "fail"}, nbrk |-> NBrk]

\* ------------------------------------------------------------------ worker i
WStart(i) == /\ wpc[i] = "spawned" /\ wpc' = [wpc EXCEPT ![i] = "run"]
             /\ nstart' = [nstart EXCEPT ![i] = @ + 1]
             /\ UNCHANGED <<cfg, fpc, cur, permit, sem, pos, ended, broken, errs, cancelled, out, ret>>
WPut(i) == /\ wpc[i] = "run" /\ pos[i] < cfg.nout[i]
           /\ pos' = [pos EXCEPT ![i] = @ + 1] /\ out' = Append(out, Val(i, pos[i] + 1))
           /\ UNCHANGED <<cfg, fpc, cur, permit, sem, wpc, ended, nstart, broken, errs, cancelled, ret>>
\* the callback returns r: its scripted result, or "intr" once the context is cancelled
WEnd(i, r) == /\ wpc[i] = "run"
              /\ \/ r = cfg.res[i] /\ pos[i] = cfg.nout[i]
                 \/ r = "intr" /\ cancelled
              /\ ended' = [ended EXCEPT ![i] = r]
              /\ wpc' = [wpc EXCEPT ![i] = IF r = "ok" THEN "done" ELSE "flag"]
              /\ UNCHANGED <<cfg, fpc, cur, permit, sem, pos, nstart, broken, errs, cancelled, out, ret>>
WFlag(i) == /\ wpc[i] = "flag"
            /\ broken' = (broken \/ cfg.mode = "peach")
            /\ errs' = (IF ended[i] # "break" \/ cfg.mode = "runpar" THEN errs \cup {i} ELSE errs)
            /\ wpc' = [wpc EXCEPT ![i] = "done"]
            /\ UNCHANGED <<cfg, fpc, cur, permit, sem, pos, ended, nstart, cancelled, out, ret>>
WRelease(i) == /\ wpc[i] = "done" /\ cfg.mode = "peach" /\ cfg.bound # 0
               /\ sem' = sem - 1                               \* Release(1), whether or not a permit is held
               /\ wpc' = [wpc EXCEPT ![i] = "released"]
               /\ UNCHANGED <<cfg, fpc, cur, permit, pos, ended, nstart, broken, errs, cancelled, out, ret>>
Cancel == /\ MayCancel /\ ~cancelled /\ cancelled' = TRUE
          /\ UNCHANGED <<cfg, fpc, cur, permit, sem, wpc, pos, ended, nstart, broken, errs, out, ret>>

Internal == FTest \/ FAcquireOK \/ FAcquireCancelled \/ FSpawnAsIs \/ FRetest \/ ProceedWithoutPermit
            \/ FStopOnAcquireError \/ (\E i \in In : WFlag(i))
Next == \/ Internal \/ FAcqEnter \/ FAcqRet \/ FSpawn \/ FReturn(DesignRet) \/ Cancel
        \/ \E i \in In : WStart(i) \/ WPut(i) \/ WRelease(i) \/ (\E r \in {"ok", "break", "fail", "intr"} : WEnd(i, r))
Fairness == WF_vars(Next)

\* ------------------------------------------------------------------ properties
Clean == ~cancelled /\ \A i \in In : cfg.res[i] = "ok"
IsPeach == cfg.mode = "peach"
AtMostOnce == \A i \in In : nstart[i] <= 1
ExactlyOnceIfClean == (fpc = "returned" /\ IsPeach /\ Clean) => \A i \in In : nstart[i] = 1 /\ ended[i] = "ok"
BoundRespected == (IsPeach /\ cfg.bound # 0) => Cardinality(Running) <= cfg.bound
SemNonNegative == sem >= 0
Range(s) == {s[k] : k \in 1..Len(s)}
OutputIsUnion == fpc = "returned" =>
                   /\ Len(ret.out) = Len(out) /\ Range(ret.out) = Range(out)
                   /\ Cardinality(Range(out)) = Len(out)
                   /\ (IsPeach /\ cfg.bound = 1 /\ ~cancelled) => ret.out = out
ReturnAfterAllFinished == fpc = "returned" => \A i \in In : wpc[i] \notin {"spawned", "run", "flag"}
AllErrorsReported == (fpc = "returned" /\ IsPeach) =>
                       /\ ret.errs = {i \in Started : ended[i] = "fail"}
                       /\ ret.nbrk = 0
RunParallelAll == (fpc = "returned" /\ cfg.mode = "runpar") =>
                       /\ \A i \in In : nstart[i] = 1 /\ ended[i] # "none"
                       /\ ret.errs = {i \in In : ended[i] = "fail"}
                       /\ ret.nbrk = Cardinality({i \in In : ended[i] = "break"})

\* ---- bound-1 peach is each: refinement mapping into Each.tla
TheRunning == IF Running = {} THEN 0 ELSE CHOOSE i \in Running : TRUE
FirstFail == IF \E i \in In : ended[i] = "fail" THEN CHOOSE i \in In : ended[i] = "fail" /\ \A j \in In : ended[j] = "fail" => i <= j
             ELSE 0
EachI == INSTANCE Each WITH
           ecfg <- [n |-> cfg.n, res |-> cfg.res, nout |-> cfg.nout],
           ecur <- Cardinality(Started) + 1,
           eact <- TheRunning,
           epos <- (IF TheRunning = 0 THEN 0 ELSE pos[TheRunning]),
           ebroken <- (\E i \in In : NonOk(i)),
           eerr <- FirstFail,
           eout <- out,
           eret <- (fpc = "returned"),
           eexc <- ret.errs
LikeEachApplies == IsPeach /\ cfg.bound = 1 /\ ~cancelled /\ ~cancelled'
Peach1Step == LikeEachApplies => (EachI!ENext \/ UNCHANGED EachI!evars)
Peach1RefinesEach == [][Peach1Step]_vars
=============================================================================
