SPECIFICATION Spec
INVARIANT Inv
