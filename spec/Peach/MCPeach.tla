------------------------------- MODULE MCPeach -------------------------------
(* M for C20: every configuration with n <= MaxN inputs, every script (result and number of outputs per
   callback), every bound in Bounds (0 = +inf), every interleaving.  One TLC run covers all
   configurations (they are the initial states).  Modes: "peach", "runpar". *)
EXTENDS Peach
CONSTANTS MaxN, MaxOut, Bounds, Modes,
          Res        \* results a callback may have: a subset of {"ok", "break", "fail"}
PeachConfigs == UNION { { [mode |-> "peach", n |-> n, bound |-> b, res |-> r, nout |-> o] :
                            r \in [1..n -> Res], o \in [1..n -> 0..MaxOut], b \in Bounds } : n \in 0..MaxN }
RunParConfigs == UNION { { [mode |-> "runpar", n |-> n, bound |-> 0, res |-> r, nout |-> o] :
                            r \in [1..n -> Res], o \in [1..n -> 0..MaxOut] } : n \in 0..MaxN }
Configs == (IF "peach" \in Modes THEN PeachConfigs ELSE {}) \cup (IF "runpar" \in Modes THEN RunParConfigs ELSE {})
Init == \E c \in Configs : InitWith(c)
Spec == Init /\ [][Next]_vars /\ Fairness
Terminates == <>(fpc = "returned")
=============================================================================
