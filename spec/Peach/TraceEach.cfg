SPECIFICATION TSpec
CONSTRAINT HW
INVARIANT EachObsOK OutputInOrder NoStartAfterBroken StopsAtFirstNonOk ExcIsFirstFail
POSTCONDITION Accepted
