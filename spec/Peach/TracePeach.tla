----------------------------- MODULE TracePeach -----------------------------
(* V (and the judge of G replays) for C20: events recorded from the REAL peach / run-parallel are checked
   to be a behaviour of Peach.tla; every invariant of Peach.tla is evaluated in every inferred state.
   The actions are those of Peach.tla; a logged event pins the action, the unlogged internal steps
   (FTest, FAcquireOK/Cancelled, the decision after Acquire, WFlag, the effect of the cancel call) are placed
   by TLC.  Recheck = Honour = BOOLEAN: both the as-is and the repaired shape of the code are accepted,
   the invariants decide.

   Logged events (one tracer: mutex + sequence number; several runs are concatenated):
     Reset(mode, n, bound, ress, nouts)      a new run (fresh Evaler) with its configuration
     AcqEnter / AcqRet / Spawn               hooks peach.acquire-enter / .acquire-return / .spawn (feeder)
     CbStart(i, conc)  Put(i, v)  CbEnd(i, res)   logged by the harness callback; conc = value of the shared
                                             concurrency counter after its increment (taken under the tracer lock)
     Release(i)                              hook peach.release on worker i's goroutine (before Release(1);
                                             the effect is placed at the hook = earliest possible)
     CancelStart / CancelEnd                 around the call of the context's CancelFunc (C19 replays only)
     Returned(out, errs, nbrk)               Eval returned: captured values, failed callbacks in the exception,
                                             number of `break` flows in it
   run-parallel has no spawn hook: FSpawn is internal there. *)
EXTENDS Peach, Json
Trace == ndJsonDeserialize("trace.ndjson")
VARIABLES l, cst
tvars == <<vars, l, cst>>
Is(e) == l <= Len(Trace) /\ Trace[l].ev = e
T == Trace[l]
Adv == l' = l + 1 /\ UNCHANGED cst
Stay == UNCHANGED <<l, cst>>

TInit == /\ l = 1 /\ cst = "no"
         /\ InitWith([mode |-> "peach", n |-> 0, bound |-> 0, res |-> <<>>, nout |-> <<>>])
         /\ Is("Reset")
Reset == /\ Is("Reset") /\ l' = l + 1 /\ cst' = "no"
         /\ cfg' = [mode |-> T.mode, n |-> T.n, bound |-> T.bound, res |-> T.ress, nout |-> T.nouts]
         /\ Len(T.ress) = T.n /\ Len(T.nouts) = T.n
         /\ fpc' = "test" /\ cur' = 1 /\ permit' = FALSE /\ sem' = 0
         /\ wpc' = [i \in 1..T.n |-> "none"] /\ pos' = [i \in 1..T.n |-> 0] /\ ended' = [i \in 1..T.n |-> "none"]
         /\ nstart' = [i \in 1..T.n |-> 0]
         /\ broken' = FALSE /\ errs' = {} /\ cancelled' = FALSE /\ out' = <<>> /\ ret' = NoRet
         /\ (l = 1 \/ fpc = "returned")           \* the previous run was complete
Logged ==
  \/ Is("AcqEnter") /\ Adv /\ FAcqEnter
  \/ Is("AcqRet") /\ Adv /\ FAcqRet
  \/ Is("Spawn") /\ Adv /\ FSpawn
  \/ Is("CbStart") /\ Adv /\ T.i \in In /\ WStart(T.i) /\ T.conc = Cardinality({i \in In : wpc'[i] = "run"})
  \/ Is("Put") /\ Adv /\ T.i \in In /\ WPut(T.i) /\ T.v = Val(T.i, pos'[T.i])
  \/ Is("CbEnd") /\ Adv /\ T.i \in In /\ WEnd(T.i, T.res)
  \/ Is("Release") /\ Adv /\ T.i \in In /\ WRelease(T.i)
  \/ Is("Returned") /\ Adv /\ FReturn([out |-> T.out, errs |-> Range(T.errs), nbrk |-> T.nbrk])
     /\ T.other = <<>> /\ (~cancelled => T.nintr = 0)      \* nothing but callback failures / break flows in the exception
  \/ Is("CancelStart") /\ l' = l + 1 /\ cst = "no" /\ cst' = "started" /\ UNCHANGED vars
  \/ Is("CancelEnd") /\ l' = l + 1 /\ cst = "done" /\ cst' = "over" /\ UNCHANGED vars
Unlogged ==
  \/ Internal /\ Stay
  \/ cfg.mode = "runpar" /\ FSpawn /\ Stay
  \/ cst = "started" /\ Cancel /\ cst' = "done" /\ UNCHANGED l
TNext == Reset \/ Logged \/ Unlogged
TSpec == TInit /\ [][TNext]_tvars

HW == TLCSet(1, IF TLCGet(1) > l THEN TLCGet(1) ELSE l)
Accepted == PrintT(<<"HW", TLCGet(1)>>) /\ TLCGet(1) = Len(Trace) + 1
ASSUME TLCSet(1, 0)
\* the refinement property, exempting the step that starts a new run
Peach1StepT == (l' = l \/ ~Is("Reset")) => Peach1Step
Peach1RefinesEachT == [][Peach1StepT]_tvars
=============================================================================
