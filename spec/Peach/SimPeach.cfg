CONSTANTS MaxN = 3 MaxOut = 1 Bounds = {0, 1, 2, 3} Modes = {"peach", "runpar"} Res = {"ok", "break", "fail"}
 Recheck = {TRUE, FALSE} Honour = {TRUE, FALSE} MayCancel = FALSE
SPECIFICATION SimSpec
INVARIANT Emit
