------------------------------- MODULE MCEach -------------------------------
EXTENDS Each
CONSTANTS MaxN, MaxOut
Res == {"ok", "break", "fail"}
Configs == UNION { { [n |-> n, res |-> r, nout |-> o] : r \in [1..n -> Res], o \in [1..n -> 0..MaxOut] } : n \in 0..MaxN }
Init == \E c \in Configs : EInitWith(c)
Spec == Init /\ [][ENext]_evars
=============================================================================
