-------------------------------- MODULE Each --------------------------------
(* C20 -- `each` (pkg/eval/builtin_fn_flow.go: each): the sequential reference that
   `peach &num-workers=1` is documented to equal.

   A run is described by ecfg = [n, res, nout]:  n inputs 1..n, callback i puts the values
   i*1000+1 .. i*1000+nout[i] and then finishes with res[i] \in {"ok", "break", "fail"}
   ("ok" also stands for `continue`).

   State   ecur   index of the next input to hand to the callback
           eact   the input whose callback is running (0 = none)
           epos   number of values the running callback has put so far
           ebroken  a callback finished with break or fail
           eerr   the input whose callback failed (0 = none)
           eout   the value output so far
           eret / eexc   each has returned / the set of failed inputs its exception carries
   Actions EStart, EPut, EEnd, EReturn (inputs after a break/fail are drained without a call: not
   observable, folded into EReturn).

   Properties (checked by MCEach and, through the refinement mapping in Peach.tla, demanded of
   bound-1 peach):
     NoStartAfterBroken   ebroken => no callback running or started afterwards (by EStart's guard)
     InOrderOnce          callbacks 1..ecur-1 were started exactly once, in input order
     OutputInOrder        eout is the concatenation of the outputs of callbacks 1..ecur-1 (the last
                          one possibly partial)
     ExcIsFirstFail       at return the exception is the first (and only) failure
     RefAgrees            at return: started = 1..RefStop, output = RefOut, exception = RefFails (EachRef.tla) *)
EXTENDS EachRef
VARIABLES ecfg, ecur, eact, epos, ebroken, eerr, eout, eret, eexc
evars == <<ecfg, ecur, eact, epos, ebroken, eerr, eout, eret, eexc>>


EInitWith(c) == /\ ecfg = c /\ ecur = 1 /\ eact = 0 /\ epos = 0 /\ ebroken = FALSE /\ eerr = 0
                /\ eout = <<>> /\ eret = FALSE /\ eexc = {}

EStart == /\ ~eret /\ eact = 0 /\ ~ebroken /\ ecur <= ecfg.n
          /\ eact' = ecur /\ ecur' = ecur + 1 /\ epos' = 0
          /\ UNCHANGED <<ecfg, ebroken, eerr, eout, eret, eexc>>
EPut == /\ eact # 0 /\ epos < ecfg.nout[eact]
        /\ epos' = epos + 1 /\ eout' = Append(eout, Val(eact, epos + 1))
        /\ UNCHANGED <<ecfg, ecur, eact, ebroken, eerr, eret, eexc>>
EEnd == /\ eact # 0 /\ epos = ecfg.nout[eact]
        /\ ebroken' = (ecfg.res[eact] # "ok")
        /\ eerr' = (IF ecfg.res[eact] = "fail" THEN eact ELSE eerr)
        /\ eact' = 0 /\ epos' = 0
        /\ UNCHANGED <<ecfg, ecur, eout, eret, eexc>>
EReturn == /\ ~eret /\ eact = 0 /\ (ebroken \/ ecur > ecfg.n)
           /\ eret' = TRUE /\ eexc' = (IF eerr = 0 THEN {} ELSE {eerr})
           /\ UNCHANGED <<ecfg, ecur, eact, epos, ebroken, eerr, eout>>
ENext == EStart \/ EPut \/ EEnd \/ EReturn

\* ---- properties of the reference itself
OutputInOrder == eout = (IF eact = 0 THEN OutUpTo(ecfg, ecur - 1)
                         ELSE OutUpTo(ecfg, eact - 1) \o [j \in 1..epos |-> Val(eact, j)])
NoStartAfterBroken == ebroken => eact = 0
StopsAtFirstNonOk == \A i \in 1..(ecur - 1) : (i < ecur - 1 => ecfg.res[i] = "ok")
ExcIsFirstFail == eret => /\ eexc = {i \in 1..(ecur - 1) : ecfg.res[i] = "fail"}
                          /\ (ecur <= ecfg.n => ecfg.res[ecur - 1] # "ok")
\* the closed form of EachRef.tla is what this machine does
RefAgrees == eret => /\ ecur - 1 = RefStop(ecfg) /\ eout = RefOut(ecfg) /\ eexc = RefFails(ecfg)
=============================================================================
