CONSTANTS MaxN = 3 MaxOut = 1 Bounds = {0, 1, 2} Modes = {"peach", "runpar"} Res = {"ok", "break", "fail"}
          Recheck = {TRUE} Honour = {TRUE} MayCancel = FALSE
SPECIFICATION Spec
INVARIANT AtMostOnce ExactlyOnceIfClean BoundRespected SemNonNegative OutputIsUnion ReturnAfterAllFinished AllErrorsReported RunParallelAll
PROPERTY Peach1RefinesEach Terminates
