CONSTANTS Recheck = {TRUE, FALSE} Honour = {TRUE, FALSE} MayCancel = TRUE
SPECIFICATION TSpec
CONSTRAINT HW
INVARIANT AtMostOnce ExactlyOnceIfClean BoundRespected SemNonNegative OutputIsUnion ReturnAfterAllFinished AllErrorsReported RunParallelAll
PROPERTY Peach1RefinesEachT
POSTCONDITION Accepted
