------------------------------- MODULE EachRef -------------------------------
(* The outcome of `each` in closed form (no variables), for a configuration c = [n, res, nout]: the callbacks
   1..RefStop(c) are started in input order, RefStop being the first one that does not finish "ok" (or n);
   the output is theirs in order; the exception carries the failure of the last one, if it failed.
   Each.tla ties this closed form to its state machine by the invariant RefAgrees (checked by MCEach);
   StressPeach.tla judges compact run summaries with it. *)
EXTENDS Integers, Sequences, FiniteSets
Val(i, j) == i * 1000 + j
RECURSIVE OutUpTo(_, _)
OutUpTo(c, k) == IF k = 0 THEN <<>> ELSE OutUpTo(c, k - 1) \o [j \in 1..c.nout[k] |-> Val(k, j)]
NonOkSet(c) == {i \in 1..c.n : c.res[i] # "ok"}
RefStop(c) == IF NonOkSet(c) = {} THEN c.n ELSE CHOOSE i \in NonOkSet(c) : \A j \in NonOkSet(c) : i <= j
RefStarts(c) == [i \in 1..RefStop(c) |-> i]
RefOut(c) == OutUpTo(c, RefStop(c))
RefFails(c) == IF RefStop(c) > 0 /\ c.res[RefStop(c)] = "fail" THEN {RefStop(c)} ELSE {}
=============================================================================
