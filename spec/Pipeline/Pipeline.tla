------------------------------ MODULE Pipeline ------------------------------
(* C18 - pipelines deliver data exactly once, in order, and never deadlock.

   Models pkg/eval/compile_effect.go:pipelineOp.exec, pkg/eval/port.go (valueOutput.Put, byteOutput,
   Port.sendStop/sendError/readerGone), pkg/eval/frame.go:IterateInputs and
   pkg/eval/exception.go:MakePipelineError.

   A pipeline has N stages (N = number of scripts selected by sel).  Adjacent stages i -> i+1 share a
   LINK i: a buffered value channel (capacity Cap; real: pipelineChanBufferSize = 32), a byte pipe holding
   whole lines (capacity PCap lines; real: the OS pipe), and the reader-termination signal
   sendErr/sendStop/readerGone.  Every stage runs a SCRIPT (sequence of operations, last one "ok"/"throw"):
      putv(v)   fm.ValueOutput().Put(v)          -- actions PutSend | PutStopped  (the two select arms, racing)
      putb(v)   fm.ByteOutput().WriteString(line) -- actions WriteB | WriteEPIPE
      getv      <-fm.InputChan()                  -- actions GetV | GetVClosed    (closed: jump to the last op)
      getb      read one line of fm.InputFile()   -- actions ReadB | ReadEOF      (EOF: jump to the last op)
      drain     fm.IterateInputs(cb)              -- DrTakeV/DrTakeB (reader goroutines, one value in hand each),
                                                     DrEndV/DrEndB, DrDeliverV/DrDeliverB (callback), DrDone
      fwd(m,n)  the builtin filters all / take n / drop n: IterateInputs whose callback Puts the selected
                items and keeps draining after a failed Put  -- additionally FwdSend | FwdStopped
      ok|throw  the form returns nil / an exception          -- Finish
   A failed Put / write (reader gone) makes a script stage return that error at once (as put, range, echo do).
   After the form returned, the stage's exit is a sequence of SEPARATE steps in the code's order (ExitStep):
      ret     excs[i] = exc unless (outputIsPipe and isReaderGone(exc))
      serr    *input.sendError = ReaderGone      stop    close(input.sendStop)
      gone    input.readerGone.Store(true)       rclose  close the read end of the input pipe
      wclose  close the write end of the output pipe         cclose  close(output channel)
      wgdone  wg.Done()
   then Wait (wg.Wait returns) and Compose (MakePipelineError).

   Properties (invariants unless noted):
      ExactlyOnceInOrder   what stage s+1 received on each band is a prefix of what stage s wrote on that
                           band; equal to it once the reader has seen the end of the band
      Conservation         written = received ++ in the reader goroutine's hand ++ still buffered
      SendStopHasError     sendStop closed => sendError set (a stopped Put never returns nil)
      GoneBeforeClose      the read end of a link's pipe is closed only after readerGone was stored (a writer
                           that gets EPIPE / SIGPIPE finds readerGone set)
      ReaderGoneOnlyIfReaderExited  a stage gets ReaderGone only after its reader's form has returned
      ReaderGoneSilent     the composed exception lists exactly the stages whose exception is not a
                           ReaderGone with a piped output, in stage order
      NoDeadlock           every non-final state has an enabled action (also TLC's deadlock check)
      Termination          (temporal, weak fairness) the pipeline's exception is eventually composed
   Outside the statement (named predicates, no Unspecified outcome otherwise):
      CrossBandBlocked     a consumer waits on one band while its producer is blocked on the other band
                           (range 100 | read-line, treated under C17).  Script tuples that allow it
                           (~CrossBandFree) are excluded from NoDeadlock/Termination; for them every
                           deadlocked state must satisfy CrossBandBlocked.
      The order in which IterateInputs merges the two bands, and which arm a ready select takes, are
      nondeterministic in the model (both accepted). *)
EXTENDS Integers, Sequences, FiniteSets, TLC, SequencesExt
CONSTANTS Cap, PCap, ScriptOf(_)     \* ScriptOf(sel) = tuple of the stages' scripts
VARIABLES sel,      \* which pipeline (script tuple) runs
          sg,       \* per stage: pc, st, exc, rep, handV, handB, dEndV, dEndB, fwdP, fwdErr, fwdN, last
          lk,       \* per link: chan, pipe, chanClosed, wClosed, rClosed, sendErr, sendStop, readerGone
          gh,       \* ghosts: sentV, sentB, gotV, gotB (per stage; sent*[N] is the pipeline's output), eofV, eofB
          result    \* [ph: "run" | "waited" | "composed", excs: sequence of [s, e]]
mvars == <<sel, sg, lk, gh, result>>

Scripts == ScriptOf(sel)
N == Len(Scripts)
Stages == 1..N
Links == 1..(N-1)
Script(s) == Scripts[s]
Op(s) == Script(s)[sg[s].pc]
NoLast == [k |-> "", v |-> 0, r |-> ""]
Lst(k, v, r) == [k |-> k, v |-> v, r |-> r]

FreshSg(x) == [s \in 1..Len(ScriptOf(x)) |->
                 [pc |-> 1, st |-> "run", exc |-> "none", rep |-> "none", handV |-> <<>>, handB |-> <<>>,
                  dEndV |-> FALSE, dEndB |-> FALSE, fwdP |-> <<>>, fwdErr |-> FALSE, fwdN |-> 0, last |-> NoLast]]
FreshLk(x) == [i \in 1..(Len(ScriptOf(x)) - 1) |->
                 [chan |-> <<>>, pipe |-> <<>>, chanClosed |-> FALSE, wClosed |-> FALSE, rClosed |-> FALSE,
                  sendErr |-> FALSE, sendStop |-> FALSE, readerGone |-> FALSE]]
FreshGh(x) == LET D == 1..Len(ScriptOf(x)) IN
              [sentV |-> [s \in D |-> <<>>], sentB |-> [s \in D |-> <<>>], gotV |-> [s \in D |-> <<>>],
               gotB |-> [s \in D |-> <<>>], eofV |-> [s \in D |-> FALSE], eofB |-> [s \in D |-> FALSE]]
FreshResult == [ph |-> "run", excs |-> <<>>]
InitWith(x) == sel = x /\ sg = FreshSg(x) /\ lk = FreshLk(x) /\ gh = FreshGh(x) /\ result = FreshResult

Running(s, k) == sg[s].st = "run" /\ Op(s).k = k
LastOp(s) == Len(Script(s))

(* ---------------------------------------------------------------- value output: valueOutput.Put *)
PutSend(s) ==
  /\ Running(s, "putv")
  /\ IF s < N THEN /\ Len(lk[s].chan) < Cap
                   /\ lk' = [lk EXCEPT ![s].chan = Append(@, Op(s).v)]
             ELSE lk' = lk          \* the last stage writes to the evaluation's own output port
  /\ gh' = [gh EXCEPT !.sentV[s] = Append(@, Op(s).v)]
  /\ sg' = [sg EXCEPT ![s].pc = @ + 1, ![s].last = Lst("putv", Op(s).v, "ok")]
  /\ UNCHANGED <<sel, result>>
PutStopped(s) ==
  /\ Running(s, "putv") /\ s < N
  /\ IF s < N THEN lk[s].sendStop ELSE FALSE
  /\ IF lk[s].sendErr
       THEN /\ sg' = [sg EXCEPT ![s].st = "ret", ![s].exc = "readergone", ![s].last = Lst("putv", Op(s).v, "gone")]
            /\ gh' = gh
       ELSE \* *sendError read before it was set: Put returns nil although nothing was sent
            /\ sg' = [sg EXCEPT ![s].pc = @ + 1, ![s].last = Lst("putv", Op(s).v, "ok")]
            /\ gh' = [gh EXCEPT !.sentV[s] = Append(@, Op(s).v)]
  /\ UNCHANGED <<sel, lk, result>>
(* ---------------------------------------------------------------- byte output: byteOutput.WriteString *)
WriteB(s) ==
  /\ Running(s, "putb")
  /\ IF s < N THEN /\ ~lk[s].rClosed /\ Len(lk[s].pipe) < PCap
                   /\ lk' = [lk EXCEPT ![s].pipe = Append(@, Op(s).v)]
             ELSE lk' = lk
  /\ gh' = [gh EXCEPT !.sentB[s] = Append(@, Op(s).v)]
  /\ sg' = [sg EXCEPT ![s].pc = @ + 1, ![s].last = Lst("putb", Op(s).v, "ok")]
  /\ UNCHANGED <<sel, result>>
WriteEPIPE(s) ==
  /\ Running(s, "putb") /\ s < N
  /\ IF s < N THEN lk[s].rClosed ELSE FALSE
  /\ sg' = [sg EXCEPT ![s].st = "ret", ![s].exc = "readergone", ![s].last = Lst("putb", Op(s).v, "gone")]
  /\ UNCHANGED <<sel, lk, gh, result>>
(* ---------------------------------------------------------------- input *)
InVEnded(s) == IF s = 1 THEN TRUE ELSE lk[s-1].chan = <<>> /\ lk[s-1].chanClosed   \* stage 1 reads a closed channel
InBEnded(s) == IF s = 1 THEN TRUE ELSE lk[s-1].pipe = <<>> /\ lk[s-1].wClosed      \* ... and /dev/null
InVHas(s) == IF s = 1 THEN FALSE ELSE lk[s-1].chan # <<>>
InBHas(s) == IF s = 1 THEN FALSE ELSE lk[s-1].pipe # <<>>
GetV(s) ==
  /\ Running(s, "getv") /\ InVHas(s)
  /\ LET v == Head(lk[s-1].chan) IN
       /\ lk' = [lk EXCEPT ![s-1].chan = Tail(@)]
       /\ gh' = [gh EXCEPT !.gotV[s] = Append(@, v)]
       /\ sg' = [sg EXCEPT ![s].pc = @ + 1, ![s].last = Lst("getv", v, "ok")]
  /\ UNCHANGED <<sel, result>>
GetVClosed(s) ==
  /\ Running(s, "getv") /\ InVEnded(s)
  /\ gh' = [gh EXCEPT !.eofV[s] = TRUE]
  /\ sg' = [sg EXCEPT ![s].pc = LastOp(s), ![s].last = Lst("getv", 0, "closed")]
  /\ UNCHANGED <<sel, lk, result>>
ReadB(s) ==
  /\ Running(s, "getb") /\ InBHas(s)
  /\ LET v == Head(lk[s-1].pipe) IN
       /\ lk' = [lk EXCEPT ![s-1].pipe = Tail(@)]
       /\ gh' = [gh EXCEPT !.gotB[s] = Append(@, v)]
       /\ sg' = [sg EXCEPT ![s].pc = @ + 1, ![s].last = Lst("getb", v, "ok")]
  /\ UNCHANGED <<sel, result>>
ReadEOF(s) ==
  /\ Running(s, "getb") /\ InBEnded(s)
  /\ gh' = [gh EXCEPT !.eofB[s] = TRUE]
  /\ sg' = [sg EXCEPT ![s].pc = LastOp(s), ![s].last = Lst("getb", 0, "closed")]
  /\ UNCHANGED <<sel, lk, result>>
(* ---------------------------------------------------------------- IterateInputs (drain, fwd) *)
Iterating(s) == sg[s].st = "run" /\ Op(s).k \in {"drain", "fwd"}
DrTakeV(s) ==   \* the value-reader goroutine receives a value and holds it while sending it to inputs
  /\ Iterating(s) /\ ~sg[s].dEndV /\ sg[s].handV = <<>> /\ InVHas(s)
  /\ sg' = [sg EXCEPT ![s].handV = <<Head(lk[s-1].chan)>>]
  /\ lk' = [lk EXCEPT ![s-1].chan = Tail(@)]
  /\ UNCHANGED <<sel, gh, result>>
DrTakeB(s) ==
  /\ Iterating(s) /\ ~sg[s].dEndB /\ sg[s].handB = <<>> /\ InBHas(s)
  /\ sg' = [sg EXCEPT ![s].handB = <<Head(lk[s-1].pipe)>>]
  /\ lk' = [lk EXCEPT ![s-1].pipe = Tail(@)]
  /\ UNCHANGED <<sel, gh, result>>
DrEndV(s) ==
  /\ Iterating(s) /\ ~sg[s].dEndV /\ sg[s].handV = <<>> /\ InVEnded(s)
  /\ sg' = [sg EXCEPT ![s].dEndV = TRUE]
  /\ gh' = [gh EXCEPT !.eofV[s] = TRUE]
  /\ UNCHANGED <<sel, lk, result>>
DrEndB(s) ==
  /\ Iterating(s) /\ ~sg[s].dEndB /\ sg[s].handB = <<>> /\ InBEnded(s)
  /\ sg' = [sg EXCEPT ![s].dEndB = TRUE]
  /\ gh' = [gh EXCEPT !.eofB[s] = TRUE]
  /\ UNCHANGED <<sel, lk, result>>
FwdSelected(op, i) == CASE op.m = "take" -> i < op.n
                         [] op.m = "drop" -> i >= op.n
                         [] OTHER -> TRUE
Deliver(s, v, band) ==   \* the callback runs with item v (band: "v" or "b")
  IF Op(s).k = "drain"
    THEN sg' = [sg EXCEPT ![s].handV = IF band = "v" THEN <<>> ELSE @, ![s].handB = IF band = "b" THEN <<>> ELSE @,
                          ![s].last = Lst("item", v, band)]
    ELSE sg' = [sg EXCEPT ![s].handV = IF band = "v" THEN <<>> ELSE @, ![s].handB = IF band = "b" THEN <<>> ELSE @,
                          ![s].fwdN = @ + 1,
                          ![s].fwdP = IF ~sg[s].fwdErr /\ FwdSelected(Op(s), sg[s].fwdN) THEN <<v>> ELSE <<>>,
                          ![s].last = Lst("item", v, band)]
DrDeliverV(s) ==
  /\ Iterating(s) /\ sg[s].handV # <<>> /\ sg[s].fwdP = <<>>
  /\ Deliver(s, sg[s].handV[1], "v")
  /\ gh' = [gh EXCEPT !.gotV[s] = Append(@, sg[s].handV[1])]
  /\ UNCHANGED <<sel, lk, result>>
DrDeliverB(s) ==
  /\ Iterating(s) /\ sg[s].handB # <<>> /\ sg[s].fwdP = <<>>
  /\ Deliver(s, sg[s].handB[1], "b")
  /\ gh' = [gh EXCEPT !.gotB[s] = Append(@, sg[s].handB[1])]
  /\ UNCHANGED <<sel, lk, result>>
FwdSend(s) ==   \* the Put inside the callback of all/take/drop
  /\ Iterating(s) /\ sg[s].fwdP # <<>>
  /\ IF s < N THEN /\ Len(lk[s].chan) < Cap
                   /\ lk' = [lk EXCEPT ![s].chan = Append(@, sg[s].fwdP[1])]
             ELSE lk' = lk
  /\ gh' = [gh EXCEPT !.sentV[s] = Append(@, sg[s].fwdP[1])]
  /\ sg' = [sg EXCEPT ![s].fwdP = <<>>]
  /\ UNCHANGED <<sel, result>>
FwdStopped(s) ==
  /\ Iterating(s) /\ sg[s].fwdP # <<>> /\ s < N
  /\ IF s < N THEN lk[s].sendStop ELSE FALSE
  /\ IF lk[s].sendErr THEN sg' = [sg EXCEPT ![s].fwdP = <<>>, ![s].fwdErr = TRUE] /\ gh' = gh
                      ELSE sg' = [sg EXCEPT ![s].fwdP = <<>>] /\ gh' = [gh EXCEPT !.sentV[s] = Append(@, sg[s].fwdP[1])]
  /\ UNCHANGED <<sel, lk, result>>
DrDone(s) ==
  /\ Iterating(s) /\ sg[s].dEndV /\ sg[s].dEndB /\ sg[s].handV = <<>> /\ sg[s].handB = <<>> /\ sg[s].fwdP = <<>>
  /\ IF sg[s].fwdErr
       THEN sg' = [sg EXCEPT ![s].st = "ret", ![s].exc = "readergone", ![s].dEndV = FALSE, ![s].dEndB = FALSE,
                             ![s].last = Lst("drainend", 0, "gone")]
       ELSE sg' = [sg EXCEPT ![s].pc = @ + 1, ![s].dEndV = FALSE, ![s].dEndB = FALSE, ![s].fwdN = 0,
                             ![s].last = Lst("drainend", 0, "ok")]
  /\ UNCHANGED <<sel, lk, gh, result>>
(* ---------------------------------------------------------------- the form returns *)
Finish(s) ==
  /\ sg[s].st = "run" /\ Op(s).k \in {"ok", "throw"}
  /\ LET e == IF Op(s).k = "throw" THEN "thrown" ELSE "none" IN
       sg' = [sg EXCEPT ![s].st = "ret", ![s].exc = e, ![s].last = Lst("exit", 0, e)]
  /\ UNCHANGED <<sel, lk, gh, result>>
(* stage actions whose completion a stage command can log (they set last) ... *)
Visible(s) == PutSend(s) \/ PutStopped(s) \/ WriteB(s) \/ WriteEPIPE(s) \/ GetV(s) \/ GetVClosed(s) \/ ReadB(s) \/ ReadEOF(s)
              \/ DrDeliverV(s) \/ DrDeliverB(s) \/ DrDone(s) \/ Finish(s)
(* ... and those inside IterateInputs' goroutines / a builtin's callback *)
Silent(s) == DrTakeV(s) \/ DrTakeB(s) \/ DrEndV(s) \/ DrEndB(s) \/ FwdSend(s) \/ FwdStopped(s)
StageAct(s) == Visible(s) \/ Silent(s)
(* ---------------------------------------------------------------- stage exit, in the code's order *)
PhaseSeq(s) == <<"ret">> \o (IF s > 1 THEN <<"serr", "stop", "gone", "rclose">> ELSE <<>>)
                        \o (IF s < N THEN <<"wclose", "cclose">> ELSE <<>>) \o <<"wgdone", "done">>
NextPh(s) == LET q == PhaseSeq(s) IN q[(CHOOSE i \in 1..Len(q) : q[i] = sg[s].st) + 1]
ExitStep(s) ==
  /\ sg[s].st \notin {"run", "done"}
  /\ LET ph == sg[s].st IN
     /\ sg' = [sg EXCEPT ![s].st = NextPh(s),
                         ![s].rep = IF ph = "ret"
                                      THEN (IF sg[s].exc # "none" /\ ~(s < N /\ sg[s].exc = "readergone") THEN sg[s].exc ELSE "none")
                                      ELSE @]
     /\ lk' = CASE ph = "serr"   -> [lk EXCEPT ![s-1].sendErr = TRUE]
                [] ph = "stop"   -> [lk EXCEPT ![s-1].sendStop = TRUE]
                [] ph = "gone"   -> [lk EXCEPT ![s-1].readerGone = TRUE]
                [] ph = "rclose" -> [lk EXCEPT ![s-1].rClosed = TRUE]
                [] ph = "wclose" -> [lk EXCEPT ![s].wClosed = TRUE]
                [] ph = "cclose" -> [lk EXCEPT ![s].chanClosed = TRUE]
                [] OTHER -> lk
  /\ UNCHANGED <<sel, gh, result>>
Wait == /\ result.ph = "run" /\ N > 0 /\ \A s \in Stages : sg[s].st = "done"
        /\ result' = [result EXCEPT !.ph = "waited"]
        /\ UNCHANGED <<sel, sg, lk, gh>>
(* MakePipelineError: nil | the only exception | all of them (abstracted to the list of the non-OK ones) *)
Reported(F) == SelectSeq([s \in 1..N |-> [s |-> s, e |-> F[s]]], LAMBDA r : r.e # "none")
Compose == /\ result.ph = "waited"
           /\ result' = [ph |-> "composed", excs |-> Reported([s \in Stages |-> sg[s].rep])]
           /\ UNCHANGED <<sel, sg, lk, gh>>
Final == result.ph = "composed"
Step == (\E s \in Stages : StageAct(s) \/ ExitStep(s)) \/ Wait \/ Compose
Next == Step \/ (Final /\ UNCHANGED mvars)

(* ---------------------------------------------------------------- cross-band blocking (outside C18) *)
Count(seq, k) == Cardinality({i \in 1..Len(seq) : seq[i].k = k})
HasOp(seq, k) == \E i \in 1..Len(seq) : seq[i].k = k
OverBands(p) == (IF Count(p, "putv") > Cap \/ HasOp(p, "fwd") THEN {"v"} ELSE {}) \cup (IF Count(p, "putb") > PCap THEN {"b"} ELSE {})
ExplicitBands(c) == (IF HasOp(c, "getv") THEN {"v"} ELSE {}) \cup (IF HasOp(c, "getb") THEN {"b"} ELSE {})
CrossBandFreeScripts(x) == \A i \in 1..(Len(x) - 1) : \A X \in ExplicitBands(x[i+1]), Y \in OverBands(x[i]) : X = Y
CrossBandFree == CrossBandFreeScripts(Scripts)
CrossBandBlocked ==
  \E i \in Links :
     \/ /\ sg[i].st = "run" /\ Op(i).k = "putb" /\ ~lk[i].rClosed /\ Len(lk[i].pipe) >= PCap
        /\ sg[i+1].st = "run" /\ Op(i+1).k = "getv" /\ lk[i].chan = <<>> /\ ~lk[i].chanClosed
     \/ /\ sg[i].st = "run" /\ (Op(i).k = "putv" \/ (Op(i).k = "fwd" /\ sg[i].fwdP # <<>>)) /\ ~lk[i].sendStop /\ Len(lk[i].chan) >= Cap
        /\ sg[i+1].st = "run" /\ Op(i+1).k = "getb" /\ lk[i].pipe = <<>> /\ ~lk[i].wClosed

(* ---------------------------------------------------------------- properties *)
ExactlyOnceInOrder ==
  \A s \in 2..N : /\ IsPrefix(gh.gotV[s], gh.sentV[s-1]) /\ IsPrefix(gh.gotB[s], gh.sentB[s-1])
                  /\ (gh.eofV[s] => gh.gotV[s] = gh.sentV[s-1])
                  /\ (gh.eofB[s] => gh.gotB[s] = gh.sentB[s-1])
Conservation ==
  \A i \in Links : /\ gh.sentV[i] = gh.gotV[i+1] \o sg[i+1].handV \o lk[i].chan
                   /\ gh.sentB[i] = gh.gotB[i+1] \o sg[i+1].handB \o lk[i].pipe
                   /\ Len(lk[i].chan) <= Cap /\ Len(lk[i].pipe) <= PCap
SendStopHasError == \A i \in Links : (lk[i].sendStop => lk[i].sendErr) /\ (lk[i].readerGone => lk[i].sendStop)
GoneBeforeClose == \A i \in Links : lk[i].rClosed => lk[i].readerGone
ReaderGoneOnlyIfReaderExited == \A i \in Links : sg[i].exc = "readergone" => sg[i+1].st # "run"
ExcOf(s) == IF sg[s].exc = "readergone" /\ s < N THEN "none" ELSE sg[s].exc
ReaderGoneSilent == Final => result.excs = Reported([s \in Stages |-> ExcOf(s)])
NoDeadlock == Final \/ ENABLED Step \/ (~CrossBandFree /\ CrossBandBlocked)
Termination == <>Final
=============================================================================
