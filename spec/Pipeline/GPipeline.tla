------------------------------ MODULE GPipeline ------------------------------
(* G for C18: behaviours of Pipeline.tla at the granularity the real code can be steered at.
   A real stage command can be gated before each of its channel / pipe operations, but nothing inside
   pipelineOp.exec can: so here a stage's exit sub-steps run to completion right after its form returned
   (the executor waits until it observes the closed read end before it opens the next gate), and a
   behaviour is the sequence of the stages' operations (hist).  Each emitted step carries
      s, pc          the stage and the index of the operation in its script
      k, v, r        the operation and the outcome the specification prescribes (as in the trace events)
      rg             after a failed WriteString: the value of the link's readerGone flag ("t"); "u" otherwise
      det            FALSE iff both arms of valueOutput.Put's select were ready (room and sendStop closed):
                     the Go runtime chooses, either outcome is a behaviour, the replay stops comparing there
      early          TRUE iff the operation was blocked (no outcome enabled) until the immediately preceding
                     step of another stage enabled it: the executor lets the real stage ENTER the operation
                     before that step, so the real operation really blocks and is woken up
   and the behaviour ends with the composed exception and the pipeline's output.
   Scripts: archetypes without IterateInputs (its goroutines cannot be gated); every tuple of GN stages
   (GLevel 1, 2) or the reader-gone chains of three stages (GLevel 3). *)
EXTENDS Pipeline, Json
CONSTANTS GN, GLevel
VARIABLES hist, enPrev, lastS
gvars == <<sel, sg, lk, gh, result, hist, enPrev, lastS>>
O(k, v) == [k |-> k, v |-> v, n |-> 0, m |-> ""]
PV(v) == O("putv", v)
PB(v) == O("putb", v)
GV == O("getv", 0)
GB == O("getb", 0)
OK == O("ok", 0)
TH == O("throw", 0)
GArchCore ==
  { <<PV(1), PV(2), PV(3), OK>>, <<PB(1), PB(2), OK>>, <<GV, PV(1), GV, PV(2), OK>>, <<GV, OK>>, <<OK>>,
    <<GV, TH>>, <<GV, GV, GV, GV, OK>>, <<GB, GB, GB, OK>>, <<PV(1), TH>> }
GArchMore ==
  { <<PV(1), PB(1), PV(2), OK>>, <<GB, PV(1), GB, PV(2), OK>>, <<GV, PB(1), GV, PB(2), OK>>, <<GB, OK>>, <<TH>>,
    <<PV(1), PV(2), GV, OK>>, <<GV, GV, PV(1), PV(2), TH>> }
GArch == IF GLevel = 1 THEN GArchCore ELSE GArchCore \cup GArchMore
\* GLevel = 3 (GN = 3): the reader-gone CHAIN: a producer of more than Cap values, a middle stage that is itself
\* stopped by reader-gone without draining its input, an early-exiting consumer.  The stopped middle stage must
\* still signal ITS upstream (Pipeline.ExitStep does so whatever the stage's exception is).
GChain == {<<p, m, c>> : p \in {<<PV(1), PV(2), PV(3), OK>>},
                         m \in {<<PV(1), PV(2), PV(3), OK>>, <<GV, PV(1), GV, PV(2), OK>>, <<PV(1), PV(2), GV, OK>>},
                         c \in {<<GV, OK>>, <<OK>>, <<GV, TH>>}}
GTuples == IF GLevel = 3 THEN {x \in GChain : CrossBandFreeScripts(x)}
           ELSE {x \in [1..GN -> GArch] : CrossBandFreeScripts(x)}
Ident(x) == x
OpEnabled(t) ==
  /\ sg[t].st = "run"
  /\ CASE Op(t).k = "putv" -> IF t < N THEN Len(lk[t].chan) < Cap \/ lk[t].sendStop ELSE TRUE
       [] Op(t).k = "putb" -> IF t < N THEN Len(lk[t].pipe) < PCap \/ lk[t].rClosed ELSE TRUE
       [] Op(t).k = "getv" -> InVHas(t) \/ InVEnded(t)
       [] Op(t).k = "getb" -> InBHas(t) \/ InBEnded(t)
       [] OTHER -> TRUE
Det(t) == IF Op(t).k = "putv" /\ t < N THEN ~(Len(lk[t].chan) < Cap /\ lk[t].sendStop) ELSE TRUE
Exiting(s) == sg[s].st \notin {"run", "done"}
GInit == (\E x \in GTuples : InitWith(x)) /\ hist = <<>> /\ enPrev = <<>> /\ lastS = 0
GStep == \E s \in Stages :
           /\ Visible(s)
           /\ hist' = Append(hist, [s |-> s, pc |-> sg[s].pc, k |-> sg'[s].last.k, v |-> sg'[s].last.v, r |-> sg'[s].last.r,
                                    rg |-> IF sg'[s].last.k = "putb" /\ sg'[s].last.r = "gone" THEN (IF lk[s].readerGone THEN "t" ELSE "f") ELSE "u",
                                    det |-> Det(s),
                                    early |-> (lastS # s /\ lastS # 0 /\ ~enPrev[s])])
           /\ enPrev' = [t \in Stages |-> OpEnabled(t)]
           /\ lastS' = s
GNext == IF \E s \in Stages : Exiting(s)
           THEN (LET s == CHOOSE t \in Stages : Exiting(t) IN ExitStep(s)) /\ UNCHANGED <<hist, enPrev, lastS>>
           ELSE GStep \/ ((Wait \/ Compose) /\ UNCHANGED <<hist, enPrev, lastS>>)   \* ends (no successor) in Final
GSpec == GInit /\ [][GNext]_gvars
Emit == Final => PrintT(ToJson([scripts |-> Scripts, steps |-> hist, res |-> result.excs,
                                outv |-> gh.sentV[N], outb |-> gh.sentB[N]]))
=============================================================================
