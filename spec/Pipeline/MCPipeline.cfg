CONSTANTS Cap = 1 PCap = 1 MCN = 2 ArchLevel = 2 IncludeCross = FALSE
CONSTANT ScriptOf <- Ident
SPECIFICATION Spec
INVARIANT ExactlyOnceInOrder Conservation SendStopHasError ReaderGoneOnlyIfReaderExited ReaderGoneSilent NoDeadlock
PROPERTY Termination
CHECK_DEADLOCK TRUE
