----------------------------- MODULE MCPipeline -----------------------------
(* M for C18: every tuple of stage archetypes (producer, filter, early-exiting consumer, thrower, drainer,
   builtin filter; <= 4 operations + exit each) as an initial state, all interleavings.
   MCN stages, channel capacity Cap, pipe capacity PCap (cfg written by the executor).
   IncludeCross = FALSE: only CrossBandFree tuples (NoDeadlock and Termination must hold).
   IncludeCross = TRUE : all tuples; NoDeadlock then requires every deadlock to be CrossBandBlocked. *)
EXTENDS Pipeline
CONSTANTS MCN, ArchLevel, IncludeCross
O(k, v) == [k |-> k, v |-> v, n |-> 0, m |-> ""]
PV(v) == O("putv", v)
PB(v) == O("putb", v)
GV == O("getv", 0)
GB == O("getb", 0)
DR == O("drain", 0)
OK == O("ok", 0)
TH == O("throw", 0)
FW(m, n) == [k |-> "fwd", v |-> 0, n |-> n, m |-> m]
ArchCore ==
  { <<PV(1), PV(2), PV(3), OK>>,            \* value producer
    <<PB(1), PB(2), PB(3), OK>>,            \* byte producer
    <<GV, PV(1), GV, PV(2), OK>>,           \* value filter
    <<GV, OK>>,                             \* early-exiting consumer
    <<OK>>,                                 \* exits without reading
    <<GV, TH>>,                             \* thrower
    <<DR, OK>>,                             \* drainer (IterateInputs)
    <<GV, GV, GV, GV, OK>> }                \* reads the value band to its end
ArchMore ==
  { <<PV(1), PB(1), PV(2), OK>>,            \* mixed producer
    <<GB, PV(1), GB, PV(2), OK>>,           \* bytes -> values
    <<GV, PB(1), GV, PB(2), OK>>,           \* values -> bytes
    <<GB, OK>>, <<TH>>, <<PV(1), TH>>,
    <<DR, PV(1), PV(2), OK>>,               \* drain, then produce
    <<FW("all", 0), OK>>, <<FW("take", 1), OK>>, <<FW("drop", 1), OK>>,   \* builtin filters
    <<GB, GB, GB, GB, OK>> }
Arch == IF ArchLevel = 1 THEN ArchCore ELSE ArchCore \cup ArchMore
Tuples == {x \in [1..MCN -> Arch] : IncludeCross \/ CrossBandFreeScripts(x)}
Ident(x) == x
Init == \E x \in Tuples : InitWith(x)
Spec == Init /\ [][Next]_mvars /\ WF_mvars(Step)
=============================================================================
