---------------------------- MODULE TracePipeline ----------------------------
(* V for C18: events recorded from REAL Elvish pipelines are checked to be a behaviour of Pipeline.tla.
   One global tracer (mutex + order of appending).  Logged events:
     Reset(scripts, logged)       a new pipeline: the stages' scripts; logged[s] = FALSE for builtin stages
                                  (put / range / all / take / drop), whose steps are all placed by TLC
     Start(s, k, v)               a harness stage is about to call Put (k = "putv") / WriteString (k = "putb")
     End(s, k, v, r)              the operation of stage s returned:
                                    putv|putb: r = "ok" | "gone" (ReaderGone; the stage command returns it);
                                               g = the port's readerGone flag read right after a failed
                                               WriteString ("t" | "f"; "u" when it cannot be observed)
                                    getv|getb: r = "ok" (value/line v) | "closed"
                                    item     : IterateInputs called the callback with v (r = band "v"|"b")
                                    drainend : IterateInputs returned
                                    exit     : the stage command returns (r = "none" | "thrown")
     PipelineEnd(res, nexc, outv, outb)  Eval returned: the exception structure and the captured output
   Unlogged steps placed by TLC: the EFFECT of every operation (between its Start -- or, for reads, the
   End of the stage's previous operation -- and its End), the reader goroutines of IterateInputs
   (DrTakeV, DrTakeB, DrEndV, DrEndB), every exit sub-step (ExitStep), Wait, Compose, and every step of an unlogged stage.
   Reduction: exit sub-steps whose effect can only be observed positively (ret, serr, stop, gone, wclose,
   cclose, wgdone) are taken as soon as they are possible, in the code's order; rclose (observed negatively
   by a successful write) floats.  Every real behaviour remains accepted: these steps only set flags that
   nothing observes to be unset.
   Second reduction: operations whose outcome does not depend on WHEN they happen once they are possible
   (receives, reads, IterateInputs' reader goroutines, DrDone, Finish: only this stage consumes its input,
   and a closed/ended band stays so) are placed as early as possible (Eager); the effects of Put /
   WriteString, whose outcome (sent | reader gone) depends on the moment, the callback of IterateInputs
   (which band is delivered next depends on what has arrived by then) and rclose float.  Taking a
   value earlier only frees buffer space earlier, which enables nothing that a later Put could not do anyway.
   Cap is the measured capacity of the real channel (cap(fm.Port(1).Chan)); PCap is unbounded here (the
   OS pipe size is not part of the property). *)
EXTENDS Pipeline, Json
Trace == ndJsonDeserialize("trace.ndjson")
VARIABLES l,      \* next trace line
          fl,     \* per stage: "idle" | "started" | "eff" (effect placed, End not yet matched) | "ended"
          pend    \* PipelineEnd of the current pipeline matched
vars == <<l, fl, pend, sel, sg, lk, gh, result>>
TrScriptOf(i) == IF i = 0 THEN <<>> ELSE Trace[i].scripts
Logged(s) == Trace[sel].logged[s]
T == Trace[l]
Is(e) == l <= Len(Trace) /\ T.ev = e

Init == l = 1 /\ fl = <<>> /\ pend = TRUE /\ InitWith(0)

EvReset == /\ Is("Reset") /\ pend
           /\ l' = l + 1 /\ pend' = FALSE /\ sel' = l
           /\ sg' = FreshSg(l) /\ lk' = FreshLk(l) /\ gh' = FreshGh(l) /\ result' = FreshResult
           /\ fl' = [s \in 1..Len(TrScriptOf(l)) |-> "idle"]

NeedsStart(s) == Op(s).k \in {"putv", "putb"}
EvStart == /\ Is("Start") /\ T.s \in Stages
           /\ LET s == T.s IN
                /\ Logged(s) /\ fl[s] = "idle" /\ sg[s].st = "run" /\ Op(s).k = T.k /\ NeedsStart(s) /\ Op(s).v = T.v
                /\ fl' = [fl EXCEPT ![s] = "started"]
           /\ l' = l + 1 /\ UNCHANGED <<pend, sel, sg, lk, gh, result>>
PutLike(s) == PutSend(s) \/ PutStopped(s) \/ WriteB(s) \/ WriteEPIPE(s)
NonPut(s) == GetV(s) \/ GetVClosed(s) \/ ReadB(s) \/ ReadEOF(s) \/ DrDone(s) \/ Finish(s)
DeliverCb(s) == DrDeliverV(s) \/ DrDeliverB(s)
InputSide(s) == DrTakeV(s) \/ DrTakeB(s) \/ DrEndV(s) \/ DrEndB(s)
FwdPut(s) == FwdSend(s) \/ FwdStopped(s)
Effect == \E s \in Stages :          \* floating: the effect of a started Put / WriteString, the callback of IterateInputs
            /\ Logged(s) /\ sg[s].st = "run"
            /\ \/ fl[s] = "started" /\ PutLike(s)
               \/ fl[s] = "idle" /\ DeliverCb(s)
            /\ fl' = [fl EXCEPT ![s] = "eff"]
            /\ UNCHANGED <<l, pend>>
EagerEffect == \E s \in Stages :
            /\ Logged(s) /\ sg[s].st = "run" /\ fl[s] = "idle"
            /\ NonPut(s)
            /\ fl' = [fl EXCEPT ![s] = "eff"]
            /\ UNCHANGED <<l, pend>>
EvEnd == /\ Is("End") /\ T.s \in Stages
         /\ LET s == T.s IN
              /\ Logged(s) /\ fl[s] = "eff" /\ sg[s].last = [k |-> T.k, v |-> T.v, r |-> T.r]
              /\ (T.k = "putb" /\ T.r = "gone" /\ T.g # "u") => ((T.g = "t") = lk[s].readerGone)
              /\ fl' = [fl EXCEPT ![s] = IF sg[s].st = "run" THEN "idle" ELSE "ended"]
         /\ l' = l + 1 /\ UNCHANGED <<pend, sel, sg, lk, gh, result>>
\* IterateInputs' reader goroutines run once the stage has entered the operation (its previous End is logged)
Readers == \E s \in Stages :
             /\ Logged(s) /\ (fl[s] = "idle" \/ (fl[s] = "eff" /\ sg[s].last.k = "item"))
             /\ InputSide(s)
             /\ UNCHANGED <<l, fl, pend>>
\* An unlogged (builtin) stage: before its reader has left (sendStop still open) a Put with room can only send,
\* and what it does after the reader has left is seen by nobody; with a producer that writes no lines the
\* callback order is the channel order.  So those steps are eager too; the rest floats.
StopSet(s) == IF s < N THEN lk[s].sendStop ELSE FALSE
UpBytes(s) == IF s > 1 THEN HasOp(Script(s-1), "putb") ELSE FALSE
Unlogged == \E s \in Stages : /\ ~Logged(s)
                               /\ \/ StopSet(s) /\ (PutSend(s) \/ PutStopped(s) \/ FwdPut(s))
                                  \/ WriteB(s) \/ WriteEPIPE(s)
                                  \/ UpBytes(s) /\ DeliverCb(s)
                               /\ UNCHANGED <<l, fl, pend>>
EagerUnlogged == \E s \in Stages : /\ ~Logged(s)
                                    /\ \/ NonPut(s) \/ InputSide(s)
                                       \/ ~StopSet(s) /\ (PutSend(s) \/ FwdSend(s))
                                       \/ ~UpBytes(s) /\ DeliverCb(s)
                                    /\ UNCHANGED <<l, fl, pend>>
Eager == EagerEffect \/ Readers \/ EagerUnlogged
MayExit(s) == sg[s].st \notin {"run", "done"} /\ (Logged(s) => fl[s] = "ended")
UrgentPh == {"ret", "serr", "stop", "gone", "wclose", "cclose", "wgdone"}
Urgent(s) == MayExit(s) /\ sg[s].st \in UrgentPh
AnyUrgent == \E s \in Stages : Urgent(s)
UrgentExit == LET s == CHOOSE t \in Stages : Urgent(t) /\ \A u \in Stages : Urgent(u) => t <= u IN
              ExitStep(s) /\ UNCHANGED <<l, fl, pend>>
FloatExit == \E s \in Stages : MayExit(s) /\ sg[s].st = "rclose" /\ ExitStep(s) /\ UNCHANGED <<l, fl, pend>>
Tail2 == (Wait \/ Compose) /\ UNCHANGED <<l, fl, pend>>
ResMatches == /\ Len(T.res) = Len(result.excs)
              /\ \A i \in 1..Len(T.res) : /\ T.res[i].e = result.excs[i].e
                                          /\ (T.res[i].s = result.excs[i].s \/ (T.res[i].s = 0 /\ Len(T.res) = 1))
              /\ (Len(T.res) >= 2 => T.nexc = N)
EvPipelineEnd == /\ Is("PipelineEnd") /\ ~pend /\ Final
                 /\ ResMatches /\ T.outv = gh.sentV[N] /\ T.outb = gh.sentB[N]
                 /\ pend' = TRUE /\ l' = l + 1 /\ UNCHANGED <<fl, sel, sg, lk, gh, result>>
TNext == IF AnyUrgent THEN UrgentExit
         ELSE IF ENABLED Eager THEN Eager
         ELSE EvReset \/ EvStart \/ Effect \/ EvEnd \/ Unlogged \/ FloatExit \/ Tail2 \/ EvPipelineEnd
TSpec == Init /\ [][TNext]_vars
HW == TLCSet(1, IF TLCGet(1) > l THEN TLCGet(1) ELSE l)
Accepted == PrintT(<<"HW", TLCGet(1)>>) /\ TLCGet(1) = Len(Trace) + 1
ASSUME TLCSet(1, 0)
=============================================================================
