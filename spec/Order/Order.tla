------------------------------- MODULE Order -------------------------------
(* C10 -- the builtin `order` outputs a stable sorted permutation of its inputs.
   Written from builtin_fn_stream.d.elv (`order`) and builtin_fn_pred.d.elv (`compare`).

   Abstract world.
     key   [kind, r, es]  what is compared: kind "num" | "str" | "bool" (ordered by the integer
           rank r), "list" (es = sequence of keys, lexicographic, recursively), "nil" | "map"
           (unordered types: values with the same identity r are eq and compare equal; different
           ones are uncomparable, and rank equal under &total).
     item  [key, tag]     one input value; tag is payload that the comparison does not look at
           (so that the relative order of equal keys is observable).
     opts  [rev, keyf, cmp, fail, at]
           rev   &reverse
           keyf  TRUE: &key is given (a callback mapping the value to its key)
           cmp   "default" | "total" (&total) | "lt" (&less-than = the documented equivalent
                 `== -1 (compare $a $b)`) | "ltdesc" (&less-than = the opposite order)
                 | "both" (&total together with &less-than: documented as an error)
           fail  "none" | "key" (the &key callback throws in its at-th call)
                 | "lt" (the &less-than callback throws in its at-th call)
                 | "lton" (the &less-than callback throws whenever an argument is a key of an
                 ordered kind with rank r = at)
     kr    the internal order of types used by &total: kr[k1][k2] \in {-1, 0, 1}.  The reference
           leaves it unspecified but promises consistency, so it is DATA measured on the real code
           with `compare &total` (ConsistentKinds is part of the verdict).

   The rule is one step:  order(in, opts) = Outcome.  Operators:
     Lt(o, kr)(a, b)            the strict order `order` has to sort by under opts
     IsStableSort(in, out, lt)  declarative: out is a permutation p of in, no element precedes a
                                smaller one, elements that compare equal keep their input order
     StableSorted(in, out, lt)  the same without quantifying over permutations (for long inputs);
                                MCOrder checks  IsStableSort <=> StableSorted  and that the stable
                                sorted permutation exists, is unique and equals Sort(in, lt)
     MustThrow / MayThrow       the failure clause; OutcomeOK(in, o, kr, exc, out)

   &reverse: "descending", and values that compare equal keep their input order (property
   statement; the doc sentence "reverses the order of output" is read as reversing the comparison,
   which is what a stable descending sort is).

   Unspecified (both outcomes accepted: exception without output, or the sorted output):
     - some pair of inputs is uncomparable but no correct sort is forced to compare it
       (the reference does not say which pairs are compared);
     - the &less-than callback is set to throw in a call later than the (n-1)-th: any comparison
       sort needs n-1 calls, how many more it makes is not specified.
   Out of the model: callbacks that output other than one value / a non-boolean. *)
EXTENDS Integers, Sequences, FiniteSets

Key(kind, r, es) == [kind |-> kind, r |-> r, es |-> es]
NumKey(r) == Key("num", r, <<>>)
Item(key, tag) == [key |-> key, tag |-> tag]

Ordered   == {"num", "str", "bool"}
Unordered == {"nil", "map"}

(* ------------------------------------------------ compare, from the reference *)
RECURSIVE Cmp(_, _, _, _)
\* "lt" | "eq" | "gt" | "unc"
Cmp(a, b, total, kr) ==
  IF a.kind # b.kind
  THEN IF ~total THEN "unc" ELSE IF kr[a.kind][b.kind] = -1 THEN "lt" ELSE "gt"
  ELSE IF a.kind \in Ordered THEN (IF a.r < b.r THEN "lt" ELSE IF a.r > b.r THEN "gt" ELSE "eq")
  ELSE IF a.kind = "list" THEN
       LET n == IF Len(a.es) < Len(b.es) THEN Len(a.es) ELSE Len(b.es)
           d == {i \in 1..n : Cmp(a.es[i], b.es[i], total, kr) # "eq"}
       IN IF d = {} THEN (IF Len(a.es) < Len(b.es) THEN "lt" ELSE IF Len(a.es) > Len(b.es) THEN "gt" ELSE "eq")
          ELSE LET i == CHOOSE i \in d : \A j \in d : i <= j IN Cmp(a.es[i], b.es[i], total, kr)
  ELSE IF a.r = b.r THEN "eq" ELSE IF total THEN "eq" ELSE "unc"

\* the promise about the internal order of types: a strict total order on the kinds in use
ConsistentKinds(kinds, kr) ==
  /\ \A a \in kinds : kr[a][a] = 0
  /\ \A a, b \in kinds : a # b => kr[a][b] \in {-1, 1} /\ kr[a][b] = -kr[b][a]
  /\ \A a, b, c \in kinds : (kr[a][b] = -1 /\ kr[b][c] = -1) => kr[a][c] = -1

RECURSIVE KindsOf(_)
KindsOf(k) == {k.kind} \cup UNION {KindsOf(k.es[i]) : i \in 1..Len(k.es)}

(* ------------------------------------------------ the order `order` sorts by *)
Total(o) == o.cmp = "total"
\* the comparator before &reverse
Less(o, kr, a, b) ==
  IF o.cmp = "ltdesc" THEN Cmp(a.key, b.key, FALSE, kr) = "gt"
  ELSE Cmp(a.key, b.key, Total(o), kr) = "lt"
Lt(o, kr, a, b) == IF o.rev THEN Less(o, kr, b, a) ELSE Less(o, kr, a, b)
Unc(o, kr, a, b) == ~Total(o) /\ Cmp(a.key, b.key, FALSE, kr) = "unc"

(* ------------------------------------------------ stable sorted permutation *)
Perms(n) == {p \in [1..n -> 1..n] : \A i, j \in 1..n : i # j => p[i] # p[j]}

\* lt(a, b) is passed as an operator
IsStableSortVia(in, out, lt(_, _), p) ==
  /\ \A i \in 1..Len(in) : out[i] = in[p[i]]
  /\ \A i, j \in 1..Len(in) : i < j => ~lt(out[j], out[i])
  /\ \A i, j \in 1..Len(in) : (i < j /\ ~lt(out[i], out[j])) => p[i] < p[j]
\* P: the permutations of 1..Len(in) (a parameter so that a model can tabulate them once)
IsStableSortP(in, out, lt(_, _), P) ==
  /\ Len(out) = Len(in)
  /\ \E p \in P : IsStableSortVia(in, out, lt, p)
IsStableSort(in, out, lt(_, _)) == IsStableSortP(in, out, lt, Perms(Len(in)))

Eqv(lt(_, _), a, b) == ~lt(a, b) /\ ~lt(b, a)
Sel(s, P(_)) == SelectSeq(s, P)
\* without permutations (lt looks at keys only and is a strict weak order on comparable keys):
\* neighbours are non-decreasing, and every class of mutually equal keys -- of in or of out --
\* appears in out exactly as it appears in in (same elements, multiplicity, relative order)
StableSorted(in, out, lt(_, _)) ==
  /\ Len(out) = Len(in)
  /\ \A i \in 1..(Len(out) - 1) : ~lt(out[i + 1], out[i])
  /\ \A x \in {Item(in[i].key, 0) : i \in 1..Len(in)} \cup {Item(out[i].key, 0) : i \in 1..Len(out)} :
       LET Same(y) == Eqv(lt, y, x) IN Sel(out, Same) = Sel(in, Same)

\* constructive: insertion from the left, each element after all elements that are not greater
RECURSIVE InsertAfter(_, _, _, _)
InsertAfter(s, x, lt(_, _), i) ==      \* i: number of elements of s already passed
  IF i = Len(s) THEN Append(s, x)
  ELSE IF lt(x, s[i + 1]) THEN SubSeq(s, 1, i) \o <<x>> \o SubSeq(s, i + 1, Len(s))
  ELSE InsertAfter(s, x, lt, i + 1)
RECURSIVE SortFrom(_, _, _, _)
SortFrom(in, acc, lt(_, _), i) ==
  IF i > Len(in) THEN acc ELSE SortFrom(in, InsertAfter(acc, in[i], lt, 0), lt, i + 1)
Sort(in, lt(_, _)) == SortFrom(in, <<>>, lt, 1)

(* ------------------------------------------------ failure clause *)
HasKind2(in) == \E i, j \in 1..Len(in) : in[i].key.kind # in[j].key.kind
\* cheap sufficient condition for "no uncomparable pair" (linear in the input): all keys of one
\* ordered kind, or all keys lists whose elements are all of one ordered kind
Flat(in) == \/ \E kd \in Ordered : \A i \in 1..Len(in) : in[i].key.kind = kd
            \/ \E kd \in Ordered : \A i \in 1..Len(in) :
                  in[i].key.kind = "list" /\ \A j \in 1..Len(in[i].key.es) : in[i].key.es[j].kind = kd
Isolated(in, o, kr) == ~Flat(in) /\ \E i \in 1..Len(in) : \A j \in 1..Len(in) : j # i => Unc(o, kr, in[i], in[j])
AnyUnc(in, o, kr) == ~Total(o) /\ ~Flat(in) /\ \E i, j \in 1..Len(in) : i # j /\ Unc(o, kr, in[i], in[j])
UsesCmp(o) == o.cmp \in {"default", "total"}     \* builtin comparator; callbacks use `compare` too
\* the builtin comparator (and the documented-equivalent callbacks, which call `compare`) must
\* meet an uncomparable pair when the comparability graph is disconnected; two sufficient
\* conditions are used: an element uncomparable to all others, or values of two kinds
ForcedUnc(in, o, kr) == Len(in) >= 2 /\ ~Total(o) /\ (Isolated(in, o, kr) \/ (HasKind2(in) /\ AnyUnc(in, o, kr)))

MustThrow(in, o, kr) ==
  \/ o.cmp = "both"
  \/ o.fail = "key" /\ o.keyf /\ 1 <= o.at /\ o.at <= Len(in)
  \/ o.fail = "lt" /\ o.cmp \in {"lt", "ltdesc"} /\ 1 <= o.at /\ o.at <= Len(in) - 1
  \/ o.fail = "lton" /\ o.cmp \in {"lt", "ltdesc"} /\ Len(in) >= 2 /\ \E i \in 1..Len(in) : in[i].key.kind \in Ordered /\ in[i].key.r = o.at
  \/ ForcedUnc(in, o, kr)
MayThrow(in, o, kr) ==
  \/ AnyUnc(in, o, kr)
  \/ o.fail = "lt" /\ o.cmp \in {"lt", "ltdesc"} /\ o.at >= 1
Unspecified(in, o, kr) == ~MustThrow(in, o, kr) /\ MayThrow(in, o, kr)

\* what `order` may do: exc = it threw; out = the values it had output
OutcomeOK(in, o, kr, exc, out) ==
  LET lt(a, b) == Lt(o, kr, a, b)
      good     == ~exc /\ StableSorted(in, out, lt)
      thrown   == exc /\ out = <<>>
  IN IF MustThrow(in, o, kr) THEN thrown
     ELSE IF MayThrow(in, o, kr) THEN thrown \/ good
     ELSE good
=============================================================================
