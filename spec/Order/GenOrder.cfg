CONSTANT N = 2
INIT Init
NEXT Next
INVARIANT Sound
INVARIANT FlatSound
INVARIANT Emit
