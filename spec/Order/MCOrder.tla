------------------------------ MODULE MCOrder ------------------------------
(* M for C10.  Every state is an input sequence of length <= N over 3 keys x 2 tags together with
   one of the orders `order` can be asked to sort by (ascending / &reverse, `compare` / the
   opposite callback).  Checked:
     ExistsUnique  a permutation satisfying IsStableSort exists, all of them give the same output,
                   and that output is Sort(in) -- so the outcome prescribed in G is well defined;
     Equivalent    for n <= NE and EVERY candidate output of length n over the items:
                   IsStableSort(in, out) <=> StableSorted(in, out)  -- the permutation-free form
                   used to judge long recorded inputs says the same;
     WeakOrder     Lt is irreflexive, transitive, and incomparability is transitive. *)
EXTENDS Order, OrderKR, TLC
CONSTANTS N, NE
VARIABLES in, o

Items == {Item(NumKey(k), t) : k \in 1..3, t \in 1..2}
RECURSIVE SeqsUpTo(_)
SeqsUpTo(n) == IF n = 0 THEN {<<>>} ELSE LET S == SeqsUpTo(n - 1) IN S \cup {Append(s, x) : s \in {t \in S : Len(t) = n - 1}, x \in Items}
SeqsOf(n) == {s \in SeqsUpTo(n) : Len(s) = n}

\* ascending, &reverse, and the opposite callback (its &reverse is the ascending order again)
Opts == {[rev |-> r, keyf |-> FALSE, cmp |-> "default", fail |-> "none", at |-> 0] : r \in BOOLEAN}
        \cup {[rev |-> FALSE, keyf |-> FALSE, cmp |-> "ltdesc", fail |-> "none", at |-> 0]}

\* the sequences are grown element by element, so that every worker gets its share of the states
Init == in = <<>> /\ o \in Opts
Next == Len(in) < N /\ \E x \in Items : in' = Append(in, x) /\ o' = o

lt(a, b) == Lt(o, KR, a, b)
PermTab == [n \in 0..N |-> Perms(n)]
Outs == {[i \in 1..Len(in) |-> in[p[i]]] : p \in {q \in PermTab[Len(in)] : IsStableSortVia(in, [i \in 1..Len(in) |-> in[q[i]]], lt, q)}}
ExistsUnique == Outs = {Sort(in, lt)}
Equivalent == Len(in) <= NE => \A out \in SeqsOf(Len(in)) : IsStableSortP(in, out, lt, PermTab[Len(in)]) = StableSorted(in, out, lt)
WeakOrder == Len(in) = 0 => \A a, b, c \in Items :
               /\ ~lt(a, a)
               /\ (lt(a, b) /\ lt(b, c)) => lt(a, c)
               /\ (Eqv(lt, a, b) /\ Eqv(lt, b, c)) => Eqv(lt, a, c)
\* the linear shortcut of the failure clause is sound: flat inputs have no uncomparable pair
FlatSound == Flat(in) => \A i, j \in 1..Len(in) : ~Unc(o, KR, in[i], in[j])
NoFailure == ~MustThrow(in, o, KR) /\ ~MayThrow(in, o, KR)
=============================================================================
