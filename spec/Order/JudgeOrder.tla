------------------------------ MODULE JudgeOrder ------------------------------
(* V for C10: case walker (one TLC state per recorded call of the real `order` builtin).
   A case is  [in, o, exc, out]: the abstract input items, the options, whether `order` threw, and
   the items it had output (projected back by the executor).  KR (module OrderKR, written by the
   executor) is the order of types measured with `compare &total` on the same Evaler.
   Accepted iff KR is a consistent strict order on the kinds that occur and
   OutcomeOK(in, o, KR, exc, out) of Order.tla holds.
   Rejected cases print <<"BAD", k, reason>>; Unspecified ones <<"UNSPEC", k>> (statistics). *)
EXTENDS Order, OrderKR, TLC, Json
Cases == ndJsonDeserialize("cases.ndjson")
VARIABLE k
Init == k = 0
Next == k < Len(Cases) /\ k' = k + 1

KindsIn(c) == UNION {KindsOf(c.in[i].key) : i \in 1..Len(c.in)}
Reason(c) == IF ~ConsistentKinds(KindsIn(c), KR) THEN "type-order-inconsistent"
             ELSE IF OutcomeOK(c.in, c.o, KR, c.exc, c.out) THEN "ok"
             ELSE IF MustThrow(c.in, c.o, KR) THEN "no-exception-or-output-before-exception"
             ELSE IF c.exc THEN "unexpected-exception"
             ELSE "not-the-stable-sorted-permutation"
Inv == k = 0 \/ (Reason(Cases[k]) = "ok" /\ (Unspecified(Cases[k].in, Cases[k].o, KR) => PrintT(<<"UNSPEC", k>>)))
             \/ (Reason(Cases[k]) # "ok" /\ PrintT(<<"BAD", k, Reason(Cases[k])>>))
=============================================================================
