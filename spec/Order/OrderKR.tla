------------------------------ MODULE OrderKR ------------------------------
(* The internal order of types that `compare &total` uses, as measured on the real code by the
   executor (which overwrites this file in TLC's scratch directory before every run).  The
   reference leaves the order unspecified; Order.tla only requires it to be consistent.
   This checked-in copy holds the values observed on linux/amd64 so that the modules can be
   checked stand-alone. *)
EXTENDS Integers
Kinds == <<"num", "str", "bool", "list", "nil", "map">>
KR == [num  |-> [num |-> 0, str |-> 1, bool |-> -1, list |-> -1, nil |-> 1, map |-> -1],
       str  |-> [num |-> -1, str |-> 0, bool |-> -1, list |-> -1, nil |-> 1, map |-> -1],
       bool |-> [num |-> 1, str |-> 1, bool |-> 0, list |-> -1, nil |-> 1, map |-> -1],
       list |-> [num |-> 1, str |-> 1, bool |-> 1, list |-> 0, nil |-> 1, map |-> 1],
       nil  |-> [num |-> -1, str |-> -1, bool |-> -1, list |-> -1, nil |-> 0, map |-> -1],
       map  |-> [num |-> 1, str |-> 1, bool |-> 1, list |-> -1, nil |-> 1, map |-> 0]]
=============================================================================
