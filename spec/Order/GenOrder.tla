------------------------------ MODULE GenOrder ------------------------------
(* G for C10: every state is one input sequence of length <= N over 4 keys (three numbers and a
   string) x 2 tags; for every option combination of OptSet TLC prints the outcome that Order.tla
   prescribes (the unique stable sorted output Sort(in, Lt), or "throws, no output"), and the
   executor replays it through the real `order` builtin.  Cases whose outcome the reference leaves
   open are flagged unspec and accepted either way by the executor.
   KR (the internal order of types under &total) is measured on the real code before this runs. *)
EXTENDS Order, OrderKR, TLC, Json
CONSTANT N
VARIABLE in

Keys  == {NumKey(1), NumKey(2), NumKey(3), Key("str", 1, <<>>)}
Items == {Item(k, t) : k \in Keys, t \in 1..2}

O(rev, keyf, cmp, fail, at) == [rev |-> rev, keyf |-> keyf, cmp |-> cmp, fail |-> fail, at |-> at]
Plain == {O(r, kf, c, "none", 0) : r \in BOOLEAN, kf \in BOOLEAN, c \in {"default", "total", "lt", "ltdesc"}}
Failing(n) == {O(r, TRUE, "both", "none", 0) : r \in BOOLEAN}
              \cup {O(FALSE, TRUE, c, "key", a) : c \in {"default", "total"}, a \in {1, n, n + 1}}
              \cup {O(r, FALSE, "lt", "lt", a) : r \in BOOLEAN, a \in {1, n - 1, n}}
              \cup {O(FALSE, TRUE, "ltdesc", "lton", 2)}
OptSet(n) == Plain \cup Failing(n)

Init == in = <<>>
Next == Len(in) < N /\ \E x \in Items : in' = Append(in, x)

Exp(o) == LET lt(a, b) == Lt(o, KR, a, b) IN
          IF MustThrow(in, o, KR) THEN [exc |-> TRUE, out |-> <<>>]
          ELSE [exc |-> FALSE, out |-> Sort(in, lt)]
\* the prescribed outcome satisfies the declarative property (cross-check inside the model)
Sound == \A o \in OptSet(Len(in)) : OutcomeOK(in, o, KR, Exp(o).exc, Exp(o).out)
FlatSound == \A o \in OptSet(Len(in)) : Flat(in) => \A i, j \in 1..Len(in) : ~Unc(o, KR, in[i], in[j])
Emit == PrintT(ToJson([in |-> in,
                       cases |-> [o \in OptSet(Len(in)) |-> [o |-> o, exp |-> Exp(o), unspec |-> Unspecified(in, o, KR)]]]))
=============================================================================
