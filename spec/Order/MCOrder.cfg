CONSTANTS N = 4
 NE = 3
INIT Init
NEXT Next
INVARIANT ExistsUnique
INVARIANT Equivalent
INVARIANT WeakOrder
INVARIANT NoFailure
INVARIANT FlatSound
