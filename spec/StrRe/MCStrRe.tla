------------------------------ MODULE MCStrRe ------------------------------
(* Exhaustive configuration (M) and case generator (G) for C41.  Every initial state is one case;
   TLC checks the laws on it and Emit prints the prescribed outputs of the builtins.
   Family "pair":  (s, p, n)  -- text, separator / affix / literal, &max
   Family "unary": s          -- code-point functions, white space, case
   Texts are built from tokens (byte sequences): ASCII letters, the separator character, 2- and
   3-byte characters, white space, case-table characters, bytes that are not UTF-8, and a
   continuation byte together with a character that ends in it (so that a byte-wise match can
   fall inside a character). *)
EXTENDS StrRe, TLC, Json
CONSTANTS Family, LS, LP, Alpha,    \* Alpha: "quick" | "thorough"
          NsRaw                     \* the &max values of family "pair"; 9 stands for -1 (cfg files have no negative numbers)
VARIABLES s, p, n, stage     \* stage 0: the text is chosen; stage 1: a complete case

EAcute == <<195, 169>>      \* U+00E9
AGrave == <<195, 128>>      \* U+00C0: ends in the continuation byte 128
Bad    == <<255>>
Cont   == <<128>>
PairTokS == IF Alpha = "quick" THEN {<<97>>, <<98>>, <<44>>, EAcute, Bad}
            ELSE {<<97>>, <<98>>, <<44>>, EAcute, Bad, AGrave, Cont}
PairTokP == IF Alpha = "quick" THEN {<<97>>, <<44>>, EAcute, Bad}
            ELSE {<<97>>, <<44>>, EAcute, Bad, Cont, <<195>>}
UnaryTok == IF Alpha = "thorough"      \* the longer texts of the thorough tier use nine of the tokens
            THEN {<<97>>, <<32>>, <<194, 160>>, <<226, 128, 139>>, <<195, 159>>, <<196, 176>>, <<199, 134>>, Bad, <<226, 130>>}
            ELSE
            {<<97>>, <<90>>, <<32>>, <<9>>, <<194, 160>>, <<226, 128, 131>>, <<226, 128, 139>>, EAcute,
             <<195, 159>>, <<196, 176>>, <<196, 177>>, <<199, 134>>, <<199, 133>>, Bad, <<226, 130>>}
             \* a Z space tab NBSP EM-SPACE ZWSP(not white) e-acute sharp-s dotted-I dotless-i dz Dz bad truncated

Ns == {IF x = 9 THEN -1 ELSE x : x \in NsRaw}
RECURSIVE TextsOf(_, _)
TextsOf(T, k) == IF k = 0 THEN {<<>>} ELSE {<<>>} \cup {t \o r : t \in T, r \in TextsOf(T, k - 1)}

Init == /\ s \in TextsOf(IF Family = "pair" THEN PairTokS ELSE UnaryTok, LS)
        /\ p = <<>> /\ n = -1 /\ stage = 0
Next == /\ stage = 0 /\ stage' = 1 /\ s' = s
        /\ IF Family = "pair" THEN p' \in TextsOf(PairTokP, LP) /\ n' \in Ns
           ELSE p' = p /\ n' = n

(* ---------------- laws (M) ---------------- *)
Pair == Family = "pair" /\ stage = 1
JoinSplit   == (Pair /\ n # 0) => Join(SplitN(s, p, n), p) = s
SplitCount  == (Pair /\ p # <<>>) => Len(Split(s, p)) = Count(s, p) + 1
NoSepInside == (Pair /\ p # <<>>) => \A i \in 1..Len(Split(s, p)) : ~Contains(Split(s, p)[i], p)
MaxBound    == (Pair /\ n > 0) => LET a == Split(s, p)  b == SplitN(s, p, n)
                                  IN  Len(b) <= n /\ (Len(a) >= n => Len(b) = n) /\ (Len(a) <= n => b = a)
Affix       == Pair =>
                 /\ IF HasPrefix(s, p) THEN p \o TrimPrefix(s, p) = s ELSE TrimPrefix(s, p) = s
                 /\ IF HasSuffix(s, p) THEN TrimSuffix(s, p) \o p = s ELSE TrimSuffix(s, p) = s
IndexLaws   == Pair =>
                 /\ (Index(s, p) >= 0) = Contains(s, p)
                 /\ Index(s, p) <= LastIndex(s, p)
                 /\ Contains(s, p) = (Count(s, p) > 0)
                 /\ Index(s, p) >= 0 => MatchAt(s, Index(s, p) + 1, p) /\ MatchAt(s, LastIndex(s, p) + 1, p)
QuoteLaws   == Pair =>
                 LET q == QuoteRanges(p, s) IN
                 /\ RangesOK(s, q)
                 /\ \A i \in 1..Len(q) : TextOf(s, q[i]) = p
                 /\ ReplaceConst(s, q, p) = s
                 /\ p # <<>> => Complement(s, q) = Split(s, p)
                 /\ SplitOK(s, q, -1, IF p = <<>> THEN Explode(s) ELSE Split(s, p))

Unary == Family = "unary" /\ stage = 1
Roundtrip   == Unary =>
                 /\ Valid(s) => FromCodepoints(ToCodepoints(s)) = [ok |-> TRUE, s |-> s]
                 /\ FromUtf8Bytes(s).ok = Valid(s)
                 /\ Flatten(Explode(s)) = s
                 /\ \A i \in 1..RuneCount(s) : LET r == Runes(s)[i] IN r.ok => Enc(r.cp) = SubSeq(s, r.lo, r.hi)
TrimLaws    == Unary =>
                 LET t == TrimSpace(s)  rs == Runes(t) IN
                 /\ TrimSpace(t) = t
                 /\ \E i \in 1..(Len(s) + 1) : MatchAt(s, i, t)
                 /\ rs # <<>> => ~IsSpaceUnit(rs[1]) /\ ~IsSpaceUnit(rs[Len(rs)])
CaseLaws    == Unary =>
                 \A kind \in {"upper", "lower", "title"} :
                    CaseUnique(kind, s) =>
                      /\ CaseOK(kind, s, CaseImage(kind, s))
                      /\ CaseUnique(kind, CaseImage(kind, s))                        \* idempotent
                           => CaseImage(kind, CaseImage(kind, s)) = CaseImage(kind, s)

(* ---------------- generator (G) ---------------- *)
Img(kind) == IF CaseUnique(kind, s) THEN <<CaseImage(kind, s)>> ELSE <<>>
Emit ==
  IF stage = 0 THEN TRUE
  ELSE IF Pair
  THEN PrintT(ToJson([f |-> "pair", s |-> s, p |-> p, n |-> n,
                      split |-> SplitN(s, p, n), join |-> Join(SplitN(s, p, n), p),
                      hp |-> HasPrefix(s, p), hs |-> HasSuffix(s, p), tp |-> TrimPrefix(s, p), ts |-> TrimSuffix(s, p),
                      idx |-> Index(s, p), lidx |-> LastIndex(s, p), cont |-> Contains(s, p), cnt |-> Count(s, p),
                      qok |-> Valid(p), qr |-> QuoteRanges(p, s)]))
  ELSE PrintT(ToJson([f |-> "unary", s |-> s, cps |-> ToCodepoints(s),
                      back |-> FromCodepoints(ToCodepoints(s)).s, valid |-> Valid(s),
                      trim |-> TrimSpace(s), up |-> Img("upper"), lo |-> Img("lower"), ti |-> Img("title"),
                      chars |-> Explode(s)]))
=============================================================================
