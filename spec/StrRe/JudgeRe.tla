------------------------------ MODULE JudgeRe ------------------------------
(* V half of C41 for the re: builtins: the outputs of re:find, re:split, re:replace, re:match on
   the same (pattern, text) are recorded and must agree with one another on the match positions
   reported by re:find.  What the pattern means is Go's regexp and is not judged -- except for
   quoted literals, where re:find must report exactly the occurrences of the literal.
   A case:
     [s      |-> the text,
      lit    |-> <<>> or <<literal>>: the pattern is  re:quote literal,
      err    |-> re:find raised an exception (nothing else is recorded then),
      ms     |-> matches <<start, end>> of re:find,   texts |-> their $m[text],
      g0     |-> <<start, end>> of the first group of every match,
      n      |-> the &max used,  findn |-> matches of re:find &max=n,
      split  |-> pieces of re:split,  splitn |-> pieces of re:split &max=n,
      repid  |-> re:replace with template '${0}',  repfn |-> with the function {|x| put $x},
      c      |-> a constant text without '$',  repc |-> re:replace with template c,
      replit |-> re:replace &literal with the replacement '$0',
      match  |-> re:match] *)
EXTENDS StrRe, TLC, Json
Cases == ndJsonDeserialize("cases.ndjson")
VARIABLE k
Init == k = 0
Next == k < Len(Cases) /\ k' = k + 1

DollarZero == <<36, 48>>
Why(c) ==
  IF c.err THEN (IF c.lit # <<>> /\ ~Valid(c.lit[1]) THEN "ok" ELSE "exception")   \* Unspecified (3)
  ELSE IF ~RangesOK(c.s, c.ms) THEN "ranges"
  ELSE IF Len(c.texts) # Len(c.ms) \/ \E i \in 1..Len(c.ms) : c.texts[i] # TextOf(c.s, c.ms[i]) THEN "match-text"
  ELSE IF c.g0 # c.ms THEN "group-0"
  ELSE IF c.lit # <<>> /\ Valid(c.lit[1]) /\ c.ms # QuoteRanges(c.lit[1], c.s) THEN "quote"
  ELSE IF c.match # (c.ms # <<>>) THEN "match"
  ELSE IF ~FindMaxOK(c.ms, c.n, c.findn) THEN "find-max"
  ELSE IF ~SplitOK(c.s, c.ms, -1, c.split) THEN "split"
  ELSE IF ~SplitOK(c.s, c.ms, c.n, c.splitn) THEN "split-max"
  ELSE IF c.repid # c.s THEN "replace-identity-template"
  ELSE IF c.repfn # c.s THEN "replace-identity-function"
  ELSE IF c.repc # ReplaceConst(c.s, c.ms, c.c) THEN "replace-constant"
  ELSE IF c.replit # ReplaceConst(c.s, c.ms, DollarZero) THEN "replace-literal"
  ELSE "ok"
Inv == k = 0 \/ Why(Cases[k]) = "ok" \/ PrintT(<<"BAD", k, Why(Cases[k])>>)
=============================================================================
