\* the executor rewrites the constants per tier and family
CONSTANT Family = "pair"
CONSTANT LS = 3
CONSTANT LP = 2
CONSTANT Alpha = "quick"
CONSTANT NsRaw = {9, 0, 1, 2, 3}
INIT Init
NEXT Next
INVARIANT JoinSplit
INVARIANT SplitCount
INVARIANT NoSepInside
INVARIANT MaxBound
INVARIANT Affix
INVARIANT IndexLaws
INVARIANT QuoteLaws
INVARIANT Roundtrip
INVARIANT TrimLaws
INVARIANT CaseLaws
INVARIANT Emit
