----------------------------- MODULE JudgeStr -----------------------------
(* V half of C41 for the str: builtins: outputs recorded from the real builtins on random
   (longer, arbitrary-byte) texts, judged against StrRe.tla.  A case (all texts = byte sequences):
     [s, p, n,
      split   |-> pieces of  str:split &max=n p s,      join  |-> str:join p of those pieces,
      hp, hs  |-> has-prefix / has-suffix,               tp, ts |-> trim-prefix / trim-suffix,
      idx, lidx, cont, cnt |-> index / last-index / contains / count,
      cps     |-> to-codepoints s,  back |-> from-codepoints of them,
      bytes   |-> to-utf8-bytes s,  bback |-> <<>> (error) or <<text>> of from-utf8-bytes of them,
      chars   |-> str:split '' s,
      trim    |-> trim-space s,  up, lo, ti |-> to-upper / to-lower / to-title s] *)
EXTENDS StrRe, TLC, Json
Cases == ndJsonDeserialize("cases.ndjson")
VARIABLE k
Init == k = 0
Next == k < Len(Cases) /\ k' = k + 1

Why(c) ==
  IF c.split # SplitN(c.s, c.p, c.n) THEN "split"
  ELSE IF c.join # Join(SplitN(c.s, c.p, c.n), c.p) THEN "join"
  ELSE IF c.n # 0 /\ c.join # c.s THEN "join-split-law"
  ELSE IF c.hp # HasPrefix(c.s, c.p) \/ c.hs # HasSuffix(c.s, c.p) THEN "has-affix"
  ELSE IF c.tp # TrimPrefix(c.s, c.p) \/ c.ts # TrimSuffix(c.s, c.p) THEN "trim-affix"
  ELSE IF c.idx # Index(c.s, c.p) \/ c.lidx # LastIndex(c.s, c.p) THEN "index"
  ELSE IF c.cont # Contains(c.s, c.p) \/ c.cnt # Count(c.s, c.p) THEN "contains-count"
  ELSE IF c.cps # ToCodepoints(c.s) THEN "to-codepoints"
  ELSE IF c.back # FromCodepoints(ToCodepoints(c.s)).s THEN "from-codepoints"
  ELSE IF Valid(c.s) /\ c.back # c.s THEN "codepoints-law"
  ELSE IF c.bytes # c.s THEN "to-utf8-bytes"
  ELSE IF c.bback # (IF Valid(c.s) THEN <<c.s>> ELSE <<>>) THEN "from-utf8-bytes"
  ELSE IF c.chars # Explode(c.s) THEN "split-empty-separator"
  ELSE IF c.trim # TrimSpace(c.s) THEN "trim-space"
  ELSE IF ~CaseOK("upper", c.s, c.up) THEN "to-upper"
  ELSE IF ~CaseOK("lower", c.s, c.lo) THEN "to-lower"
  ELSE IF ~CaseOK("title", c.s, c.ti) THEN "to-title"
  ELSE "ok"
Inv == k = 0 \/ Why(Cases[k]) = "ok" \/ PrintT(<<"BAD", k, Why(Cases[k])>>)
=============================================================================
