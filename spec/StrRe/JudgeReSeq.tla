----------------------------- MODULE JudgeReSeq -----------------------------
(* V half of C41, histories: the re: builtins called several times in ONE interpreter process on
   the same (pattern, text), alternating the options &longest and &posix:
       plain, &longest, &posix, &posix &longest, plain again, &longest again, ...
   A case: [s |-> text, c |-> constant replacement,
            obs |-> sequence of observations, in call order, each
                    [mode   |-> "plain" | "longest" | "posix" | "posixlongest",
                     err    |-> the calls raised an exception (nothing else recorded),
                     ms     |-> match ranges of re:find with these options,
                     split  |-> pieces of re:split with these options,
                     repc   |-> re:replace with these options and the template c,
                     match  |-> re:match (with &posix in the posix modes; it has no &longest)]]
   Judged (what a pattern means is Go's regexp and is not judged):
     Agree      within one observation find / split / replace / match agree on the same ranges;
     NoHistory  two observations with the same options are equal: the result of a call does not
                depend on what was called before it;
     Leftmost   &longest changes which match is preferred at a position, not where the leftmost
                match starts: the first match starts at the same offset and is at least as long;
     the Perl-syntax modes never raise for the (valid) patterns used; POSIX syntax may refuse a
     pattern (Unspecified), but then always. *)
EXTENDS StrRe, TLC, Json
Cases == ndJsonDeserialize("cases.ndjson")
VARIABLE k
Init == k = 0
Next == k < Len(Cases) /\ k' = k + 1

AgreeWhy(s, c, o) ==
  IF o.err THEN (IF o.mode \in {"plain", "longest"} THEN "exception" ELSE "ok")
  ELSE IF ~RangesOK(s, o.ms) THEN "ranges"
  ELSE IF o.match # (o.ms # <<>>) THEN "match"
  ELSE IF ~SplitOK(s, o.ms, -1, o.split) THEN "split"
  ELSE IF o.repc # ReplaceConst(s, o.ms, c) THEN "replace"
  ELSE "ok"

LongOf(m) == IF m = "plain" THEN "longest" ELSE IF m = "posix" THEN "posixlongest" ELSE "none"
Why(c) ==
  LET n == Len(c.obs) IN
  IF \E i \in 1..n : AgreeWhy(c.s, c.c, c.obs[i]) # "ok"
  THEN LET i == CHOOSE i \in 1..n : AgreeWhy(c.s, c.c, c.obs[i]) # "ok"
       IN  <<AgreeWhy(c.s, c.c, c.obs[i]), c.obs[i].mode, i>>
  ELSE IF \E i, j \in 1..n : i < j /\ c.obs[i].mode = c.obs[j].mode /\ c.obs[i] # c.obs[j]
  THEN LET p == CHOOSE p \in (1..n) \X (1..n) : p[1] < p[2] /\ c.obs[p[1]].mode = c.obs[p[2]].mode /\ c.obs[p[1]] # c.obs[p[2]]
       IN  <<"history", c.obs[p[1]].mode, p[2]>>
  ELSE IF \E i, j \in 1..n : /\ c.obs[j].mode = LongOf(c.obs[i].mode) /\ ~c.obs[i].err /\ ~c.obs[j].err
                             /\ \/ (c.obs[i].ms = <<>>) # (c.obs[j].ms = <<>>)
                                \/ /\ c.obs[i].ms # <<>>
                                   /\ \/ c.obs[i].ms[1][1] # c.obs[j].ms[1][1]
                                      \/ c.obs[i].ms[1][2] > c.obs[j].ms[1][2]
  THEN <<"leftmost", "longest", 0>>
  ELSE <<"ok", "", 0>>
Inv == k = 0 \/ Why(Cases[k])[1] = "ok" \/ PrintT(<<"BAD", k, Why(Cases[k])[1], Why(Cases[k])[2], Why(Cases[k])[3]>>)
=============================================================================
