------------------------------- MODULE StrRe -------------------------------
(* C41 -- the algebra of the str: and re: builtins (pkg/mods/str/*.d.elv, pkg/mods/re/*.d.elv).

   A text is a sequence of bytes (integers 0..255), exactly like an Elvish string.  Functions
   that the documentation defines on substrings (split, join, has-prefix, trim-prefix, index,
   contains, count, ...) are defined on bytes; functions it defines on code points (split with
   the empty separator, to-codepoints, trim-space, case conversion) go through Runes(s), the
   UTF-8 decoding in which every byte that does not start a well-formed sequence is one
   ill-formed unit (reported as U+FFFD where a code point has to be named).

   Defined here (each with the law the property names):
     SplitN / Join            Join(SplitN(s, sep, n), sep) = s  for n # 0
     ToCodepoints / FromCodepoints, bytes        From(To(s)) = s for well-formed s
     Occurrences(lit, s)      leftmost, non-overlapping occurrences of a literal: what
                              re:find (re:quote lit) s must report
     HasPrefix, HasSuffix, TrimPrefix, TrimSuffix, Index, LastIndex, Contains, Count
     TrimSpace                White_Space code points given below
     case conversion          on the table CaseDomain (ASCII, e-acute, sharp s, dotted/dotless i,
                              the dz digraphs); sets of accepted images where Unicode has a simple
                              and a full mapping
     Complement / regex consistency: re:split, re:replace, re:match, &max against the RECORDED
                              match ranges of re:find (the regular-expression semantics itself is
                              Go's regexp and is not specified here)

   Unspecified (accepted either way):
    (1) case conversion of a text with a code point outside CaseDomain or an ill-formed byte;
    (2) sharp s / dotted capital I: simple or full Unicode case mapping;
    (3) re:find (re:quote lit) when lit is not well-formed UTF-8 (Go's regexp refuses such
        patterns): an exception is accepted;
    (4) re:split: whether an empty match at the very start / very end of the text delimits an
        empty piece (Go's regexp.Split drops those pieces; the documents say nothing);
    (5) str:from-utf8-bytes / from-codepoints outside their documented domains: only "error".   *)
EXTENDS Integers, Sequences, FiniteSets

Drop(s, n)    == SubSeq(s, n + 1, Len(s))
Take(s, n)    == SubSeq(s, 1, n)
RECURSIVE Flatten(_)
Flatten(ss)   == IF ss = <<>> THEN <<>> ELSE Head(ss) \o Flatten(Tail(ss))

(* ------------------------------ UTF-8 ------------------------------ *)
MaxRune   == 1114111
RuneError == 65533
IsCont(b) == b >= 128 /\ b <= 191

\* the unit starting at byte i (1-based): [cp, w, ok]
DecodeAt(s, i) ==
  LET n  == Len(s)
      b0 == s[i]
  IN  IF b0 < 128 THEN [cp |-> b0, w |-> 1, ok |-> TRUE]
      ELSE IF b0 >= 194 /\ b0 <= 223 /\ i + 1 <= n /\ IsCont(s[i + 1])
      THEN [cp |-> (b0 - 192) * 64 + (s[i + 1] - 128), w |-> 2, ok |-> TRUE]
      ELSE IF b0 >= 224 /\ b0 <= 239 /\ i + 2 <= n /\ IsCont(s[i + 1]) /\ IsCont(s[i + 2])
              /\ (b0 = 224 => s[i + 1] >= 160) /\ (b0 = 237 => s[i + 1] <= 159)
      THEN [cp |-> (b0 - 224) * 4096 + (s[i + 1] - 128) * 64 + (s[i + 2] - 128), w |-> 3, ok |-> TRUE]
      ELSE IF b0 >= 240 /\ b0 <= 244 /\ i + 3 <= n /\ IsCont(s[i + 1]) /\ IsCont(s[i + 2]) /\ IsCont(s[i + 3])
              /\ (b0 = 240 => s[i + 1] >= 144) /\ (b0 = 244 => s[i + 1] <= 143)
      THEN [cp |-> (b0 - 240) * 262144 + (s[i + 1] - 128) * 4096 + (s[i + 2] - 128) * 64 + (s[i + 3] - 128),
            w |-> 4, ok |-> TRUE]
      ELSE [cp |-> RuneError, w |-> 1, ok |-> FALSE]

\* the units of s, each with its byte range: [cp, ok, lo, hi]  (bytes lo..hi, 1-based inclusive)
RECURSIVE RunesFrom(_, _)
RunesFrom(s, i) ==
  IF i > Len(s) THEN <<>>
  ELSE LET d == DecodeAt(s, i)
       IN  <<[cp |-> d.cp, ok |-> d.ok, lo |-> i, hi |-> i + d.w - 1]>> \o RunesFrom(s, i + d.w)
Runes(s) == RunesFrom(s, 1)
Valid(s) == LET rs == Runes(s) IN \A i \in 1..Len(rs) : rs[i].ok
RuneCount(s) == Len(Runes(s))
\* byte offsets (0-based) at which a unit starts, plus Len(s)
Boundaries(s) == LET rs == Runes(s) IN {rs[i].lo - 1 : i \in 1..Len(rs)} \cup {Len(s)}

IsScalar(cp) == cp >= 0 /\ cp <= MaxRune /\ ~(cp >= 55296 /\ cp <= 57343)
Enc(cp) ==
  IF cp < 128 THEN <<cp>>
  ELSE IF cp < 2048 THEN <<192 + (cp \div 64), 128 + (cp % 64)>>
  ELSE IF cp < 65536 THEN <<224 + (cp \div 4096), 128 + ((cp \div 64) % 64), 128 + (cp % 64)>>
  ELSE <<240 + (cp \div 262144), 128 + ((cp \div 4096) % 64), 128 + ((cp \div 64) % 64), 128 + (cp % 64)>>
RECURSIVE EncAll(_)
EncAll(cps) == IF cps = <<>> THEN <<>> ELSE Enc(Head(cps)) \o EncAll(Tail(cps))

ToCodepoints(s)    == LET rs == Runes(s) IN [i \in 1..Len(rs) |-> rs[i].cp]
\* [ok, s]: an error for anything that is not a Unicode scalar value
FromCodepoints(cps) == IF \A i \in 1..Len(cps) : IsScalar(cps[i])
                       THEN [ok |-> TRUE, s |-> EncAll(cps)] ELSE [ok |-> FALSE, s |-> <<>>]
ToUtf8Bytes(s)     == s
FromUtf8Bytes(bs)  == IF (\A i \in 1..Len(bs) : bs[i] \in 0..255) /\ Valid(bs)
                      THEN [ok |-> TRUE, s |-> bs] ELSE [ok |-> FALSE, s |-> <<>>]

(* ------------------------- substrings ------------------------- *)
MatchAt(s, i, p) == i >= 1 /\ i + Len(p) - 1 <= Len(s) /\ SubSeq(s, i, i + Len(p) - 1) = p
\* smallest j >= i at which p occurs in s (0 = none)
RECURSIVE FirstFrom(_, _, _)
FirstFrom(s, p, i) == IF i + Len(p) - 1 > Len(s) THEN 0
                      ELSE IF MatchAt(s, i, p) THEN i ELSE FirstFrom(s, p, i + 1)
\* leftmost non-overlapping occurrences of a non-empty p: their start positions (1-based)
RECURSIVE OccFrom(_, _, _)
OccFrom(s, p, i) == LET j == FirstFrom(s, p, i)
                    IN  IF j = 0 THEN <<>> ELSE <<j>> \o OccFrom(s, p, j + Len(p))
Occurrences(p, s) == OccFrom(s, p, 1)

HasPrefix(s, p)  == MatchAt(s, 1, p)
HasSuffix(s, p)  == Len(p) <= Len(s) /\ MatchAt(s, Len(s) - Len(p) + 1, p)
TrimPrefix(s, p) == IF HasPrefix(s, p) THEN Drop(s, Len(p)) ELSE s
TrimSuffix(s, p) == IF HasSuffix(s, p) THEN Take(s, Len(s) - Len(p)) ELSE s
\* 0-based byte index, -1 = absent
Index(s, p)      == FirstFrom(s, p, 1) - 1
LastIndex(s, p)  == IF \E i \in 1..(Len(s) + 1) : MatchAt(s, i, p)
                    THEN (CHOOSE i \in 1..(Len(s) + 1) : MatchAt(s, i, p) /\ \A j \in (i + 1)..(Len(s) + 1) : ~MatchAt(s, j, p)) - 1
                    ELSE -1
Contains(s, p)   == FirstFrom(s, p, 1) # 0
Count(s, p)      == IF p = <<>> THEN RuneCount(s) + 1 ELSE Len(Occurrences(p, s))

(* ------------------------- split / join ------------------------- *)
\* pieces of s[i..] around the given occurrence starts of a separator of length w
RECURSIVE PiecesAround(_, _, _, _)
PiecesAround(s, i, occ, w) ==
  IF occ = <<>> THEN <<Drop(s, i - 1)>>
  ELSE <<SubSeq(s, i, Head(occ) - 1)>> \o PiecesAround(s, Head(occ) + w, Tail(occ), w)

Explode(s) == LET rs == Runes(s) IN [i \in 1..Len(rs) |-> SubSeq(s, rs[i].lo, rs[i].hi)]

\* str:split &max=n sep s.  n < 0: no limit; n = 0: nothing; n > 0: at most n pieces, the last
\* one is the unsplit remainder.
SplitN(s, sep, n) ==
  IF n = 0 THEN <<>>
  ELSE IF sep = <<>>
  THEN LET e == Explode(s)
       IN  IF n < 0 \/ Len(e) <= n THEN e
           ELSE Take(e, n - 1) \o <<Drop(s, Runes(s)[n].lo - 1)>>
  ELSE LET occ == Occurrences(sep, s)
           use == IF n < 0 \/ Len(occ) <= n - 1 THEN occ ELSE Take(occ, n - 1)
       IN  PiecesAround(s, 1, use, Len(sep))
Split(s, sep) == SplitN(s, sep, -1)

RECURSIVE Join(_, _)
Join(parts, sep) == IF parts = <<>> THEN <<>>
                    ELSE IF Len(parts) = 1 THEN parts[1]
                    ELSE parts[1] \o sep \o Join(Tail(parts), sep)

(* ------------------------- white space ------------------------- *)
WhiteSpace == {9, 10, 11, 12, 13, 32, 133, 160, 5760, 8232, 8233, 8239, 8287, 12288} \cup (8192..8202)
IsSpaceUnit(r) == r.ok /\ r.cp \in WhiteSpace
TrimSpace(s) ==
  LET rs == Runes(s)
      n  == Len(rs)
      nonsp == {i \in 1..n : ~IsSpaceUnit(rs[i])}
  IN  IF nonsp = {} THEN <<>>
      ELSE LET a == CHOOSE i \in nonsp : \A j \in nonsp : i <= j
               b == CHOOSE i \in nonsp : \A j \in nonsp : i >= j
           IN  SubSeq(s, rs[a].lo, rs[b].hi)

(* ------------------------- case conversion ------------------------- *)
\* accepted images (sequences of code points) of one code point; {} = outside the table
IsAsciiLower(c) == c >= 97 /\ c <= 122
IsAsciiUpper(c) == c >= 65 /\ c <= 90
CaseDomain == (0..127) \cup {233, 201, 223, 304, 305, 452, 453, 454}
UpperOf(c) ==
  IF c \notin CaseDomain THEN {}
  ELSE IF IsAsciiLower(c) THEN {<<c - 32>>}
  ELSE IF c = 233 THEN {<<201>>}
  ELSE IF c = 223 THEN {<<223>>, <<83, 83>>, <<7838>>}       \* sharp s: simple | full | capital sharp s
  ELSE IF c = 305 THEN {<<73>>}                               \* dotless i -> I
  ELSE IF c \in {453, 454} THEN {<<452>>}
  ELSE {<<c>>}
LowerOf(c) ==
  IF c \notin CaseDomain THEN {}
  ELSE IF IsAsciiUpper(c) THEN {<<c + 32>>}
  ELSE IF c = 201 THEN {<<233>>}
  ELSE IF c = 304 THEN {<<105>>, <<105, 775>>}                \* dotted capital I: simple | full
  ELSE IF c \in {452, 453} THEN {<<454>>}
  ELSE {<<c>>}
TitleOf(c) ==
  IF c \notin CaseDomain THEN {}
  ELSE IF IsAsciiLower(c) THEN {<<c - 32>>}
  ELSE IF c = 233 THEN {<<201>>}
  ELSE IF c = 223 THEN {<<223>>, <<83, 115>>, <<7838>>}
  ELSE IF c = 305 THEN {<<73>>}
  ELSE IF c \in {452, 454} THEN {<<453>>}
  ELSE {<<c>>}
MapOf(kind, c) == CASE kind = "upper" -> UpperOf(c) [] kind = "lower" -> LowerOf(c) [] kind = "title" -> TitleOf(c)

CaseSpecified(s) == LET rs == Runes(s) IN \A i \in 1..Len(rs) : rs[i].ok /\ rs[i].cp \in CaseDomain
CaseUnique(kind, s) == LET rs == Runes(s) IN
                       CaseSpecified(s) /\ \A i \in 1..Len(rs) : Cardinality(MapOf(kind, rs[i].cp)) = 1
\* the image when every code point has exactly one
CaseImage(kind, s) == LET rs == Runes(s) IN
                      Flatten([i \in 1..Len(rs) |-> EncAll(CHOOSE m \in MapOf(kind, rs[i].cp) : TRUE)])
\* out is an accepted image of the units rs[i..] from byte position pos (1-based) of out
RECURSIVE CaseMatches(_, _, _, _, _)
CaseMatches(kind, rs, i, out, pos) ==
  IF i > Len(rs) THEN pos = Len(out) + 1
  ELSE \E m \in MapOf(kind, rs[i].cp) :
         LET e == EncAll(m) IN MatchAt(out, pos, e) /\ CaseMatches(kind, rs, i + 1, out, pos + Len(e))
CaseOK(kind, s, out) == ~CaseSpecified(s) \/ CaseMatches(kind, Runes(s), 1, out, 1)

(* ------------- regex builtins against the recorded match ranges -------------
   A match is <<start, end>> (0-based byte offsets, end exclusive) as reported by re:find. *)
RangesOK(s, ms) ==
  /\ \A i \in 1..Len(ms) : 0 <= ms[i][1] /\ ms[i][1] <= ms[i][2] /\ ms[i][2] <= Len(s)
  /\ \A i \in 1..(Len(ms) - 1) : ms[i][2] <= ms[i + 1][1] /\ ms[i][1] < ms[i + 1][1]
TextOf(s, m) == SubSeq(s, m[1] + 1, m[2])

\* the pieces of s between the matches
RECURSIVE ComplementFrom(_, _, _)
ComplementFrom(s, from, ms) ==        \* from: 0-based offset
  IF ms = <<>> THEN <<SubSeq(s, from + 1, Len(s))>>
  ELSE <<SubSeq(s, from + 1, Head(ms)[1])>> \o ComplementFrom(s, Head(ms)[2], Tail(ms))
Complement(s, ms) == ComplementFrom(s, 0, ms)

\* re:replace with a constant replacement c
ReplaceConst(s, ms, c) == Join(Complement(s, ms), c)

\* Unspecified (4): an empty match at offset 0 / at Len(s) may or may not delimit a piece
EdgeStart(s, ms) == ms # <<>> /\ ms[1] = <<0, 0>>
EdgeEnd(s, ms)   == ms # <<>> /\ ms[Len(ms)] = <<Len(s), Len(s)>>
SplitVariants(s, ms) ==
  {SubSeq(ms, 1 + a, Len(ms) - b) :
     a \in (IF EdgeStart(s, ms) THEN {0, 1} ELSE {0}),
     b \in (IF EdgeEnd(s, ms) THEN {0, 1} ELSE {0})}
\* with &max=n > 0 at most n pieces: the first n-1 delimiting matches are used
SplitOK(s, ms, n, pieces) ==
  IF n = 0 THEN pieces = <<>>
  ELSE \/ Len(s) = 0 /\ ms = <<<<0, 0>>>> /\ pieces = <<>>   \* the empty pattern on the empty text: no piece
       \/ \E d \in SplitVariants(s, ms) :
            LET use == IF n < 0 \/ Len(d) <= n - 1 THEN d ELSE Take(d, n - 1)
            IN  pieces = Complement(s, use)
FindMaxOK(ms, n, got) == got = (IF n < 0 \/ Len(ms) <= n THEN ms ELSE Take(ms, n))

\* re:find (re:quote lit) s: exactly the occurrences; the empty literal matches at every boundary
QuoteRanges(lit, s) ==
  IF lit = <<>>
  THEN LET bs == Boundaries(s)
           RECURSIVE Up(_)
           Up(k) == IF k > Len(s) THEN <<>> ELSE (IF k \in bs THEN <<<<k, k>>>> ELSE <<>>) \o Up(k + 1)
       IN  Up(0)
  ELSE LET occ == Occurrences(lit, s)
       IN  [i \in 1..Len(occ) |-> <<occ[i] - 1, occ[i] - 1 + Len(lit)>>]
=============================================================================
