INIT Init
NEXT Next
INVARIANT Inv
