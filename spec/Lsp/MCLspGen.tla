------------------------------ MODULE MCLspGen ------------------------------
(* G for C44: every text of <= N symbols over {a, b, A, CR, LF, nop} with everything the
   specification prescribes about it, printed as one JSON object per text:
     sym    the symbols                  off[k+1]  byte offset of boundary k of the expanded text
     pos[k+1] = <<l, c>> the position index -> position must report for boundary k (IdxPosT);
     mid[k+1]  k is inside a CR LF pair (its position is that of the next line start)
     grid   every position <<l, c>> with l <= lines + 1, c <= longest line + 1:
              [l, c, k, w, crlf]   k = the boundary the conversion must return (-1: Unspecified),
                               w = the command whose documentation a hover there must show on an
                                   error-free document ("" = not prescribed)
                               crlf = the position is a line start after CR LF (names the class
                                   of a failing case; see LspPos CRLFLineStartT)
   Initial states choose the text; the successor (ph = 1) carries the tables and is printed. *)
EXTENDS LspReply, TLC, Json
CONSTANT N
VARIABLES sym, ph, tab
Symbols == Chars \cup {"nop"}
RECURSIVE SymsOf(_)
SymsOf(k) == IF k = 0 THEN {<<>>} ELSE {<<>>} \cup {<<t>> \o s : t \in Symbols, s \in SymsOf(k - 1)}
GInit == sym \in SymsOf(N) /\ ph = 0 /\ tab = <<>>
GNext == ph = 0 /\ ph' = 1 /\ UNCHANGED sym /\ tab' = PosTab(Expand(sym))
Text == Expand(sym)
MaxCh == CHOOSE m \in 0..(2 * Len(Text)) : (\E k \in 1..Len(tab) : tab[k][2] = m) /\ \A k \in 1..Len(tab) : tab[k][2] <= m
GridSeq == LET nl == tab[Len(tab)][1] + 2
               nc == MaxCh + 2
           IN [i \in 1..(nl * nc) |->
                 LET l == (i - 1) \div nc
                     c == (i - 1) % nc
                     k == IF RequiredT(Text, tab, l, c) THEN IdxT(Text, tab, l, c) ELSE AnyIdx
                 IN [l |-> l, c |-> c, k |-> k, w |-> IF k = AnyIdx THEN "" ELSE WordAt(sym, k),
                     crlf |-> CRLFLineStartT(Text, tab, l, c)]]
\* sanity of what is emitted (design-level): a prescribed boundary has exactly that position
GridSound == ph = 1 => \A i \in 1..Len(GridSeq) :
                LET g == GridSeq[i] IN g.k # AnyIdx => (tab[g.k + 1] = <<g.l, g.c>> /\ ~MidCRLF(Text, g.k))
Emit == ph = 0 \/
        PrintT(ToJson([sym |-> sym,
                       off |-> [k \in 1..(Len(Text) + 1) |-> Off(Text, k - 1)],
                       pos |-> [k \in 1..(Len(Text) + 1) |-> IdxPosT(Text, tab, k - 1)],
                       mid |-> [k \in 1..(Len(Text) + 1) |-> MidCRLF(Text, k - 1)],
                       grid |-> GridSeq]))
=============================================================================
