------------------------------ MODULE LspServer ------------------------------
(* C44, the server -- pkg/lsp/server.go seen from the JSON-RPC connection.

   State
     docs      uri -> [text, errs]: text (symbols, see LspPos) and parse-error byte ranges of every
               document the server knows
     inflight  FIFO of messages the client has written and the server has not handled yet
     owed      set of diagnostics publications the server still owes: [n, uri, text, errs]
               (updateDocument starts a goroutine that sends the notification: publications are
               asynchronous with respect to the responses and to each other)
     wire      what the server has written so far: responses and publications
     sent      number of messages the client has written (serial numbers; requests carry them as id)

   Actions (one per public step of the code)
     Open(u, t, e) / Change(u, t, e)   client writes didOpen / didChange (full text). e is the
                    sequence of byte ranges of the parse errors of the concrete text: DATA given
                    to the specification (the parser is a primitive evaluated by the executor).
                    didChange for a document that was never opened is accepted like the code
                    does (ChangeUnopened: it creates the document) -- the LSP protocol rules that
                    sequence out, the property does not speak about it.
     Request(kind, u, l, c)            client writes a hover / completion request
     Handle                             the server takes the oldest message: a notification updates
                    docs and adds to owed; a request is answered at once (handlers are synchronous)
     Publish(o)                         one owed publication is written

   Properties
     InOrderOnce      responses appear on the wire in the order of the requests, each exactly once
     Quiescent        nothing in flight and nothing owed => every request has its response and
                      every open/change has its publication
     PublishExact     every publication carries exactly the parse-error ranges of a text the uri
                      had, converted with the reference conversion (DiagOK)
     FinalPublishFresh  at quiescence the LAST publication for a uri is the one of the latest text of
                      that uri (otherwise the client is left showing diagnostics of an older text).
                      The code starts one goroutine per update and lets them race: Publish(o) for
                      ANY owed o.  MCLspServer shows that this design violates FinalPublishFresh and
                      that writing publications in handling order (Ordered) repairs it.
     ReplyOK          the reply to a request on a known document is a result computed at the
                      offset the reference conversion prescribes (RespIdx), see below
     Liveness (MCLspServer, under weak fairness of Handle and Publish): the system becomes Quiescent.

   Unspecified
     UnknownDocReply  a request for a uri that is not in docs: the statement wants a reply; the
                      code answers with a JSON-RPC error. Result or error are both accepted.
     RespIdx = AnyIdx    positions that are not Required (LspPos): the reply may be computed at any
                      offset: only "a well-formed reply" is demanded.
     PublishOrder     the order in which owed publications are written, EXCEPT the last one per
                      uri: see FinalPublishFresh.
     HoverExpect = "any"  hover content is only prescribed where the position is Required, the
                      document has no parse error and the offset lies inside an isolated
                      documented command word (a Words symbol alone on its line): then the reply
                      is that command's documentation. Everywhere else any reply is accepted.
   Completion content is a primitive: the executor evaluates the real completer
   (complete.Complete) at byte offsets; the specification says AT WHICH offset (RespIdx) and how
   the replace range converts to positions (CompletionOK). *)
EXTENDS LspReply, TLC

(* ---------------- the state machine ---------------- *)
VARIABLES docs, inflight, owed, wire, sent
vars == <<docs, inflight, owed, wire, sent>>

Init == docs = <<>> /\ inflight = <<>> /\ owed = {} /\ wire = <<>> /\ sent = 0

IsNotification(m) == m.op \in {"open", "change"}

Open(u, t, e) ==
  /\ sent' = sent + 1
  /\ inflight' = Append(inflight, [op |-> "open", n |-> sent + 1, uri |-> u, text |-> t, errs |-> e, l |-> 0, c |-> 0])
  /\ UNCHANGED <<docs, owed, wire>>
Change(u, t, e) ==
  /\ sent' = sent + 1
  /\ inflight' = Append(inflight, [op |-> "change", n |-> sent + 1, uri |-> u, text |-> t, errs |-> e, l |-> 0, c |-> 0])
  /\ UNCHANGED <<docs, owed, wire>>
Request(kind, u, l, c) ==
  /\ kind \in {"hover", "completion"}
  /\ sent' = sent + 1
  /\ inflight' = Append(inflight, [op |-> kind, n |-> sent + 1, uri |-> u, text |-> <<>>, errs |-> <<>>, l |-> l, c |-> c])
  /\ UNCHANGED <<docs, owed, wire>>

\* effect of handling a notification (pure; also used by TraceLspServer)
DocsAfter(d, m) == [u \in (DOMAIN d) \cup {m.uri} |-> IF u = m.uri THEN [text |-> m.text, errs |-> m.errs] ELSE d[u]]
OwedAfter(o, m) == o \cup {[n |-> m.n, uri |-> m.uri, text |-> m.text, errs |-> m.errs]}
\* the reply the server writes for request m when it knows docs d
ReplyFor(d, m) == IF m.uri \in DOMAIN d
                  THEN [t |-> "resp", id |-> m.n, known |-> TRUE, idx |-> RespIdx(d[m.uri].text, m.l, m.c), uri |-> m.uri, text |-> <<>>]
                  ELSE [t |-> "resp", id |-> m.n, known |-> FALSE, idx |-> AnyIdx, uri |-> m.uri, text |-> <<>>]

Handle ==
  /\ inflight # <<>>
  /\ LET m == Head(inflight) IN
     /\ inflight' = Tail(inflight)
     /\ IF IsNotification(m)
        THEN docs' = DocsAfter(docs, m) /\ owed' = OwedAfter(owed, m) /\ wire' = wire
        ELSE docs' = docs /\ owed' = owed /\ wire' = Append(wire, ReplyFor(docs, m))
  /\ UNCHANGED sent

Publish(o) ==
  /\ o \in owed
  /\ owed' = owed \ {o}
  /\ wire' = Append(wire, [t |-> "pub", id |-> o.n, known |-> TRUE, idx |-> AnyIdx, uri |-> o.uri, text |-> o.text])
  /\ UNCHANGED <<docs, inflight, sent>>

(* ---------------- properties ---------------- *)
RespIds == LET r == SelectSeq(wire, LAMBDA w : w.t = "resp") IN [i \in 1..Len(r) |-> r[i].id]
PubIds  == {wire[i].id : i \in {j \in 1..Len(wire) : wire[j].t = "pub"}}
\* responses in request order, each once: the ids on the wire are strictly increasing
InOrderOnce == \A i, j \in 1..Len(RespIds) : i < j => RespIds[i] < RespIds[j]
\* at quiescence the last publication for every known uri is that of its latest text
LastPubFor(u) == LET ps == {i \in 1..Len(wire) : wire[i].t = "pub" /\ wire[i].uri = u}
                 IN wire[CHOOSE i \in ps : \A j \in ps : j <= i]
FinalPublishFresh == (inflight = <<>> /\ owed = {}) => \A u \in DOMAIN docs : LastPubFor(u).text = docs[u].text
NoDuplicatePublish == Cardinality(PubIds) = Len(SelectSeq(wire, LAMBDA w : w.t = "pub"))
=============================================================================
