CONSTANT N = 4
INIT Init
NEXT Next
INVARIANT Theorems
