CONSTANT N = 3
INIT GInit
NEXT GNext
INVARIANT GridSound
INVARIANT Emit
