--------------------------- MODULE TraceLspServer ---------------------------
(* V for C44: traces recorded at the client end of a real JSON-RPC connection to the language
   server are checked to be behaviours of LspServer.

   traces.ndjson: one trace per line, [ev |-> <<event, ...>>], events in the order the client
   wrote / read them (a "send" is logged before its bytes are written).  Every event has all
   fields (unused ones are 0 / "" / <<>>):
     e      "open" | "change" | "hover" | "completion"   client wrote a message
            "resp"                                          client read a response
            "pub"                                           client read publishDiagnostics
     id     serial number of a sent message / id of the answered request
     uri    document
     text   symbols (open, change)          errs   parse-error byte ranges of that text (data)
     l, c   position (hover, completion)    at     completer table (completion): see CompletionOK
     ok     resp: result (TRUE) or JSON-RPC error (FALSE)
     cls    resp to hover: "null" | <command name whose documentation was shown> | "other";
            resp to completion: "items" | "malformed";  error: "error"
     cmp    resp to completion: [h, n, rg]                  ranges  pub: <<<<l1,c1,l2,c2>>, ...>>

   The walker keeps LspServer's state (docs, inflight, owed).  The server's Handle steps are not
   logged: notifications at the head of inflight are handled as soon as possible (Drain; sound
   because the server handles messages in order and a notification has no reply), a "resp" event
   is the Handle step of the oldest request, a "pub" event is a Publish step of SOME matching owed
   publication (TLC branches when several match); at the end FinalPublishFresh is checked on what
   is observable: the ranges of the last publication per uri.  A branch that cannot take the next event
   stops and prints <<"AT", trace, events matched, reason>>; an unacceptable reply to a request is
   printed the same way but the walk continues; a branch that consumes the whole trace and ends
   Quiescent prints <<"DONE", trace>>.  A trace is accepted iff some branch is DONE and nothing
   was reported for it. *)
EXTENDS LspServer, Json
Traces == ndJsonDeserialize("traces.ndjson")
VARIABLES tr, pos, stuck, lastPub     \* lastPub: uri -> ranges of the last publication read
tvars == <<tr, pos, stuck, lastPub>>

Events == Traces[tr].ev

RECURSIVE DrainDocs(_, _), DrainOwed(_, _), DrainQueue(_)
DrainQueue(q)    == IF q # <<>> /\ IsNotification(Head(q)) THEN DrainQueue(Tail(q)) ELSE q
DrainDocs(d, q)  == IF q # <<>> /\ IsNotification(Head(q)) THEN DrainDocs(DocsAfter(d, Head(q)), Tail(q)) ELSE d
DrainOwed(o, q)  == IF q # <<>> /\ IsNotification(Head(q)) THEN DrainOwed(OwedAfter(o, Head(q)), Tail(q)) ELSE o

MsgOf(e) == [op |-> e.e, n |-> e.id, uri |-> e.uri, text |-> e.text, errs |-> e.errs, l |-> e.l, c |-> e.c, at |-> e.at]

\* is the reply e acceptable for request m on documents d?   "" = yes, otherwise the reason
ReplyWhy(d, m, e) ==
  IF m.uri \notin DOMAIN d THEN ""                                  \* UnknownDocReply: result or error
  ELSE LET doc == d[m.uri]
           k   == RespIdx(doc.text, m.l, m.c)
       IN IF k = AnyIdx /\ (~e.ok \/ m.op = "hover") THEN ""       \* not a Required position: any reply,
                                                                     \* but a completion result must be the completion at SOME boundary
          ELSE IF ~e.ok THEN "error-reply-on-known-document"
          ELSE IF m.op = "hover"
               THEN LET w == HoverExpect(doc.text, doc.errs, m.l, m.c)
                    IN IF w = "any" \/ e.cls = w THEN ""
                       ELSE IF CRLFLineStartT(Expand(doc.text), PosTab(Expand(doc.text)), m.l, m.c)
                            THEN "crlf-linestart:hover" ELSE "hover"
               ELSE IF Len(m.at) # Len(Expand(doc.text)) + 1 THEN "at-table-mismatch"   \* executor defect
               ELSE IF e.cls # "items" THEN "completion-malformed"
               ELSE IF CompletionOK(doc.text, m.at, m.l, m.c, e.cmp) THEN ""
               ELSE IF CRLFLineStartT(Expand(doc.text), PosTab(Expand(doc.text)), m.l, m.c)
                    THEN "crlf-linestart:completion"
               ELSE IF k = AnyIdx THEN "completion-at-normalised-position" ELSE "completion"

TInit == tr \in 1..Len(Traces) /\ pos = 0 /\ stuck = "" /\ lastPub = <<>> /\ docs = <<>> /\ inflight = <<>> /\ owed = {} /\ wire = <<>> /\ sent = 0

Stop(why) == stuck' = why /\ UNCHANGED <<tr, pos, lastPub, docs, inflight, owed, wire, sent>>

Send(e) == /\ inflight' = Append(inflight, MsgOf(e))
           /\ sent' = sent + 1 /\ pos' = pos + 1
           /\ UNCHANGED <<tr, stuck, lastPub, docs, owed, wire>>

Resp(e) ==
  LET q == DrainQueue(inflight)
      d == DrainDocs(docs, inflight)
      o == DrainOwed(owed, inflight)
  IN IF q = <<>> THEN Stop("response-without-request")
     ELSE IF Head(q).n # e.id THEN Stop("response-out-of-order")
     ELSE LET why == ReplyWhy(d, Head(q), e) IN
          \* an unacceptable reply is reported and the walk goes on (the rest of the session is
          \* still checked); only events that do not fit the state machine at all stop the walk
          /\ (IF why = "" THEN TRUE ELSE PrintT(<<"AT", tr, pos, why>>))
          /\ docs' = d /\ owed' = o /\ inflight' = Tail(q) /\ pos' = pos + 1
          /\ UNCHANGED <<tr, stuck, lastPub, wire, sent>>

Pub(e) ==
  LET q == DrainQueue(inflight)
      d == DrainDocs(docs, inflight)
      o == DrainOwed(owed, inflight)
      match == {x \in o : x.uri = e.uri /\ DiagOK(x.text, x.errs, e.ranges)}
  IN IF match = {}
     THEN Stop(IF \E x \in o : x.uri = e.uri THEN "publish-wrong-ranges" ELSE "publish-not-owed")
     ELSE \E x \in match :
            /\ docs' = d /\ owed' = o \ {x} /\ inflight' = q /\ pos' = pos + 1
            /\ lastPub' = [u \in (DOMAIN lastPub) \cup {e.uri} |-> IF u = e.uri THEN e.ranges ELSE lastPub[u]]
            /\ UNCHANGED <<tr, stuck, wire, sent>>

Finish ==   \* all events consumed: the executor waited for quiescence, so nothing may be missing
  LET q == DrainQueue(inflight)
      o == DrainOwed(owed, inflight)
  IN IF q # <<>> THEN Stop("request-never-answered")
     ELSE IF o # {} THEN Stop("publication-missing")
     \* FinalPublishFresh: the last publication read for a uri shows the errors of its latest text
     ELSE IF \E u \in DOMAIN docs : u \in DOMAIN lastPub /\ ~DiagOK(docs[u].text, docs[u].errs, lastPub[u])
          THEN Stop("stale-final-publication")
     ELSE Stop("DONE")

TNext == /\ stuck = ""
         /\ IF pos = Len(Events) THEN Finish
            ELSE LET e == Events[pos + 1] IN
                 IF e.e \in {"open", "change", "hover", "completion"} THEN Send(e)
                 ELSE IF e.e = "resp" THEN Resp(e)
                 ELSE IF e.e = "pub" THEN Pub(e)
                 ELSE Stop("unknown-event")

Report == stuck = "" \/ (IF stuck = "DONE" THEN PrintT(<<"DONE", tr>>) ELSE PrintT(<<"AT", tr, pos, stuck>>))
=============================================================================
