------------------------------- MODULE LspPos -------------------------------
(* C44, positions -- conversion between byte offsets and LSP positions (line, character) as the
   LSP specification defines them: characters are UTF-16 code units; the line breaks are CR LF
   (ONE break), a lone CR and a lone LF.

   A text is a sequence of symbols
        "a"  ASCII character   (1 byte, 1 UTF-16 unit)       "CR", "LF"  (1 byte each)
        "b"  BMP character     (3 bytes, 1 unit)
        "A"  astral character  (4 bytes, 2 units: a surrogate pair)
        w \in Words            a documented builtin command name (WordLen[w] ASCII characters);
        p \in Prefixes         a completable prefix (ASCII characters); only MCLspGen / the server
                               modules use these two kinds, via Expand.
   Everything is stated over token BOUNDARIES k \in 0..Len(text) of an expanded text (the
   offsets at character boundaries); Off(text, k) is the byte offset of boundary k.

   Reference:
     PosB(text, k)            the position of boundary k: line = number of line breaks that END at
                              or before k, character = UTF-16 units since the line start.
     MidCRLF(text, k)         k lies strictly between a CR and its LF.  CR LF is ONE line break, so
                              this offset has no position of its own.  The conversion index ->
                              position must give it the position of the NEXT offset that has one,
                              the start of the next line (IdxPos): ends of ranges are exclusive,
                              so the byte range [CR, mid) -- e.g. the parse error of `echo $`
                              directly followed by CR LF -- must stay a non-empty position range
                              that covers the break; rounding down to the CR's position would
                              publish an empty range.  (Offsets inside a multi-byte character
                              do not occur as ends of parse-error or completion ranges: out of
                              the model.)
     PosOK(text, k, l, c)     (l, c) is the position index -> position must report for boundary k.
     Required(text, l, c)     (l, c) is the position of some boundary k that is not MidCRLF; then
     IdxB(text, l, c)         is that k (unique: Injective) and the conversion MUST return it:
                              this is the round trip  IdxB(PosB(k)) = k.
     Unspecified positions:   every other (l, c) -- past the end of a line, past the last line,
                              between the halves of a surrogate pair: the statement only wants
                              SOME offset in 0..Len (a reply).

   Code-shaped model (pkg/lsp/server.go walkString, lspPositionFromIdx, lspPositionToIdx):
     WalkPosT(text, wtab, k, skip)   the position the walk reports for boundary k.
     WalkToIdxT(text, wtab, l, c, skip)  first visited boundary whose reported position is >= (l, c).
     skip = FALSE is the code as it is: it visits the boundary inside a CR LF pair and reports it
     as (line + 1, 0), so a line start after CR LF converts to the offset of the LF:
         CRLFLineStartT(text, tab, l, c).
     skip = TRUE is the proposed repair (do not visit the LF of a pair).
     MCLspPos checks:  WalkPosT is PosOK everywhere (both variants);  with skip = TRUE WalkToIdxT =
     IdxT on every Required position;  with skip = FALSE it differs EXACTLY on CRLFLineStartT. *)
EXTENDS Integers, Sequences, FiniteSets

Words    == {"nop", "put", "echo", "each"}     \* documented builtin commands (hover shows their documentation)
Prefixes == {"ech", "$pa", "pu"}               \* completable prefixes (of echo, $paths, put...): plain ASCII runs
WordLen  == [w \in Words \cup Prefixes |-> IF w = "pu" THEN 2 ELSE IF w \in {"echo", "each"} THEN 4 ELSE 3]
Chars   == {"a", "b", "A", "CR", "LF"}

RECURSIVE Expand(_)
Expand(s) == IF s = <<>> THEN <<>>
             ELSE (IF Head(s) \in Words \cup Prefixes THEN [i \in 1..WordLen[Head(s)] |-> "a"] ELSE <<Head(s)>>) \o Expand(Tail(s))

BytesOf(t) == IF t = "b" THEN 3 ELSE IF t = "A" THEN 4 ELSE 1
UnitsOf(t) == IF t = "A" THEN 2 ELSE IF t \in {"a", "b"} THEN 1 ELSE 0

RECURSIVE SumBytes(_, _)
SumBytes(text, k) == IF k = 0 THEN 0 ELSE SumBytes(text, k - 1) + BytesOf(text[k])
Off(text, k)  == SumBytes(text, k)
IsBoundaryOff(text, o) == \E k \in 0..Len(text) : Off(text, k) = o
TokOfOff(text, o) == CHOOSE k \in 0..Len(text) : Off(text, k) = o

(* ---------------- reference ---------------- *)
MidCRLF(text, k) == k >= 1 /\ k < Len(text) /\ text[k] = "CR" /\ text[k + 1] = "LF"
\* a line break ends at boundary j
BreakEndsAt(text, j) == /\ j >= 1
                        /\ \/ text[j] = "LF"
                           \/ text[j] = "CR" /\ ~(j < Len(text) /\ text[j + 1] = "LF")
LineOfB(text, k)  == Cardinality({j \in 1..k : BreakEndsAt(text, j)})
LineStartB(text, k) == CHOOSE j \in 0..k : (j = 0 \/ BreakEndsAt(text, j)) /\ \A i \in (j + 1)..k : ~BreakEndsAt(text, i)
RECURSIVE SumUnits(_, _, _)
SumUnits(text, a, b) == IF b <= a THEN 0 ELSE SumUnits(text, a, b - 1) + UnitsOf(text[b])
ChOfB(text, k)    == SumUnits(text, LineStartB(text, k), k)
PosB(text, k)     == <<LineOfB(text, k), ChOfB(text, k)>>

IdxPos(text, k)      == IF MidCRLF(text, k) THEN <<LineOfB(text, k) + 1, 0>> ELSE PosB(text, k)
PosOK(text, k, l, c) == <<l, c>> = IdxPos(text, k)

Required(text, l, c) == \E k \in 0..Len(text) : ~MidCRLF(text, k) /\ PosB(text, k) = <<l, c>>
IdxB(text, l, c)     == CHOOSE k \in 0..Len(text) : ~MidCRLF(text, k) /\ PosB(text, k) = <<l, c>>

LexLess(p, q) == p[1] < q[1] \/ (p[1] = q[1] /\ p[2] < q[2])

\* The same, as tables computed in one pass (used wherever many positions of one text are needed;
\* MCLspPos checks PosTab(text)[k] = PosB(text, k) for every k).  A table is indexed 1..Len+1:
\* entry k + 1 belongs to boundary k.
RECURSIVE PosUpTo(_, _)
PosUpTo(text, k) == IF k = 0 THEN <<0, 0>>
                    ELSE LET p == PosUpTo(text, k - 1) IN
                         IF BreakEndsAt(text, k) THEN <<p[1] + 1, 0>> ELSE <<p[1], p[2] + UnitsOf(text[k])>>
RECURSIVE PosTabUpTo(_, _)
PosTabUpTo(text, k) == IF k = 0 THEN << <<0, 0>> >>
                       ELSE LET t == PosTabUpTo(text, k - 1)
                                p == t[k]
                            IN Append(t, IF BreakEndsAt(text, k) THEN <<p[1] + 1, 0>> ELSE <<p[1], p[2] + UnitsOf(text[k])>>)
PosTab(text) == PosTabUpTo(text, Len(text))
IdxPosT(text, tab, k)      == IF MidCRLF(text, k) THEN tab[k + 2] ELSE tab[k + 1]   \* mid-pair: the next boundary's
PosOKT(text, tab, k, l, c) == <<l, c>> = IdxPosT(text, tab, k)
RequiredT(text, tab, l, c) == \E k \in 0..Len(text) : tab[k + 1] = <<l, c>> /\ ~MidCRLF(text, k)
IdxT(text, tab, l, c)      == CHOOSE k \in 0..Len(text) : tab[k + 1] = <<l, c>> /\ ~MidCRLF(text, k)

\* theorems about the reference (checked by MCLspPos), stated over tab = PosTab(text)
InjectiveT(text, tab) == \A j, k \in 0..Len(text) :
                      (~MidCRLF(text, j) /\ ~MidCRLF(text, k) /\ tab[j + 1] = tab[k + 1]) => j = k
MonotoneT(text, tab)  == \A j, k \in 0..Len(text) :
                      (j < k /\ ~MidCRLF(text, j) /\ ~MidCRLF(text, k)) => LexLess(tab[j + 1], tab[k + 1])
RoundTripT(text, tab) == \A k \in 0..Len(text) :
                      ~MidCRLF(text, k) => (RequiredT(text, tab, tab[k + 1][1], tab[k + 1][2])
                                            /\ IdxT(text, tab, tab[k + 1][1], tab[k + 1][2]) = k)

(* ---------------- code-shaped: walkString ---------------- *)
\* the walk increments the line at CR, and at LF unless the previous character was CR
WalkBreak(text, j) == j >= 1 /\ (text[j] = "CR" \/ (text[j] = "LF" /\ ~(j >= 2 /\ text[j - 1] = "CR")))
RECURSIVE WalkTabUpTo(_, _)
WalkTabUpTo(text, k) == IF k = 0 THEN << <<0, 0>> >>
                        ELSE LET t == WalkTabUpTo(text, k - 1)
                                 p == t[k]
                             IN Append(t, IF WalkBreak(text, k) THEN <<p[1] + 1, 0>> ELSE <<p[1], p[2] + UnitsOf(text[k])>>)
WalkTab(text) == WalkTabUpTo(text, Len(text))          \* position held by the walk when it visits boundary k: entry k + 1
Visited(text, k, skip) == ~(skip /\ MidCRLF(text, k))
\* lspPositionFromIdx: the position of the first visited boundary >= k
WalkPosT(text, wtab, k, skip) == IF Visited(text, k, skip) THEN wtab[k + 1] ELSE wtab[k + 2]
\* lspPositionToIdx: the first visited boundary whose position is not less than (l, c); Len if none
WalkToIdxT(text, wtab, l, c, skip) ==
  LET ok == {k \in 0..Len(text) : Visited(text, k, skip) /\ ~LexLess(wtab[k + 1], <<l, c>>)}
  IN IF ok = {} THEN Len(text) ELSE CHOOSE k \in ok : \A j \in ok : k <= j

CRLFLineStartT(text, tab, l, c) == /\ c = 0 /\ RequiredT(text, tab, l, c)
                                   /\ LET k == IdxT(text, tab, l, c) IN k >= 2 /\ text[k] = "LF" /\ text[k - 1] = "CR"
=============================================================================
