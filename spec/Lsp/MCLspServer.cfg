CONSTANT MaxMsgs = 3
SPECIFICATION Spec
INVARIANT InOrderOnce
INVARIANT NoDuplicatePublish
INVARIANT QuiescentComplete
INVARIANT Causal
INVARIANT ReplyAtLineStart
PROPERTY EventuallyQuiescent
