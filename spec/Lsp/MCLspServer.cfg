CONSTANT MaxMsgs = 3
CONSTANT Ordered = TRUE
SPECIFICATION Spec
INVARIANT InOrderOnce
INVARIANT NoDuplicatePublish
INVARIANT QuiescentComplete
INVARIANT Causal
INVARIANT ReplyAtLineStart
INVARIANT FinalPublishFresh
PROPERTY EventuallyQuiescent
