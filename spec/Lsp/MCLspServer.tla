---------------------------- MODULE MCLspServer ----------------------------
(* M for the server half of C44: every interleaving of at most MaxMsgs client messages (two uris,
   a few texts, positions on and off the text) with the server's Handle and Publish steps.
   Ordered = FALSE: publications race, as in the code (one goroutine per update): TLC finds a
   behaviour that violates FinalPublishFresh (a CANDIDATE, confirmed on the real server by the
   executor).  Ordered = TRUE: publications are written in handling order (the repair): every
   property holds. *)
EXTENDS LspServer
CONSTANTS MaxMsgs, Ordered
VARIABLE hist            \* history: every message the client wrote
Uris  == {"u1", "u2"}
Texts == {<<"nop">>, <<"a", "CR", "LF", "nop">>}
Poss  == {<<0, 0>>, <<1, 0>>, <<0, 9>>}
Msg(op, u, t, l, c) == [op |-> op, n |-> sent + 1, uri |-> u, text |-> t, errs |-> <<>>, l |-> l, c |-> c]

MCInit == Init /\ hist = <<>>
Client == /\ sent < MaxMsgs
          /\ \/ \E u \in Uris, t \in Texts : Open(u, t, <<>>) /\ hist' = Append(hist, Msg("open", u, t, 0, 0))
             \/ \E u \in Uris, t \in Texts : Change(u, t, <<>>) /\ hist' = Append(hist, Msg("change", u, t, 0, 0))
             \/ \E k \in {"hover", "completion"}, u \in Uris, p \in Poss :
                   Request(k, u, p[1], p[2]) /\ hist' = Append(hist, Msg(k, u, <<>>, p[1], p[2]))
PublishSome == \E o \in owed : (Ordered => \A p \in owed : o.n <= p.n) /\ Publish(o)
Server == (Handle \/ PublishSome) /\ UNCHANGED hist
MCNext == Client \/ Server
Spec == MCInit /\ [][MCNext]_<<vars, hist>> /\ WF_vars(Handle) /\ WF_vars(PublishSome)

ReqIds   == {hist[i].n : i \in {j \in 1..Len(hist) : ~IsNotification(hist[j])}}
NotifIds == {hist[i].n : i \in {j \in 1..Len(hist) : IsNotification(hist[j])}}
Quiescent == inflight = <<>> /\ owed = {}
\* nothing in flight, nothing owed => every request has its response, every open/change its publication
QuiescentComplete == Quiescent => ({RespIds[i] : i \in 1..Len(RespIds)} = ReqIds /\ PubIds = NotifIds)
\* a response never precedes its request; a publication never precedes its notification
Causal == \A i \in 1..Len(wire) : wire[i].id \in 1..sent
\* the reply to a request on a document that is known when the request is handled is computed at
\* the prescribed offset: for a line start after CR LF that is the offset AFTER the LF
ReplyAtLineStart ==
  \A i \in 1..Len(wire) : (wire[i].t = "resp" /\ wire[i].known /\ hist[wire[i].id].l = 1 /\ hist[wire[i].id].c = 0)
      => wire[i].idx \in {AnyIdx, 3}        \* <<"a","CR","LF","nop">>: boundary 3; <<"nop">> has no line 1
EventuallyQuiescent == <>[]Quiescent
=============================================================================
