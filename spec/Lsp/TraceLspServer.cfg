INIT TInit
NEXT TNext
INVARIANT Report
