------------------------------- MODULE LspReply -------------------------------
(* C44 -- what replies and publications of the language server must look like (pure operators,
   shared by LspServer, MCLspGen and TraceLspServer).  See LspServer for the state machine and for
   the list of Unspecified cases.

     RespIdx(sym, l, c)       the boundary at which a request at position (l, c) of text sym must
                              be evaluated (the reference conversion), or AnyIdx when the position
                              is not Required (LspPos) -- then any well-formed reply is accepted.
     HoverExpect(sym, errs, l, c)   the command whose documentation the hover reply must show, or
                              "any": prescribed only on an error-free document, at a Required
                              position inside an isolated documented command word.
     DiagOK(sym, errs, ranges)      the published ranges are exactly the parse-error byte ranges
                              errs (data from the real parser) converted to positions.
     CompletionOK(sym, at, l, c, got)   the completion reply equals what the real completer
                              (primitive, table at) gives at RespIdx, its replace range converted
                              to positions.  At a position that is not Required (past the end of a
                              line or of the document, between surrogate halves) the server may
                              normalise the cursor to ANY character boundary j, but the reply must
                              then be the completion AT j: candidates of j, and an edit range that
                              is the conversion of j's replace byte range -- hence start <= end,
                              both ends are positions the conversion produces (they round-trip),
                              and the end is the position of the normalised cursor offset, never
                              the client's non-existent position echoed back. *)
EXTENDS LspPos

AnyIdx == -1

(* ---------------- what replies and publications must look like ---------------- *)
\* the boundary at which a request at (l, c) on text sym must be evaluated, or AnyIdx
RespIdx(sym, l, c) == LET text == Expand(sym) tab == PosTab(text)
                      IN IF RequiredT(text, tab, l, c) THEN IdxT(text, tab, l, c) ELSE AnyIdx

\* hover: isolated documented words
IsolatedWord(sym, i) == /\ sym[i] \in Words
                        /\ (i = 1 \/ sym[i - 1] \in {"CR", "LF"})
                        /\ (i = Len(sym) \/ sym[i + 1] \in {"CR", "LF"})
SymStart(sym, i) == Len(Expand(SubSeq(sym, 1, i - 1)))          \* boundary where symbol i starts
WordAt(sym, k) == LET hit == {i \in 1..Len(sym) : IsolatedWord(sym, i) /\ SymStart(sym, i) <= k
                                                  /\ k < SymStart(sym, i) + WordLen[sym[i]]}
                  IN IF hit = {} THEN "" ELSE sym[CHOOSE i \in hit : TRUE]
HoverExpect(sym, errs, l, c) ==
  LET k == RespIdx(sym, l, c)
  IN IF errs = <<>> /\ k # AnyIdx /\ WordAt(sym, k) # "" THEN WordAt(sym, k) ELSE "any"

\* a published / replied position for byte offset o of the text
PosOfOffOK(text, tab, o, l, c) == IsBoundaryOff(text, o) /\ PosOKT(text, tab, TokOfOff(text, o), l, c)
\* rg = <<l1, c1, l2, c2>> is the conversion of the byte range e = <<from, to>>
RangeOK(text, tab, e, rg) == PosOfOffOK(text, tab, e[1], rg[1], rg[2]) /\ PosOfOffOK(text, tab, e[2], rg[3], rg[4])
\* the published ranges are exactly the converted parse-error ranges (as sets, same number)
DiagOK(sym, errs, ranges) ==
  LET text == Expand(sym) tab == PosTab(text) IN
  /\ Len(ranges) = Len(errs)
  /\ \A i \in 1..Len(errs)   : \E j \in 1..Len(ranges) : RangeOK(text, tab, errs[i], ranges[j])
  /\ \A j \in 1..Len(ranges) : \E i \in 1..Len(errs)   : RangeOK(text, tab, errs[i], ranges[j])

\* completion: at[k + 1] = [h, n, rf, rt] is what the real completer gives at boundary k (hash and
\* number of the candidates, replace byte range); got = [h, n, rg] is the reply (rg of its edits)
CompletionAt(text, tab, at, k, got) ==
  /\ got.h = at[k + 1].h /\ got.n = at[k + 1].n
  /\ got.n > 0 => RangeOK(text, tab, <<at[k + 1].rf, at[k + 1].rt>>, got.rg)
CompletionOK(sym, at, l, c, got) ==
  LET text == Expand(sym) tab == PosTab(text) k == RespIdx(sym, l, c) IN
  IF k = AnyIdx THEN \E j \in 0..Len(text) : CompletionAt(text, tab, at, j, got)
  ELSE CompletionAt(text, tab, at, k, got)
\* consequences for a reply with candidates (checked on every judged case by JudgeLspCompletion as a
\* guard on the rule itself): the edit range is ordered and both ends are boundary positions
RangeWellFormed(sym, got) ==
  LET text == Expand(sym) tab == PosTab(text) IN
  got.n > 0 => /\ ~LexLess(<<got.rg[3], got.rg[4]>>, <<got.rg[1], got.rg[2]>>)
               /\ \E k \in 0..Len(text) : IdxPosT(text, tab, k) = <<got.rg[1], got.rg[2]>>
               /\ \E k \in 0..Len(text) : IdxPosT(text, tab, k) = <<got.rg[3], got.rg[4]>>

=============================================================================
