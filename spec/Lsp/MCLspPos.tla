------------------------------ MODULE MCLspPos ------------------------------
(* M for the position half of C44: all texts of <= N characters over {a, b, A, CR, LF}.
   Initial states only choose the text (ph = 0); the theorems are evaluated on the successor
   (ph = 1) so that TLC's workers share the work; the one-pass tables are state variables so
   that TLC computes them once per text. *)
EXTENDS LspPos, TLC
CONSTANT N
VARIABLES text, ph, tab, wtab
RECURSIVE TextsOf(_)
TextsOf(k) == IF k = 0 THEN {<<>>} ELSE {<<>>} \cup {<<t>> \o s : t \in Chars, s \in TextsOf(k - 1)}
Init == text \in TextsOf(N) /\ ph = 0 /\ tab = <<>> /\ wtab = <<>>
Next == ph = 0 /\ ph' = 1 /\ UNCHANGED text /\ tab' = PosTab(text) /\ wtab' = WalkTab(text)
\* one line and one character beyond everything the text has
MaxCh == CHOOSE m \in 0..(2 * Len(text)) : (\E k \in 1..Len(tab) : tab[k][2] = m) /\ \A k \in 1..Len(tab) : tab[k][2] <= m
Grid == {<<l, c>> : l \in 0..(tab[Len(tab)][1] + 1), c \in 0..(MaxCh + 1)}

Theorems ==
  ph = 1 =>
  LET n == Len(text)
  IN \* the one-pass tables are the declarative reference
     /\ Len(tab) = n + 1 /\ \A k \in 0..n : tab[k + 1] = PosB(text, k)
     /\ \A k \in 0..n : IdxPosT(text, tab, k) = IdxPos(text, k)
     \* index -> position never decreases, and a non-empty byte range of whole characters never
     \* becomes an empty position range
     /\ \A j, k \in 0..n : j < k => /\ ~LexLess(IdxPosT(text, tab, k), IdxPosT(text, tab, j))
                                      /\ (IdxPosT(text, tab, j) = IdxPosT(text, tab, k) => (k = j + 1 /\ MidCRLF(text, j)))
     \* the reference: positions of character boundaries are distinct, increasing, and round-trip
     /\ InjectiveT(text, tab) /\ MonotoneT(text, tab) /\ RoundTripT(text, tab)
     \* index -> position: both variants of the walk report an acceptable position for every boundary
     /\ \A k \in 0..n, skip \in BOOLEAN :
           LET p == WalkPosT(text, wtab, k, skip) IN PosOKT(text, tab, k, p[1], p[2])
     \* position -> index: always some offset; the repaired walk is the reference on Required
     \* positions; the code as it is deviates exactly at line starts after CR LF (inside the pair)
     /\ \A p \in Grid :
           /\ WalkToIdxT(text, wtab, p[1], p[2], FALSE) \in 0..n
           /\ WalkToIdxT(text, wtab, p[1], p[2], TRUE) \in 0..n
           /\ RequiredT(text, tab, p[1], p[2]) =>
                 /\ WalkToIdxT(text, wtab, p[1], p[2], TRUE) = IdxT(text, tab, p[1], p[2])
                 /\ IF CRLFLineStartT(text, tab, p[1], p[2])
                    THEN WalkToIdxT(text, wtab, p[1], p[2], FALSE) = IdxT(text, tab, p[1], p[2]) - 1
                    ELSE WalkToIdxT(text, wtab, p[1], p[2], FALSE) = IdxT(text, tab, p[1], p[2])
=============================================================================
