------------------------- MODULE JudgeLspCompletion -------------------------
(* G/V helper for C44: case walker for completion replies at positions that are NOT Required
   (past the end of a line / of the document, between surrogate halves), recorded while the
   generated texts are replayed over the wire.  A case is
     [sym, l, c,            the text (symbols) and the requested position
      at,                   the real completer at every character boundary: <<[h, n, rf, rt], ...>>
      cls, cmp]             the reply: "items" | "malformed";  [h, n, rg] (LspReply.CompletionOK)
   The reply must be the completion at SOME boundary with its replace range converted by the
   reference (CompletionOK); RangeWellFormed (ordered, both ends are boundary positions) follows
   from it and is reported separately to name the failure. *)
EXTENDS LspReply, TLC, Json
Cases == ndJsonDeserialize("cases.ndjson")
VARIABLE k
Init == k = 0
Next == k < Len(Cases) /\ k' = k + 1
Why(c) == IF Len(c.at) # Len(Expand(c.sym)) + 1 THEN "at-table-mismatch"
          ELSE IF c.cls # "items" THEN "malformed"
          ELSE IF ~RangeWellFormed(c.sym, c.cmp) THEN "range-not-well-formed"
          ELSE IF ~CompletionOK(c.sym, c.at, c.l, c.c, c.cmp) THEN "not-the-completion-at-any-offset"
          ELSE "ok"
Inv == k = 0 \/ Why(Cases[k]) = "ok" \/ PrintT(<<"BAD", k, Why(Cases[k])>>)
=============================================================================
