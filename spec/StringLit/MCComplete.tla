----------------------------- MODULE MCComplete -----------------------------
(* M for C43: a code-shaped model of file name completion (pkg/edit/complete: generateFileNames +
   FilterPrefix + ComplexItem.Cook) checked against the acceptance predicates of Complete.tla, for
   every file name up to MaxLen bytes over an alphabet of hostile bytes, as a file and as a
   directory, every byte prefix of it as the typed file part, every typed style, with and without a
   directory part, in argument and in command position.  Every reachable state is one name.
   This is the design theorem "quoting the full path with QuoteAs in the style of the typed word
   satisfies C43" -- it shows before any code runs that the predicates are satisfiable by the
   intended design (and not stricter than it). *)
EXTENDS Complete, TLC
CONSTANT MaxLen
VARIABLE n

Alpha == {97, 98, 32, 39, 34, 36, 126, 46, 42, 195, 169, 10, 61, 35, 92, 255}
         \* a b space ' " $ ~ . * C3 A9 (e-acute) LF = # \ FF
PM == {233}
Init == n = <<>>
Next == Len(n) < MaxLen /\ \E b \in Alpha : n' = Append(n, b)

Pref(style) == IF style \in {"none", "bare"} THEN "bare" ELSE style

\* the code: list the directory, hide dot files unless the file part starts with a dot, keep the entries
\* with the typed prefix, quote dir part + name (+ "/" for directories) as the typed style prefers,
\* append a space after plain files
ModelItems(entries, dp, fp, style, P) ==
  LET keep == {i \in 1..Len(entries) : Matches(entries[i], fp) /\ ~DotHidden(entries[i], fp)}
      ins(e) == LET full == dp \o e.name \o (IF e.dir THEN <<47>> ELSE <<>>)
                IN QuoteModel(full, "strict", Pref(style), P) \o (IF e.dir THEN <<>> ELSE <<32>>)
  IN {[ins |-> ins(entries[i]), evapp |-> FALSE, evc |-> "", ev |-> <<>>] : i \in keep}

ValidName == n # <<>> /\ n # <<46>> /\ n # <<46, 46>>
Theorem ==
  ValidName =>
    \A isdir \in BOOLEAN : \A k \in 0..Len(n) : \A style \in {"none", "bare", "single", "double"} :
    \A dp \in {<<>>, <<100, 47>>} : \A ctx \in {"arg", "cmd"} :
      LET entries == <<[name |-> n, dir |-> isdir, exe |-> FALSE]>>
          fp == SubSeq(n, 1, k)
          items == ModelItems(entries, dp, fp, style, PM)
      IN /\ \A it \in items : FileItemWhy(ctx, style, dp, fp, entries, it, <<>>, PM) = "ok"
         /\ \A i \in Required(entries, fp, FALSE) :
              \E it \in items : Denote(ctx, WordOf(it.ins), PM).v \in Values(dp, entries[i])
=============================================================================
