---------------------------- MODULE JudgeComplete ----------------------------
(* V for C43: one TLC state per recorded completion request on the REAL complete.Complete.
   A record:
     kind     "file" (file name completion) | "name" (variables after `$`, commands in head position)
     ctx      lexical context of the completed word for Denote: "arg" (arguments, redirection targets,
              words inside captures), "cmd", "var"
     pos      where the harness typed the word (information only): arg, arg2, redir, capture, cmd, var, ...
     cmdpos   file names are completed in command position (only runnable entries are required)
     buf, dot the code buffer and the cursor
     typed    [style, text]: the word as typed (style none|bare|single|double; quotes possibly open)
     entries  listing of the directory the typed word points into: [name, dir, exe]    (kind "file")
     pre, seed, names, evnames, known  (kind "name") the text between the start of the word (after `$`)
              and the replaced range; the typed name prefix; the names the harness registered
              (information); those of them whose use yields the name itself; every name in scope
     res      what complete.Complete returned: [offered, from, to, items]; item = [ins, evapp, evc, ev]:
              ToInsert, and the class of error / the strings obtained by evaluating the buffer with
              the item substituted for [from, to) (and the template's closing text appended)
     evpost   the strings the rest of the buffer template yields after the word's value
     pr       printable non-ASCII code points occurring in the record (unicode.IsPrint; trusted data)
   The acceptance predicates are those of Complete.tla. *)
EXTENDS Complete, TLC, Json
Cases == ndJsonDeserialize("cases.ndjson")
VARIABLE k
Init == k = 0
Next == k < Len(Cases) /\ k' = k + 1

NameResultWhy(c, P) ==
  LET known == ToSet(c.known)
      ev    == ToSet(c.evnames)
      bad == {i \in 1..Len(c.res.items) : NameItemWhy(c.ctx, c.typed.style, c.pre, c.seed, known, ev, c.res.items[i], P) # "ok"}
  IN IF ~c.res.offered THEN "ok"
     ELSE IF ~RangeOK(c.buf, c.res.from, c.res.to) THEN "range"
     ELSE IF bad # {} THEN NameItemWhy(c.ctx, c.typed.style, c.pre, c.seed, known, ev, c.res.items[CHOOSE i \in bad : \A j \in bad : i <= j], P)
     ELSE "ok"

Why(c) ==
  LET P == ToSet(c.pr)
  IN IF c.kind = "file" THEN FileResultWhy(c.ctx, c.cmdpos, c.buf, c.typed, c.entries, c.res, c.evpost, P)
     ELSE NameResultWhy(c, P)
Inv == k = 0 \/ Why(Cases[k]) = "ok" \/ PrintT(<<"BAD", k, Why(Cases[k])>>)
=============================================================================
