------------------------------ MODULE Complete ------------------------------
(* C43 -- completion inserts text that evaluates to the chosen candidate.

   State of a completion request: the code buffer (bytes), the cursor `dot`, the word the user
   has typed so far [style, text] (style "none" = nothing typed yet, "bare", "single", "double";
   the text as typed, a quoted one possibly still open), and what can be completed:
   the listing of the directory named by the typed word (file name completion), or the names of the
   variables / commands in scope.  One action, Complete, whose result is
       [offered, from, to, items]   items = the insertion texts, each with what the buffer
                                    evaluated to after substituting it for [from, to).
   Lexical rules come from StringLit (Denote).  The property, as the predicate the result must
   satisfy (used both on the code-shaped model in MCComplete and on results recorded from the real
   complete.Complete in JudgeComplete):

   RangeOK       0 <= from <= to <= Len(buffer)
   WordOf(ins)   the insertion is ONE literal word, optionally followed by one space (the code
                 suffix after a completed file name)
   ItemOK        Denote(ctx, word) is a candidate value: dir part o entry name for an entry that starts
                 with the typed file part (for a directory entry also with a trailing `/`); the
                 buffer after substitution evaluated to exactly that value
   Exactly       every entry that starts with the typed file part is offered
   StyleOK       the word is quoted in the style the user started, unless the value forces a
                 stronger one (bare -> single -> double)

   Unspecified (both outcomes accepted):
     DotHidden     an entry starting with `.` while the typed file part does not (the statement says
                   "exactly the entries that start with the typed prefix"; hiding dot files is
                   convention) -- may or may not be offered;
     trailing `/`  for a directory entry the value may or may not end in `/`;
     NotRunnable   in command position, an entry that is neither executable nor a directory may be left out;
     style of a value that is a bareword in some contexts only (`=` `,` ...): bare or single;
     style of a value with unprintable characters that single quotes could still hold: single or double. *)
EXTENDS StringLit

IsPrefix(p, s) == Len(p) <= Len(s) /\ SubSeq(s, 1, Len(p)) = p
Last(s) == s[Len(s)]
ToSet(s) == {s[i] : i \in 1..Len(s)}

\* index of the last `/` (47) in p, 0 if none
LastSlash(p) == LET I == {i \in 1..Len(p) : p[i] = 47} IN IF I = {} THEN 0 ELSE CHOOSE i \in I : \A j \in I : j <= i
DirPart(p)  == SubSeq(p, 1, LastSlash(p))
FilePart(p) == SubSeq(p, LastSlash(p) + 1, Len(p))

(* ---- the typed word ---- *)
\* what the typed text denotes once its quote is closed; "none" denotes the empty prefix
TypedValue(ctx, typed, P) ==
  IF typed.style = "none" THEN Str(<<>>)
  ELSE IF typed.style = "bare" THEN Denote(ctx, typed.text, P)
  ELSE LET closer == IF typed.style = "single" THEN <<39>> ELSE <<34>>
           asis == Denote(ctx, typed.text, P)
       IN IF asis.ok THEN asis ELSE Denote(ctx, typed.text \o closer, P)

(* ---- candidates of file name completion ---- *)
\* entries: sequence of [name, dir, exe]
Matches(e, fp)   == IsPrefix(fp, e.name)
DotHidden(e, fp) == e.name[1] = 46 /\ (fp = <<>> \/ fp[1] # 46)
Values(dp, e)    == {dp \o e.name} \cup (IF e.dir THEN {dp \o e.name \o <<47>>} ELSE {})
NotRunnable(e)   == ~e.dir /\ ~e.exe
Required(entries, fp, cmdpos) ==
  {i \in 1..Len(entries) : Matches(entries[i], fp) /\ ~DotHidden(entries[i], fp) /\ ~(cmdpos /\ NotRunnable(entries[i]))}
Allowed(entries, fp) == {i \in 1..Len(entries) : Matches(entries[i], fp)}

(* ---- an inserted text ---- *)
WordOf(ins) == IF ins = <<>> THEN ins ELSE IF Last(ins) = 32 THEN SubSeq(ins, 1, Len(ins) - 1) ELSE ins

Plain(v, P) == LET us == Units(v) IN v # <<>> /\ \A k \in 1..Len(us) : us[k].cp # -1 /\ us[k].cp # 65533 /\ Printable(us[k].cp, P)
StyleOK(style, kind, v, P) ==
  CASE style = "double" -> kind = "double"
    [] style = "single" -> IF Plain(v, P) THEN kind = "single" ELSE kind \in {"single", "double"}
    [] OTHER            -> IF Plain(v, P)
                           THEN IF BarewordOK("strict", v, P) THEN kind = "bare" ELSE kind \in {"bare", "single"}
                           ELSE kind \in {"bare", "single", "double"}

RangeOK(buf, from, to) == 0 <= from /\ from <= to /\ to <= Len(buf)

\* why an item of file name completion is not acceptable ("ok" if it is)
\* it: [ins, evapp, evc, ev]   evapp: the harness's buffer template can observe the word's value
\* (not so for a directory after `<`); ev: the strings the buffer yielded after substitution
FileItemWhy(ctx, style, dp, fp, entries, it, evpost, P) ==
  LET w == WordOf(it.ins)
      d == Denote(ctx, w, P)
  IN IF ~d.ok THEN "insertion-not-a-word"
     ELSE IF ~\E i \in Allowed(entries, fp) : d.v \in Values(dp, entries[i]) THEN "not-a-candidate"
     ELSE IF ~StyleOK(style, Kind(w), d.v, P) THEN "style"
     ELSE IF it.evapp /\ ~(it.evc = "" /\ it.ev = <<d.v>> \o evpost) THEN "evaluates-differently"
     ELSE "ok"

\* the whole result of file name completion
FileResultWhy(ctx, cmdpos, buf, typed, entries, res, evpost, P) ==
  LET tv == TypedValue(ctx, typed, P)
      dp == DirPart(tv.v)
      fp == FilePart(tv.v)
      bad == {i \in 1..Len(res.items) : FileItemWhy(ctx, typed.style, dp, fp, entries, res.items[i], evpost, P) # "ok"}
      got == {Denote(ctx, WordOf(res.items[i].ins), P).v : i \in 1..Len(res.items)}
  IN IF ~tv.ok THEN "BADCASE-typed-word"
     ELSE IF ~res.offered THEN (IF Required(entries, fp, cmdpos) = {} THEN "ok" ELSE "nothing-offered")
     ELSE IF ~RangeOK(buf, res.from, res.to) THEN "range"
     ELSE IF bad # {} THEN FileItemWhy(ctx, typed.style, dp, fp, entries, res.items[CHOOSE i \in bad : \A j \in bad : i <= j], evpost, P)
     ELSE IF \E i \in Required(entries, fp, cmdpos) : Values(dp, entries[i]) \cap got = {} THEN "candidate-missing"
     ELSE "ok"

(* ---- names (variables after `$`, commands in head position) ----
   The statement claims "offers exactly the entries that start with the typed prefix" for file names
   only: for names, which names are offered is not judged (the real filter compares the typed prefix
   with the QUOTED candidate text, so `$a<Tab>` does not offer a variable named `a b` -- recorded in
   notes/C43.md, outside the property).  seed is kept for information. *)
\* known: every name in scope (a set); evnames: the names whose use yields the name itself (the harness's
\* variables and functions); pre: what precedes the replaced range inside the word (after `$` for variables)
NameItemWhy(ctx, style, pre, seed, known, evnames, it, P) ==
  LET w == pre \o it.ins
      d == Denote(ctx, w, P)
  IN IF ~d.ok THEN "insertion-not-a-word"
     ELSE IF d.v \notin known THEN "not-a-candidate"
     ELSE IF ctx = "cmd" /\ ~StyleOK(style, Kind(w), d.v, P) THEN "style"
     ELSE IF it.evapp /\ d.v \in evnames /\ ~(it.evc = "" /\ it.ev = <<d.v>>) THEN "evaluates-differently"
     ELSE "ok"
=============================================================================
