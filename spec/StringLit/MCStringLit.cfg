CONSTANT MaxLen = 3
CONSTANT AlphaId = 1
INIT Init
NEXT Next
INVARIANT Theorem
INVARIANT Codec
