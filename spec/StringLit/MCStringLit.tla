---------------------------- MODULE MCStringLit ----------------------------
(* M for C03: the design theorem of StringLit on every byte string up to MaxLen over a small
   alphabet of bytes (AlphaId selects one of four alphabets: quoting metacharacters, further
   metacharacters, 2/3-byte UTF-8 fragments, 4-byte / ill-formed UTF-8 fragments).  Every reachable
   state is one string.  The theorem is checked for three printability tables: the model's table
   PM, the empty table (no non-ASCII code point printable) and the full table (every non-ASCII
   code point of s printable) -- it must not depend on unicode.IsPrint. *)
EXTENDS StringLit, TLC
CONSTANTS MaxLen, AlphaId
VARIABLE s

Alpha ==
  CASE AlphaId = 1 -> {97, 39, 34, 92, 36, 126, 32, 10, 9, 1, 127, 61, 44, 60}
         \* a ' " \ $ ~ space LF TAB ^A DEL = , <
    [] AlphaId = 2 -> {48, 126, 94, 42, 62, 63, 40, 91, 123, 38, 59, 124, 35, 58, 64}
         \* 0 ~ ^ * > ? ( [ { & ; | # : @
    [] AlphaId = 3 -> {97, 39, 92, 126, 195, 169, 194, 133, 226, 128, 139, 239, 191, 189, 255}
         \* a ' \ ~  C3 A9 (e-acute)  C2 85 (NEL)  E2 80 8B (ZWSP)  EF BF BD (U+FFFD)  FF
    [] AlphaId = 4 -> {97, 34, 240, 159, 152, 128, 228, 189, 160, 237, 192, 244, 144}
         \* a "  F0 9F 98 80 (U+1F600)  E4 BD A0 (U+4F60)  ED A0 80 (surrogate)  C0  F4 90 (> 10FFFF)

PM == {233, 20320, 128512}
PAll(t) == LET us == Units(t) IN {us[k].cp : k \in {j \in 1..Len(us) : us[j].cp >= 128}}
\* with no non-ASCII code point in t the three tables cannot differ
Tables(t) == IF PAll(t) = {} THEN {{}} ELSE {PM, {}, PAll(t)}
Prefs == {"bare", "single", "double"}

\* the strings are grown byte by byte so that TLC's workers share the enumeration
Init == s = <<>>
Next == Len(s) < MaxLen /\ \E b \in Alpha : s' = Append(s, b)

\* round trip; the style is the preferred one or a stronger one; the output is well-formed UTF-8
RoundTrip(t, P) ==
  /\ \A pref \in Prefs :
        LET q == QuoteModel(t, "strict", pref, P)
        IN /\ \A ctx \in {"arg", "key", "cmd"} : Denote(ctx, q, P) = Str(t)
           /\ Rank(Kind(q)) >= Rank(pref) /\ Rank(Kind(q)) <= 2
  /\ Denote("cmd", QuoteModel(t, "cmd", "bare", P), P) = Str(t)
  /\ Denote("var", QuoteModel(t, "var", "bare", P), P) = Str(t)
Theorem == \A P \in Tables(s) : RoundTrip(s, P)

\* decoding and encoding agree
Codec == LET us == Units(s) IN \A k \in 1..Len(us) : us[k].cp >= 0 => Len(EncodeUTF8(us[k].cp)) = us[k].n
=============================================================================
