------------------------------ MODULE StringLit ------------------------------
(* C03 (and reused by C43) -- what a single string-literal word of Elvish denotes, and a
   code-shaped model of Elvish's quoting functions.

   Written from website/ref/language.md: "Source code encoding", "Lexical elements"
   (Metacharacters, Single-quoted string, Double-quoted string, Bareword), "String",
   "Variable use" (names that may follow `$`), "Tilde expansion", "Ordinary command"
   (relaxed barewords in the head).

   Texts and strings are sequences of bytes (0..255).  `P` is the set of non-ASCII code
   points that Go's unicode.IsPrint calls printable -- a table TLC does not have; it is
   data supplied with every case (trusted attribute); ASCII printability (0x20..0x7E) is
   stated here.

   Denote(ctx, t, P)   the string that the text t denotes when it is ONE string-literal word in
                       context ctx, as [ok, v, u]:
                         ctx = "arg"  an argument                  (`put <t>`)
                         ctx = "key"  a map key                    (`[&<t>=v]`)
                         ctx = "cmd"  the head of a command form   (`<t>`)
                         ctx = "var"  a variable name after `$`    (`$<t>`)
                       ok = FALSE: t is not a single literal word (not UTF-8, unsupported
                       escape, unterminated, a metacharacter outside quotes, leading `~`, ...).
                       u = TRUE: the reference leaves the denotation open (\u/\U escapes that
                       are not Unicode scalar values).  Independent of the real parser.
   QuoteModel(s, qctx, pref, P)  code-shaped transcription of parse.quoteAs / QuoteVariableName
                       (qctx "strict" = Quote/QuoteAs, "cmd" = QuoteCommandName, "var").
   Design theorem (checked by TLC in MCStringLit, bounded):
        Denote(ctx, QuoteModel(s, qctx, pref, P), P) = Str(s)   for every s, every pref, and
        (qctx, ctx) in {strict} x {arg, key, cmd}  u  {(cmd, cmd), (var, var)}.

   Named deviation of the code from the reference that the property does not forbid:
     CaretInHead  the code also accepts `^` as a bareword character in the command head
                  (parse.ExprCtx doc: "unquoted <>*^"); the reference lists `<`, `>`, `*`.
   Unspecified (field u; both outcomes accepted when a text is given to the real parser; a text
   produced by a quoting function must be ok, never u):
     - \uHHHH / \UHHHHHHHH naming a surrogate or a value above U+10FFFF;
     - a text that is not well-formed UTF-8 ("source code must be Unicode text encoded in UTF-8");
     - after `$`, a text starting with the explode sigil `@`.
   ResolutionUnspecified(name, ctx, special): how a command head / variable name is *resolved* is not
   the subject of C03: names containing `:` (namespace-qualified), starting with `@` or, in command
   position, naming a special command are judged at the lexical and parser level only. *)
EXTENDS Integers, Sequences

Str(v)  == [ok |-> TRUE, v |-> v, u |-> FALSE]
Invalid == [ok |-> FALSE, v |-> <<>>, u |-> FALSE]
Unspec  == [ok |-> FALSE, v |-> <<>>, u |-> TRUE]

(* ------------------------------ UTF-8 ------------------------------ *)
IsCont(b)    == b >= 128 /\ b <= 191
IsScalar(cp) == cp >= 0 /\ cp <= 1114111 /\ ~(cp >= 55296 /\ cp <= 57343)
Unit(cp, n)  == [cp |-> cp, n |-> n]      \* a code point and its encoded length
BadUnit      == Unit(-1, 1)               \* a byte that is not part of well-formed UTF-8

HasCont(t, i, k) == IF i + k <= Len(t) THEN \A j \in 1..k : IsCont(t[i + j]) ELSE FALSE
C(t, i) == t[i] - 128

UnitAt(t, i) ==
  LET b == t[i] IN
  IF b < 128 THEN Unit(b, 1)
  ELSE IF b >= 194 /\ b <= 223
  THEN IF HasCont(t, i, 1) THEN Unit((b - 192) * 64 + C(t, i + 1), 2) ELSE BadUnit
  ELSE IF b >= 224 /\ b <= 239
  THEN IF HasCont(t, i, 2)
       THEN LET cp == (b - 224) * 4096 + C(t, i + 1) * 64 + C(t, i + 2)
            IN IF cp >= 2048 /\ IsScalar(cp) THEN Unit(cp, 3) ELSE BadUnit
       ELSE BadUnit
  ELSE IF b >= 240 /\ b <= 244
  THEN IF HasCont(t, i, 3)
       THEN LET cp == (b - 240) * 262144 + C(t, i + 1) * 4096 + C(t, i + 2) * 64 + C(t, i + 3)
            IN IF cp >= 65536 /\ IsScalar(cp) THEN Unit(cp, 4) ELSE BadUnit
       ELSE BadUnit
  ELSE BadUnit

RECURSIVE UnitsFrom(_, _)
UnitsFrom(t, i) == IF i > Len(t) THEN <<>>
                   ELSE LET un == UnitAt(t, i) IN <<un>> \o UnitsFrom(t, i + un.n)
Units(t) == UnitsFrom(t, 1)
ValidUTF8(t) == LET us == Units(t) IN \A k \in 1..Len(us) : us[k].cp # -1

EncodeUTF8(cp) ==
  IF cp < 128 THEN <<cp>>
  ELSE IF cp < 2048 THEN <<192 + (cp \div 64), 128 + (cp % 64)>>
  ELSE IF cp < 65536 THEN <<224 + (cp \div 4096), 128 + ((cp \div 64) % 64), 128 + (cp % 64)>>
  ELSE <<240 + (cp \div 262144), 128 + ((cp \div 4096) % 64), 128 + ((cp \div 64) % 64), 128 + (cp % 64)>>

Printable(cp, P) == IF cp < 128 THEN cp >= 32 /\ cp <= 126 ELSE cp \in P

(* ------------------------------ character sets ------------------------------ *)
\* ' 39  " 34  \ 92  $ 36  ~ 126  = 61  , 44  < 60  > 62  * 42  ^ 94  @ 64  : 58
Alnum(cp)   == (cp >= 48 /\ cp <= 57) \/ (cp >= 65 /\ cp <= 90) \/ (cp >= 97 /\ cp <= 122)
\* "Variable use": letters, digits, -_:~ and printable non-ASCII
VarChar(cp, P) == Alnum(cp) \/ cp \in {45, 95, 58, 126} \/ (cp >= 128 /\ cp \in P)
\* "Bareword": letters, digits, !%+,-./:@\_ , printable non-ASCII; `~`, `=` where not metacharacters
Common(cp, P) == VarChar(cp, P) \/ cp \in {33, 37, 43, 46, 47, 64, 92}
CaretInHead == {94}
BareChar(ctx, cp, P) ==
  CASE ctx = "var"    -> VarChar(cp, P)
    [] ctx = "strict" -> Common(cp, P)                        \* allowed in every context
    [] ctx = "key"    -> Common(cp, P) \/ cp = 44             \* `=` terminates a map key
    [] ctx = "arg"    -> Common(cp, P) \/ cp \in {44, 61}
    [] ctx = "cmd"    -> Common(cp, P) \/ cp \in {44, 61, 60, 62, 42} \/ cp \in CaretInHead

AllBare(ctx, t, P) == LET us == Units(t) IN \A k \in 1..Len(us) : BareChar(ctx, us[k].cp, P)
\* a leading ~ is tilde expansion except after `$`
BarewordOK(ctx, t, P) == t # <<>> /\ (ctx = "var" \/ t[1] # 126) /\ AllBare(ctx, t, P)

(* ------------------------------ quoted literals ------------------------------ *)
Fail          == [ok |-> FALSE, v |-> <<>>, next |-> 0, u |-> FALSE]
FailU         == [ok |-> FALSE, v |-> <<>>, next |-> 0, u |-> TRUE]
Done(v, next) == [ok |-> TRUE, v |-> v, next |-> next, u |-> FALSE]

\* Single-quoted body from index i (after the opening quote): everything stands for itself,
\* '' is one quote, a lone ' ends the literal.
RECURSIVE SQBody(_, _, _)
SQBody(t, i, acc) ==
  IF i > Len(t) THEN Fail
  ELSE IF t[i] # 39 THEN SQBody(t, i + 1, Append(acc, t[i]))
  ELSE IF i + 1 <= Len(t)
       THEN (IF t[i + 1] = 39 THEN SQBody(t, i + 2, Append(acc, 39)) ELSE Done(acc, i + 1))
       ELSE Done(acc, i + 1)

HexVal(b) == IF b >= 48 /\ b <= 57 THEN b - 48
             ELSE IF b >= 97 /\ b <= 102 THEN b - 87
             ELSE IF b >= 65 /\ b <= 70 THEN b - 55 ELSE -1
IsOct(b)  == b >= 48 /\ b <= 55
AllHex(t, j, n) == IF j + n - 1 <= Len(t) THEN \A k \in 0..(n - 1) : HexVal(t[j + k]) >= 0 ELSE FALSE
RECURSIVE HexNum(_, _, _)
HexNum(t, j, n) == IF n = 0 THEN 0 ELSE HexNum(t, j, n - 1) * 16 + HexVal(t[j + n - 1])

\* the ten one-letter escapes: a b t n v f r e " \
Simple == [c \in {97, 98, 116, 110, 118, 102, 114, 101, 34, 92} |->
            CASE c = 97 -> 7 [] c = 98 -> 8 [] c = 116 -> 9 [] c = 110 -> 10 [] c = 118 -> 11
              [] c = 102 -> 12 [] c = 114 -> 13 [] c = 101 -> 27 [] c = 34 -> 34 [] c = 92 -> 92]

\* Escape sequence whose first character after the backslash is at index j.
Escape(t, j) ==
  IF j > Len(t) THEN Fail
  ELSE LET c == t[j] IN
    IF c \in DOMAIN Simple THEN Done(<<Simple[c]>>, j + 1)
    ELSE IF IsOct(c)                                   \* exactly three octal digits, a byte
    THEN IF j + 2 <= Len(t)
         THEN IF IsOct(t[j + 1]) /\ IsOct(t[j + 2])
              THEN LET n == (c - 48) * 64 + (t[j + 1] - 48) * 8 + (t[j + 2] - 48)
                   IN IF n <= 255 THEN Done(<<n>>, j + 3) ELSE Fail
              ELSE Fail
         ELSE Fail
    ELSE IF c = 120                                    \* \xHH: a byte
    THEN IF AllHex(t, j + 1, 2) THEN Done(<<HexNum(t, j + 1, 2)>>, j + 3) ELSE Fail
    ELSE IF c = 117                                    \* \uHHHH: a code point
    THEN IF AllHex(t, j + 1, 4)
         THEN LET cp == HexNum(t, j + 1, 4)
              IN IF IsScalar(cp) THEN Done(EncodeUTF8(cp), j + 5) ELSE FailU
         ELSE Fail
    ELSE IF c = 85                                     \* \UHHHHHHHH: a code point
    THEN IF AllHex(t, j + 1, 8)
         THEN IF t[j + 1] = 48 /\ t[j + 2] = 48       \* else above 0xFFFFFF (and 32-bit overflow)
              THEN LET cp == HexNum(t, j + 3, 6)
                   IN IF IsScalar(cp) THEN Done(EncodeUTF8(cp), j + 9) ELSE FailU
              ELSE FailU
         ELSE Fail
    ELSE IF c = 94 \/ c = 99                           \* \^X, \cX: caret notation
    THEN IF j + 1 <= Len(t)
         THEN LET x == t[j + 1]
              IN IF x >= 64 /\ x <= 95 THEN Done(<<x - 64>>, j + 2)
                 ELSE IF x = 63 THEN Done(<<127>>, j + 2) ELSE Fail
         ELSE Fail
    ELSE Fail

\* Double-quoted body from index i (after the opening quote).
RECURSIVE DQBody(_, _, _)
DQBody(t, i, acc) ==
  IF i > Len(t) THEN Fail
  ELSE IF t[i] = 34 THEN Done(acc, i + 1)
  ELSE IF t[i] # 92 THEN DQBody(t, i + 1, Append(acc, t[i]))
  ELSE LET e == Escape(t, i + 1)
       IN IF e.ok THEN DQBody(t, e.next, acc \o e.v) ELSE e

Whole(t, r) == IF r.ok THEN (IF r.next = Len(t) + 1 THEN Str(r.v) ELSE Invalid)
               ELSE (IF r.u THEN Unspec ELSE Invalid)

Kind(t) == IF t = <<>> THEN "none"
           ELSE IF t[1] = 39 THEN "single" ELSE IF t[1] = 34 THEN "double" ELSE "bare"

Denote(ctx, t, P) ==
  IF t = <<>> THEN Invalid
  ELSE IF ~ValidUTF8(t) THEN Unspec                \* "source code must be UTF-8": no behaviour stated
  ELSE IF ctx = "var" /\ t[1] = 64 THEN Unspec     \* `$@name` explodes; what "the name" is then is open
  ELSE IF t[1] = 39 THEN Whole(t, SQBody(t, 2, <<>>))
  ELSE IF t[1] = 34 THEN Whole(t, DQBody(t, 2, <<>>))
  ELSE IF BarewordOK(ctx, t, P) THEN Str(t) ELSE Invalid

Has(t, b) == \E i \in 1..Len(t) : t[i] = b
ResolutionUnspecified(name, ctx, special) ==
  /\ ctx \in {"cmd", "var"}
  /\ \/ Has(name, 58)
     \/ (IF name = <<>> THEN FALSE ELSE name[1] = 64)
     \/ (ctx = "cmd" /\ special)

(* ------------------------------ code-shaped quoting ------------------------------ *)
HexDigit(d) == IF d <= 9 THEN 48 + d ELSE 87 + d
RECURSIVE HexText(_, _)
HexText(n, w) == IF w = 0 THEN <<>> ELSE Append(HexText(n \div 16, w - 1), HexDigit(n % 16))

\* characters with a one-letter escape (inverse of Simple)
Unesc == [c \in {7, 8, 9, 10, 11, 12, 13, 27, 34, 92} |->
           CASE c = 7 -> 97 [] c = 8 -> 98 [] c = 9 -> 116 [] c = 10 -> 110 [] c = 11 -> 118
             [] c = 12 -> 102 [] c = 13 -> 114 [] c = 27 -> 101 [] c = 34 -> 34 [] c = 92 -> 92]

NeedsDouble(s, P) ==
  LET us == Units(s) IN \E k \in 1..Len(us) : us[k].cp = -1 \/ us[k].cp = 65533 \/ ~Printable(us[k].cp, P)

RECURSIVE QSBody(_, _)
QSBody(s, i) == IF i > Len(s) THEN <<>>
                ELSE (IF s[i] = 39 THEN <<39, 39>> ELSE <<s[i]>>) \o QSBody(s, i + 1)
QuoteSingle(s) == <<39>> \o QSBody(s, 1) \o <<39>>

RECURSIVE QDBody(_, _, _)
QDBody(s, i, P) ==
  IF i > Len(s) THEN <<>>
  ELSE LET un == UnitAt(s, i)
           piece == IF un.cp = -1 THEN <<92, 120>> \o HexText(s[i], 2)
                    ELSE IF un.cp \in DOMAIN Unesc THEN <<92, Unesc[un.cp]>>
                    ELSE IF Printable(un.cp, P) /\ un.cp # 65533 THEN SubSeq(s, i, i + un.n - 1)
                    ELSE IF un.cp <= 127 THEN <<92, 120>> \o HexText(un.cp, 2)
                    ELSE IF un.cp <= 65535 THEN <<92, 117>> \o HexText(un.cp, 4)
                    ELSE <<92, 85>> \o HexText(un.cp, 8)
       IN piece \o QDBody(s, i + un.n, P)
QuoteDouble(s, P) == <<34>> \o QDBody(s, 1, P) \o <<34>>

\* qctx: "strict" (Quote, QuoteAs), "cmd" (QuoteCommandName), "var" (QuoteVariableName)
\* pref: "bare" | "single" | "double"  (always "bare" for "cmd" and "var")
QuoteModel(s, qctx, pref, P) ==
  IF qctx = "var"
  THEN IF s = <<>> THEN <<39, 39>>
       ELSE IF NeedsDouble(s, P) THEN QuoteDouble(s, P)
       ELSE IF AllBare("var", s, P) THEN s ELSE QuoteSingle(s)
  ELSE IF pref = "double" THEN QuoteDouble(s, P)
  ELSE IF s = <<>> THEN <<39, 39>>
  ELSE IF NeedsDouble(s, P) THEN QuoteDouble(s, P)
  ELSE IF pref = "bare" /\ s[1] # 126 /\ AllBare(qctx, s, P) THEN s
  ELSE QuoteSingle(s)

\* "the quoting style is the preferred one unless the string forces a stronger one"
Rank(k) == CASE k = "bare" -> 0 [] k = "single" -> 1 [] k = "double" -> 2 [] OTHER -> 3
=============================================================================
