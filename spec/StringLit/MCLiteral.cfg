CONSTANT Family = 1
CONSTANT MaxTok = 2
INIT Init
NEXT Next
INVARIANT Sane
INVARIANT Emit
