CONSTANT MaxLen = 2
INIT Init
NEXT Next
INVARIANT Theorem
