----------------------------- MODULE JudgeQuote -----------------------------
(* V for C03: one TLC state per recorded case.  A case is a string s, a text q that REAL quoting
   functions produced for it, and what the REAL parser / Evaler made of q in every context those
   functions are meant for:
     s, q        the string and the quoted text (bytes)
     by          the functions that returned q for s: [api, pref, kind] with api one of parse.Quote,
                 QuoteAs (pref = the preferred PrimaryType), QuoteCommandName, QuoteVariableName;
                 kind = the PrimaryType QuoteAs reported ("" for the other functions)
     pr          the non-ASCII code points of s and q that unicode.IsPrint accepts (trusted data)
     special     s is the name of a special command (eval.IsBuiltinSpecial; trusted data)
     obs         per context ("arg" `put <q>`, "key" `keys [&<q>=v]` for Quote/QuoteAs, "cmd" `<q>` for
                 QuoteCommandName, "var" `put $<q>` for QuoteVariableName):
        perr     the real parser reported an error for the program
        single   the slot holds exactly one word, consisting of one string-literal Primary (for
                 "var": one Variable Primary), spanning exactly the text, nothing else in the program
        val      Primary.Value of that word
        evc, ev  class of the evaluation error ("" none) and the strings the evaluation yielded:
                 arg: the values put; key: the keys of the map; cmd: the name under which the
                 called function had been registered (functions registered: s and decoys);
                 var: the name under which the variable read had been registered
   Accepted iff, for every context,
     spec   Denote(ctx, q) = s          -- by the reference's lexical rules, not by the parser
     parse  ~perr /\ single /\ val = s
     eval   evc = "" /\ ev = <<s>>      -- unless EvalUnspecified
   and
     kind   every reported kind is the kind of the text.
   EvalUnspecified: how a command head / variable name is *resolved* is not the subject of the
   property: names containing `:` (namespace-qualified), starting with `@` (explode sigil) or, in
   command position, naming a special command are judged at spec and parse level only. *)
EXTENDS StringLit, TLC, Json
Cases == ndJsonDeserialize("cases.ndjson")
VARIABLE k
Init == k = 0
Next == k < Len(Cases) /\ k' = k + 1

EvalUnspecified(s, ctx, special) == ResolutionUnspecified(s, ctx, special)

WhyObs(c, o, P, dq) ==
  \* the denotation of a quoted text does not depend on the context: computed once (dq)
  LET d == IF Kind(c.q) = "bare" THEN Denote(o.ctx, c.q, P) ELSE dq
  IN IF ~(d.ok /\ d.v = c.s) THEN "spec"
     ELSE IF o.perr \/ ~o.single \/ o.val # c.s THEN "parse"
     ELSE IF ~EvalUnspecified(c.s, o.ctx, c.special) /\ ~(o.evc = "" /\ o.ev = <<c.s>>) THEN "eval"
     ELSE "ok"

Why(c) ==
  LET P  == {c.pr[i] : i \in 1..Len(c.pr)}
      dq == IF Kind(c.q) = "bare" THEN Invalid ELSE Denote("arg", c.q, P)
      bad == {i \in 1..Len(c.obs) : WhyObs(c, c.obs[i], P, dq) # "ok"}
  IN IF bad # {} THEN LET i == CHOOSE i \in bad : \A j \in bad : i <= j
                      IN <<WhyObs(c, c.obs[i], P, dq), c.obs[i].ctx>>
     ELSE IF \E i \in 1..Len(c.by) : c.by[i].kind # "" /\ c.by[i].kind # Kind(c.q) THEN <<"kind", "">>
     ELSE <<"ok", "">>
Inv == k = 0 \/ Why(Cases[k])[1] = "ok" \/ PrintT(<<"BAD", k, Why(Cases[k])[1], Why(Cases[k])[2]>>)
=============================================================================
