----------------------------- MODULE JudgeQuote -----------------------------
(* V for C03: one TLC state per recorded case.  A case is what the REAL quoting function produced
   for a string and what the REAL parser / Evaler made of that text:
     api, pref   parse.Quote | QuoteAs(pref) | QuoteCommandName | QuoteVariableName
     ctx         where the text was used: "arg" `put <q>`, "key" `keys [&<q>=v]`, "cmd" `<q>`,
                 "var" `put $<q>`
     s, q        the string and the quoted text (bytes)
     kind        the PrimaryType QuoteAs reported ("" for the other functions)
     pr          the non-ASCII code points of s and q that unicode.IsPrint accepts (trusted data)
     perr        the real parser reported an error for the program
     single      the slot holds exactly one word, consisting of one string-literal Primary (for
                 "var": one Variable Primary), spanning exactly the text, nothing else in the program
     val         Primary.Value of that word
     evc, ev     class of the evaluation error ("" none) and the strings the evaluation yielded:
                 arg: the values put; key: the keys of the map; cmd: the name under which the
                 called function had been registered (functions registered: s and decoys);
                 var: the name under which the variable read had been registered
     special     s is the name of a special command (eval.IsBuiltinSpecial; trusted data)
   Accepted iff
     spec   Denote(ctx, q) = s          -- by the reference's lexical rules, not by the parser
     parse  ~perr /\ single /\ val = s
     eval   evc = "" /\ ev = <<s>>      -- unless EvalUnspecified
     kind   the reported kind is the kind of the text
   EvalUnspecified: how a command head / variable name is *resolved* is not the subject of the
   property: names containing `:` (namespace-qualified), starting with `@` (explode sigil) or, in
   command position, naming a special command or being empty are judged at spec and parse level only. *)
EXTENDS StringLit, TLC, Json
Cases == ndJsonDeserialize("cases.ndjson")
VARIABLE k
Init == k = 0
Next == k < Len(Cases) /\ k' = k + 1

Has(t, b) == \E i \in 1..Len(t) : t[i] = b
EvalUnspecified(c) ==
  /\ c.ctx \in {"cmd", "var"}
  /\ \/ Has(c.s, 58)
     \/ (IF c.s = <<>> THEN FALSE ELSE c.s[1] = 64)
     \/ (c.ctx = "cmd" /\ (c.special \/ c.s = <<>>))

Why(c) ==
  LET P == {c.pr[i] : i \in 1..Len(c.pr)}
      d == Denote(c.ctx, c.q, P)
  IN IF ~(d.ok /\ d.v = c.s) THEN "spec"
     ELSE IF c.perr \/ ~c.single \/ c.val # c.s THEN "parse"
     ELSE IF ~EvalUnspecified(c) /\ ~(c.evc = "" /\ c.ev = <<c.s>>) THEN "eval"
     ELSE IF c.kind # "" /\ c.kind # Kind(c.q) THEN "kind"
     ELSE "ok"
Inv == k = 0 \/ Why(Cases[k]) = "ok" \/ PrintT(<<"BAD", k, Why(Cases[k])>>)
=============================================================================
