----------------------------- MODULE MCLiteral -----------------------------
(* G for C03: TLC enumerates literal texts and prints, for every context, what the reference
   prescribes (Denote of StringLit); the executor gives each text to the REAL parser and Evaler.
   A text is grown token by token (tokens are short byte sequences, so that deep escapes such as
   \U0010ffff are reached with few steps); every reachable text is a case, as it stands and with
   the closing quote of its family appended.
     Family 1  double-quoted: one-letter, octal, \x and caret escapes
     Family 2  double-quoted: \u and \U escapes (scalar values, surrogates, out of range)
     Family 3  barewords and metacharacters in the four contexts (also tilde, quotes inside words)
     Family 4  single-quoted
   The printability table PM covers the non-ASCII code points of the tokens (the executor checks
   it against unicode.IsPrint before use). *)
EXTENDS StringLit, TLC, Json
CONSTANTS Family, MaxTok
VARIABLE t

B(x) == <<x>>
Tokens ==
  CASE Family = 1 -> { B(34), B(92), <<92, 120>>, <<92, 94>>, <<92, 99>>, B(110), B(101), B(48), <<48, 48>>, <<51, 55>>,
                       B(55), B(56), <<52, 102>>, <<102, 70>>, B(103), B(63), B(64), B(95), B(96), B(97), B(39) }
         \* " \ \x \^ \c n e 0 00 37 7 8 4f fF g ? @ _ ` a '
    [] Family = 2 -> { <<92, 117>>, <<92, 85>>, <<48, 48>>, <<49, 48>>, <<49, 49>>, <<100, 56>>, <<101, 57>>,
                       <<102, 102>>, <<55, 70>>, <<48, 103>>, B(48) }
         \* \u \U 00 10 11 d8 e9 ff 7F 0g 0
    [] Family = 3 -> { B(97), B(126), B(61), B(44), B(60), B(62), B(42), B(94), B(63), B(64), B(58), B(36), B(39),
                       B(34), B(92), B(35), B(38), B(32), B(40), B(123), B(91), <<195, 169>>, <<194, 133>>,
                       B(37), B(45), B(124), B(59), B(46), B(47), B(255) }
         \* a ~ = , < > * ^ ? @ : $ ' " \ # & space ( { [ e-acute NEL % - | ; . / 0xFF
    [] Family = 4 -> { B(39), B(97), B(34), B(92), B(36), B(10), <<195, 169>>, B(32), B(126) }
         \* ' a " \ $ LF e-acute space ~
Start  == CASE Family \in {1, 2} -> <<34>> [] Family = 3 -> <<>> [] Family = 4 -> <<39>>
Closer == CASE Family \in {1, 2} -> <<34>> [] Family = 3 -> <<>> [] Family = 4 -> <<39>>
Ctxs   == IF Family = 3 THEN {"arg", "key", "cmd", "var"} ELSE {"arg", "var"}
PM == {233}

\* the number of tokens is tracked by the depth of the search: TLCGet("level") is 1 in the initial state
Init == t = Start
Next == TLCGet("level") <= MaxTok /\ \E tok \in Tokens : t' = t \o tok

Texts == IF Closer = <<>> THEN {t} ELSE {t, t \o Closer}
Case(x, ctx) == LET d == Denote(ctx, x, PM)
                IN [t |-> x, ctx |-> ctx, ok |-> d.ok, v |-> d.v, u |-> d.u,
                    evu |-> IF d.ok THEN ResolutionUnspecified(d.v, ctx, FALSE) ELSE FALSE]
Emit == \A x \in Texts : \A ctx \in Ctxs : PrintT(ToJson(Case(x, ctx)))

\* consistency of the reference itself: a denoted value is never "unspecified"; quoted literals
\* denote the same in every context
Sane == \A x \in Texts :
          /\ \A ctx \in Ctxs : LET d == Denote(ctx, x, PM) IN ~(d.ok /\ d.u)
          /\ Kind(x) \in {"single", "double"} => \A c1, c2 \in Ctxs : Denote(c1, x, PM) = Denote(c2, x, PM)
=============================================================================
