------------------------------ MODULE CodeBuffer ------------------------------
(* C28 -- the editor's code buffer (tk.CodeBuffer: Content, Dot) under the buffer builtins of
   pkg/edit/buffer_builtins.go (documented in buffer_builtins.d.elv).

   A buffer is a sequence of TOKENS, one per rune:  [r |-> code point, c |-> category, w |-> width]
     c in {"alnum", "punct", "space", "newline"}   (unicode.IsSpace / IsLetter|IsNumber / else; the
                                                    newline is the space that ends a line)
     w in 0..2                                      (column width, wcwidth.OfRune)
   c and w are DATA (Unicode tables) attached by the executor.  The dot is a RUNE index 0..Len(buf):
   the executor's projection of the real byte offset fails when the offset is not on a rune
   boundary, which is itself the violation of "on a character boundary".

   Word flavours (FCat: 0 = separator): word = maximal run of non-space; small word = maximal run
   of alnum or of punct; alnum word = maximal run of alnum (everything else separates).

   Movers (Targets(m, b, d) = set of allowed new dots):
     left right           one rune; nothing at the buffer's edge
     sol eol              start / end of the current line
     up down              a position of the previous / next line whose display column is as close
                          as possible to the dot's column ("trying to preserve the visual horizontal
                          position"; ties and zero-width neighbours are left open); nothing on the
                          first / last line
     left-F-word          the start of the last F-word that starts left of the dot
     right-F-word         the start of the first F-word that starts right of the dot
   Actions: move-dot-M = move; kill-M = delete exactly the tokens between the dot and a target of
   M, dot at the left end; transpose-rune, transpose-F-word = a permutation of the tokens, and in
   the cases the documentation describes exactly that swap.

   Unspecified (listed; any valid dot / any permutation accepted):
     NoWordLeft / NoWordRight   a word motion with no word start on that side
     transpose-F-word with the dot strictly inside a word, or with no word on one side of an
       interior dot, or fewer than two words: only "permutation" is required
     the dot after any transpose: only validity is required
   Properties: DotValid, KillExact, TransposeIsPermutation, WordMotionLandsOnWordStart (all are
   consequences of Allowed, checked on every real outcome), and the design theorem that the
   code-shaped transcription Impl* (skipWs/skipSameCat, wcwidth.Trim) is Allowed (MCCodeBuffer). *)
EXTENDS Integers, Sequences, FiniteSets

Min2(a, b) == IF a < b THEN a ELSE b
Max2(a, b) == IF a > b THEN a ELSE b
Abs(x) == IF x < 0 THEN -x ELSE x

Runes(b) == [i \in 1..Len(b) |-> b[i].r]
Delete(b, i, j) == SubSeq(b, 1, i) \o SubSeq(b, j + 1, Len(b))   \* remove the tokens between dots i and j
RECURSIVE Wsum(_, _, _)
Wsum(b, i, j) == IF i >= j THEN 0 ELSE b[j].w + Wsum(b, i, j - 1)  \* width of the tokens between dots i and j
Count(b, x) == Cardinality({i \in 1..Len(b) : b[i] = x})
IsPerm(a, b) == Len(a) = Len(b) /\ \A i \in 1..Len(a) : Count(a, a[i]) = Count(b, a[i])

IsSp(t) == t.c \in {"space", "newline"}
FCat(f, t) == CASE f = "word"  -> IF IsSp(t) THEN 0 ELSE 1
                [] f = "small" -> IF IsSp(t) THEN 0 ELSE IF t.c = "alnum" THEN 1 ELSE 2
                [] f = "alnum" -> IF t.c = "alnum" THEN 1 ELSE 0
Flavors == {"word", "small", "alnum"}

(* word boundaries of flavour f, by scanning.  A word start is a dot p with a word token right
   of it and a token of another category (or nothing) left of it; symmetrically a word end. *)
IsStart(f, b, p) == p >= 0 /\ p < Len(b) /\ FCat(f, b[p + 1]) # 0 /\ (IF p = 0 THEN TRUE ELSE FCat(f, b[p]) # FCat(f, b[p + 1]))
IsEnd(f, b, p)   == p >= 1 /\ p <= Len(b) /\ FCat(f, b[p]) # 0 /\ (IF p = Len(b) THEN TRUE ELSE FCat(f, b[p + 1]) # FCat(f, b[p]))
RECURSIVE PrevStart(_, _, _), NextStart(_, _, _), PrevEnd(_, _, _), NextEnd(_, _, _)
PrevStart(f, b, p) == IF p < 0 THEN -1 ELSE IF IsStart(f, b, p) THEN p ELSE PrevStart(f, b, p - 1)   \* largest start <= p
NextStart(f, b, p) == IF p >= Len(b) THEN -1 ELSE IF IsStart(f, b, p) THEN p ELSE NextStart(f, b, p + 1) \* smallest start >= p
PrevEnd(f, b, p)   == IF p < 1 THEN -1 ELSE IF IsEnd(f, b, p) THEN p ELSE PrevEnd(f, b, p - 1)         \* largest end <= p
NextEnd(f, b, p)   == IF p > Len(b) THEN -1 ELSE IF IsEnd(f, b, p) THEN p ELSE NextEnd(f, b, p + 1)     \* smallest end >= p
WordStarts(f, b) == {p \in 0..(Len(b) - 1) : IsStart(f, b, p)}

RECURSIVE SOL(_, _), EOL(_, _)
SOL(b, d) == IF d = 0 THEN 0 ELSE IF b[d].c = "newline" THEN d ELSE SOL(b, d - 1)          \* dot after the last newline left of d
EOL(b, d) == IF d = Len(b) THEN d ELSE IF b[d + 1].c = "newline" THEN d ELSE EOL(b, d + 1) \* dot before the first newline right of d
AnyDot(b) == 0..Len(b)

NoWordLeft(f, b, d)  == PrevStart(f, b, d - 1) = -1
NoWordRight(f, b, d) == NextStart(f, b, d + 1) = -1

(* positions of the line [ls, le] whose column is closest to col *)
Closest(b, ls, le, col) ==
  {p \in ls..le : \A q \in ls..le : Abs(Wsum(b, ls, p) - col) <= Abs(Wsum(b, ls, q) - col)}

FlavorOf(m) == CASE m \in {"left-word", "right-word"} -> "word"
                 [] m \in {"left-small-word", "right-small-word"} -> "small"
                 [] m \in {"left-alnum-word", "right-alnum-word"} -> "alnum"
Movers == {"left", "right", "left-word", "right-word", "left-small-word", "right-small-word",
           "left-alnum-word", "right-alnum-word", "sol", "eol", "up", "down"}

Targets(m, b, d) ==
  CASE m = "left"  -> {Max2(d - 1, 0)}
    [] m = "right" -> {Min2(d + 1, Len(b))}
    [] m = "sol"   -> {SOL(b, d)}
    [] m = "eol"   -> {EOL(b, d)}
    [] m = "up"    -> LET sol == SOL(b, d) IN
                      IF sol = 0 THEN {d}
                      ELSE Closest(b, SOL(b, sol - 1), sol - 1, Wsum(b, sol, d))
    [] m = "down"  -> LET eol == EOL(b, d) IN
                      IF eol = Len(b) THEN {d}
                      ELSE Closest(b, eol + 1, EOL(b, eol + 1), Wsum(b, SOL(b, d), d))
    [] m \in {"left-word", "left-small-word", "left-alnum-word"} ->
                      LET f == FlavorOf(m) IN
                      IF NoWordLeft(f, b, d) THEN AnyDot(b) ELSE {PrevStart(f, b, d - 1)}
    [] m \in {"right-word", "right-small-word", "right-alnum-word"} ->
                      LET f == FlavorOf(m) IN
                      IF NoWordRight(f, b, d) THEN AnyDot(b) ELSE {NextStart(f, b, d + 1)}

UnspecifiedMove(m, b, d) ==
  \/ m \in {"left-word", "left-small-word", "left-alnum-word"} /\ NoWordLeft(FlavorOf(m), b, d)
  \/ m \in {"right-word", "right-small-word", "right-alnum-word"} /\ NoWordRight(FlavorOf(m), b, d)

Kill(b, d, m) == [buf |-> Delete(b, Min2(d, m), Max2(d, m)), dot |-> Min2(d, m)]

(* ---- transposition *)
Swap(b, l, r) == SubSeq(b, 1, l.s) \o SubSeq(b, r.s + 1, r.e) \o SubSeq(b, l.e + 1, r.s)
                 \o SubSeq(b, l.s + 1, l.e) \o SubSeq(b, r.e + 1, Len(b))
One(p) == [s |-> p - 1, e |-> p]            \* the rune before dot p, as an interval
(* [exact |-> the documentation fixes the content, buf |-> that content] *)
TransposeRune(b, d) ==
  IF Len(b) < 2 THEN [exact |-> TRUE, buf |-> b]
  ELSE LET p == IF d = 0 THEN 1 ELSE IF d = Len(b) THEN Len(b) - 1 ELSE d
       IN [exact |-> TRUE, buf |-> Swap(b, One(p), One(p + 1))]
Iv(s, e) == [s |-> s, e |-> e]
TransposeWord(f, b, d) ==
  LET s1 == NextStart(f, b, 0)                       \* first word [s1, e1], second [s2, e2]
      e1 == NextEnd(f, b, s1 + 1)
      s2 == IF s1 = -1 THEN -1 ELSE NextStart(f, b, e1)
  IN
  IF s1 = -1 \/ s2 = -1 THEN [exact |-> FALSE, buf |-> b]          \* fewer than two words
  ELSE IF d = 0 THEN [exact |-> TRUE, buf |-> Swap(b, Iv(s1, e1), Iv(s2, NextEnd(f, b, s2 + 1)))]
  ELSE IF d = Len(b)
       THEN LET ez == PrevEnd(f, b, Len(b))           \* last word [sz, ez], the one before [sy, ey]
                sz == PrevStart(f, b, ez - 1)
                ey == PrevEnd(f, b, sz)
                sy == PrevStart(f, b, ey - 1)
            IN [exact |-> TRUE, buf |-> Swap(b, Iv(sy, ey), Iv(sz, ez))]
  ELSE LET inside == FCat(f, b[d]) # 0 /\ FCat(f, b[d]) = FCat(f, b[d + 1])
           le == PrevEnd(f, b, d)                     \* the word ending at or left of the dot
           rs == NextStart(f, b, d)                   \* the word starting at or right of the dot
       IN IF inside \/ le = -1 \/ rs = -1 THEN [exact |-> FALSE, buf |-> b]
          ELSE [exact |-> TRUE, buf |-> Swap(b, Iv(PrevStart(f, b, le - 1), le), Iv(rs, NextEnd(f, b, rs + 1)))]
Transpose(a, b, d) == CASE a = "transpose-rune" -> TransposeRune(b, d)
                        [] a = "transpose-word" -> TransposeWord("word", b, d)
                        [] a = "transpose-small-word" -> TransposeWord("small", b, d)
                        [] a = "transpose-alnum-word" -> TransposeWord("alnum", b, d)

(* ---- the builtins *)
MoveActs == {"move-dot-left", "move-dot-right", "move-dot-left-word", "move-dot-right-word",
             "move-dot-left-small-word", "move-dot-right-small-word", "move-dot-left-alnum-word",
             "move-dot-right-alnum-word", "move-dot-sol", "move-dot-eol", "move-dot-up", "move-dot-down"}
KillActs == {"kill-rune-left", "kill-rune-right", "kill-word-left", "kill-word-right",
             "kill-small-word-left", "kill-small-word-right", "kill-alnum-word-left",
             "kill-alnum-word-right", "kill-line-left", "kill-line-right"}
TransActs == {"transpose-rune", "transpose-word", "transpose-small-word", "transpose-alnum-word"}
Builtins == MoveActs \cup KillActs \cup TransActs
MoverOf(a) ==
  CASE a = "move-dot-left" -> "left" [] a = "move-dot-right" -> "right"
    [] a = "move-dot-left-word" -> "left-word" [] a = "move-dot-right-word" -> "right-word"
    [] a = "move-dot-left-small-word" -> "left-small-word" [] a = "move-dot-right-small-word" -> "right-small-word"
    [] a = "move-dot-left-alnum-word" -> "left-alnum-word" [] a = "move-dot-right-alnum-word" -> "right-alnum-word"
    [] a = "move-dot-sol" -> "sol" [] a = "move-dot-eol" -> "eol"
    [] a = "move-dot-up" -> "up" [] a = "move-dot-down" -> "down"
    [] a = "kill-rune-left" -> "left" [] a = "kill-rune-right" -> "right"
    [] a = "kill-word-left" -> "left-word" [] a = "kill-word-right" -> "right-word"
    [] a = "kill-small-word-left" -> "left-small-word" [] a = "kill-small-word-right" -> "right-small-word"
    [] a = "kill-alnum-word-left" -> "left-alnum-word" [] a = "kill-alnum-word-right" -> "right-alnum-word"
    [] a = "kill-line-left" -> "sol" [] a = "kill-line-right" -> "eol"

(* the relation every real outcome (b2, d2) of builtin a on (b, d) must satisfy *)
Allowed(a, b, d, b2, d2) ==
  IF a \in MoveActs THEN b2 = b /\ d2 \in Targets(MoverOf(a), b, d)
  ELSE IF a \in KillActs THEN \E m \in Targets(MoverOf(a), b, d) : Kill(b, d, m) = [buf |-> b2, dot |-> d2]
  ELSE LET t == Transpose(a, b, d) IN
       /\ d2 \in 0..Len(b2)
       /\ IF t.exact THEN b2 = t.buf ELSE IsPerm(b2, b)
(* kill-X against the REAL move-dot-X on the same state (m = the dot it produced) *)
KillRel(b, d, m, b2, d2) == m \in 0..Len(b) /\ Kill(b, d, m) = [buf |-> b2, dot |-> d2]

(* enumerable prescription for generation: the set of allowed (buf, dot) when it is finite by
   construction; transposes whose content is only "a permutation" are judged on the real outcome *)
Enumerable(a, b, d) == a \notin TransActs \/ Transpose(a, b, d).exact
Outcomes(a, b, d) ==
  IF a \in MoveActs THEN {[buf |-> b, dot |-> m] : m \in Targets(MoverOf(a), b, d)}
  ELSE IF a \in KillActs THEN {Kill(b, d, m) : m \in Targets(MoverOf(a), b, d)}
  ELSE LET t == Transpose(a, b, d) IN {[buf |-> t.buf, dot |-> m] : m \in 0..Len(t.buf)}

(* ---- consequences named in the property statement *)
DotValid(b2, d2) == d2 \in 0..Len(b2)
KillExact(a, b, d, b2, d2) == a \in KillActs => \E m \in 0..Len(b) : Kill(b, d, m) = [buf |-> b2, dot |-> d2]
TransposeIsPermutation(a, b, b2) == a \in TransActs => IsPerm(b2, b)
WordMotionLandsOnWordStart(a, b, d, d2) ==
  (a \in MoveActs /\ MoverOf(a) \notin {"left", "right", "sol", "eol", "up", "down"} /\ ~UnspecifiedMove(MoverOf(a), b, d))
     => IsStart(FlavorOf(MoverOf(a)), b, d2)
Consequences(a, b, d, b2, d2) ==
  Allowed(a, b, d, b2, d2) => /\ DotValid(b2, d2) /\ KillExact(a, b, d, b2, d2)
                              /\ TransposeIsPermutation(a, b, b2) /\ WordMotionLandsOnWordStart(a, b, d, d2)

(* ---- code-shaped transcription (buffer_builtins.go), for the design theorem *)
RECURSIVE SkipCatLeft(_, _, _, _), SkipCatRight(_, _, _, _), TrimScan(_, _, _, _, _)
SkipCatLeft(f, cat, b, pos)  == IF pos = 0 THEN 0 ELSE IF FCat(f, b[pos]) = cat THEN SkipCatLeft(f, cat, b, pos - 1) ELSE pos
SkipCatRight(f, cat, b, pos) == IF pos = Len(b) THEN pos ELSE IF FCat(f, b[pos + 1]) = cat THEN SkipCatRight(f, cat, b, pos + 1) ELSE pos
SkipSameLeft(f, b, pos)  == IF pos = 0 THEN 0 ELSE SkipCatLeft(f, FCat(f, b[pos]), b, pos)
SkipSameRight(f, b, pos) == IF pos = Len(b) THEN pos ELSE SkipCatRight(f, FCat(f, b[pos + 1]), b, pos)
(* wcwidth.Trim on the line [ls, le]: stop before the first rune that makes the width exceed wmax *)
TrimScan(b, p, le, w, wmax) == IF p = le THEN le ELSE IF w + b[p + 1].w > wmax THEN p ELSE TrimScan(b, p + 1, le, w + b[p + 1].w, wmax)
Trim(b, ls, le, wmax) == TrimScan(b, ls, le, 0, wmax)
ImplMove(m, b, d) ==
  CASE m = "left" -> Max2(d - 1, 0) [] m = "right" -> Min2(d + 1, Len(b))
    [] m = "sol" -> SOL(b, d) [] m = "eol" -> EOL(b, d)
    [] m = "up" -> LET sol == SOL(b, d) IN
                   IF sol = 0 THEN d ELSE Trim(b, SOL(b, sol - 1), sol - 1, Wsum(b, sol, d))
    [] m = "down" -> LET eol == EOL(b, d) IN
                   IF eol = Len(b) THEN d ELSE Trim(b, eol + 1, EOL(b, eol + 1), Wsum(b, SOL(b, d), d))
    [] m \in {"left-word", "left-small-word", "left-alnum-word"} ->
                   LET f == FlavorOf(m) IN SkipSameLeft(f, b, SkipCatLeft(f, 0, b, d))
    [] m \in {"right-word", "right-small-word", "right-alnum-word"} ->
                   LET f == FlavorOf(m)
                       p == SkipCatRight(f, 0, b, d)
                   IN IF p > d THEN p ELSE SkipCatRight(f, 0, b, SkipSameRight(f, b, p))
ImplTransposeWord(f, b, d) ==
  IF \A i \in 1..Len(b) : FCat(f, b[i]) = 0 THEN [buf |-> b, dot |-> d]
  ELSE LET pos == SkipCatRight(f, 0, b, d)
           re0 == IF pos = Len(b) THEN SkipCatLeft(f, 0, b, pos) ELSE SkipSameRight(f, b, pos)
           rs0 == SkipSameLeft(f, b, re0)
           le0 == SkipCatLeft(f, 0, b, rs0)
       IN IF le0 = 0
          THEN LET rs1 == SkipCatRight(f, 0, b, re0) IN
               IF rs1 = Len(b) THEN [buf |-> b, dot |-> d]
               ELSE LET re1 == SkipSameRight(f, b, rs1) IN
                    [buf |-> Swap(b, [s |-> rs0, e |-> re0], [s |-> rs1, e |-> re1]), dot |-> re1]
          ELSE [buf |-> Swap(b, [s |-> SkipSameLeft(f, b, le0), e |-> le0], [s |-> rs0, e |-> re0]), dot |-> re0]
ImplTransposeRune(b, d) ==
  IF Len(b) < 2 THEN [buf |-> b, dot |-> d]
  ELSE IF d = 0 THEN [buf |-> Swap(b, One(1), One(2)), dot |-> 2]
  ELSE IF d = Len(b) THEN [buf |-> Swap(b, One(d - 1), One(d)), dot |-> d]
  ELSE [buf |-> Swap(b, One(d), One(d + 1)), dot |-> d + 1]
Impl(a, b, d) ==
  IF a \in MoveActs THEN [buf |-> b, dot |-> ImplMove(MoverOf(a), b, d)]
  ELSE IF a \in KillActs THEN Kill(b, d, ImplMove(MoverOf(a), b, d))
  ELSE CASE a = "transpose-rune" -> ImplTransposeRune(b, d)
         [] a = "transpose-word" -> ImplTransposeWord("word", b, d)
         [] a = "transpose-small-word" -> ImplTransposeWord("small", b, d)
         [] a = "transpose-alnum-word" -> ImplTransposeWord("alnum", b, d)
=============================================================================
