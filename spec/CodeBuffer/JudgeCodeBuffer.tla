--------------------------- MODULE JudgeCodeBuffer ---------------------------
(* Case walker for the G cases of C28 whose allowed outcomes are not enumerable: transposes for
   which the documentation fixes no particular swap.  A case is [b, d, b2, d2] (buffers as rune
   lists): the real outcome must be a permutation of the buffer with a valid dot. *)
EXTENDS CodeBuffer, TLC, Json
Cases == ndJsonDeserialize("cases.ndjson")
VARIABLE k
Init == k = 0
Next == k < Len(Cases) /\ k' = k + 1
CaseOK(c) == c.d2 \in 0..Len(c.b2) /\ IsPerm(c.b2, c.b)
Inv == k = 0 \/ CaseOK(Cases[k]) \/ PrintT(<<"BAD", k, Cases[k].a>>)
=============================================================================
