CONSTANT L = 4
SPECIFICATION Spec
VIEW View
INVARIANT DotOK
INVARIANT InsConsistent
PROPERTY DesignTheorem
ACTION_CONSTRAINT EmitT
