---------------------------- MODULE MCCodeBuffer ----------------------------
(* Exhaustive small scope for the buffer builtins of C28 + generator.
   Every state is one (buffer, dot): all buffers of length <= N over six token kinds
       1 letter (alnum, w1)   2 punct (punct, w1)   3 space (space, w1)   4 newline (newline, w0)
       5 wide (alnum, w2)     6 combining (punct, w0)
   with a position-dependent real code point per kind (so that swapped/deleted runes are told
   apart) and every dot 0..Len.  For all 26 builtins TLC checks
     DesignTheorem   the code-shaped transcription Impl is Allowed by the documented rule
     Consequences    Allowed implies DotValid / KillExact / TransposeIsPermutation /
                     WordMotionLandsOnWordStart (on the Impl outcome and on every enumerated outcome)
   and prints the case with, per builtin, the enumerable set of allowed outcomes (or enum = FALSE:
   "any permutation, any valid dot", judged on the real outcome by JudgeCodeBuffer). *)
EXTENDS CodeBuffer, TLC, Json
CONSTANT N
VARIABLES b, d
Kinds == 1..6
CatOf == <<"alnum", "punct", "space", "newline", "alnum", "punct">>
WidOf == <<1, 1, 1, 0, 2, 0>>
RuneTab == << <<97, 98, 99, 100, 101, 102>>,          \* a b c d e f
              <<46, 44, 59, 58, 33, 63>>,             \* . , ; : ! ?
              <<32, 32, 32, 32, 32, 32>>,
              <<10, 10, 10, 10, 10, 10>>,
              <<20320, 22909, 19990, 30028, 20154, 22825>>,   \* CJK, width 2
              <<769, 770, 771, 772, 773, 774>> >>      \* combining marks, width 0
Tok(k, i) == [r |-> RuneTab[k][i], c |-> CatOf[k], w |-> WidOf[k]]
(* states are generated as a tree (append one token, choose any dot) so that TLC's workers share
   the evaluation; every (buffer of length <= N, dot) is reached *)
Init == b = <<>> /\ d = 0
Next == /\ Len(b) < N
        /\ \E k \in Kinds : b' = Append(b, Tok(k, Len(b) + 1))
        /\ d' \in 0..(Len(b) + 1)

DesignTheorem == \A a \in Builtins : LET o == Impl(a, b, d) IN Allowed(a, b, d, o.buf, o.dot)
ConseqImpl == \A a \in Builtins : LET o == Impl(a, b, d) IN Consequences(a, b, d, o.buf, o.dot)
ConseqAll == \A a \in Builtins : Enumerable(a, b, d) =>
               \A o \in Outcomes(a, b, d) :
                  /\ Allowed(a, b, d, o.buf, o.dot)
                  /\ DotValid(o.buf, o.dot) /\ KillExact(a, b, d, o.buf, o.dot)
                  /\ TransposeIsPermutation(a, b, o.buf) /\ WordMotionLandsOnWordStart(a, b, d, o.dot)
ActSeq == <<"move-dot-left", "move-dot-right", "move-dot-left-word", "move-dot-right-word",
            "move-dot-left-small-word", "move-dot-right-small-word", "move-dot-left-alnum-word",
            "move-dot-right-alnum-word", "move-dot-sol", "move-dot-eol", "move-dot-up", "move-dot-down",
            "kill-rune-left", "kill-rune-right", "kill-word-left", "kill-word-right",
            "kill-small-word-left", "kill-small-word-right", "kill-alnum-word-left",
            "kill-alnum-word-right", "kill-line-left", "kill-line-right",
            "transpose-rune", "transpose-word", "transpose-small-word", "transpose-alnum-word">>
ASSUME ActSeqComplete == {ActSeq[i] : i \in 1..Len(ActSeq)} = Builtins
(* compact prescription per builtin: <<enum, unspec, outs>>; an outcome is <<m, dot>> \o runes.
   For kill-X the outcomes are keyed by m = the dot move-dot-X may produce on the same state: the
   executor looks up the entry of the REAL move-dot-X result, so that kill-X is compared with the
   deletion between the dot and what the real mover does (m = -1 for the other builtins). *)
Flag(x) == IF x THEN 1 ELSE 0
PrescOuts(a) ==
  IF a \in KillActs THEN {<<m, Kill(b, d, m).dot>> \o Runes(Kill(b, d, m).buf) : m \in Targets(MoverOf(a), b, d)}
  ELSE IF Enumerable(a, b, d) THEN {<<-1, o.dot>> \o Runes(o.buf) : o \in Outcomes(a, b, d)}
  ELSE {}
Presc(a) == <<Flag(Enumerable(a, b, d)),
              Flag(IF a \in TransActs THEN ~Transpose(a, b, d).exact ELSE UnspecifiedMove(MoverOf(a), b, d)),
              PrescOuts(a)>>
EmitB == PrintT(ToJson([buf |-> Runes(b), dot |-> d, acts |-> [i \in 1..Len(ActSeq) |-> Presc(ActSeq[i])]]))
=============================================================================
