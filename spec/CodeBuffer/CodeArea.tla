------------------------------ MODULE CodeArea ------------------------------
(* C28, code-area part: the documented effect of a typed key on tk.CodeArea (insert_api.d.elv,
   codearea.go), shared by the walker TraceCodeBuffer and the exhaustive model MCCodeArea.
   tabs = [sab, wab, cab]: simple / small-word / command abbreviation tables, sequences of [k, v]
   (token sequences).  See TraceCodeBuffer for the reading of the documentation. *)
EXTENDS CodeBuffer

Insert(b, d, x) == SubSeq(b, 1, d) \o x \o SubSeq(b, d + 1, Len(b))
IsSuffix(x, y) == Len(x) <= Len(y) /\ SubSeq(y, Len(y) - Len(x) + 1, Len(y)) = x
SCat(t) == FCat("small", t)
Longest(S) == CHOOSE x \in S : \A y \in S : Len(y.k) <= Len(x.k)
Entries(tab) == {tab[i] : i \in 1..Len(tab)}

(* outcome of typing t at (b, d) when i is the text typed consecutively before it *)
KeyChain(tabs, b, d, t, i) ==
  LET b1 == Insert(b, d, <<t>>)
      d1 == d + 1
      i1 == Append(i, t)
      S  == {x \in Entries(tabs.sab) : Len(x.k) > 0 /\ IsSuffix(x.k, i1)}
      W  == {x \in Entries(tabs.wab) :
               /\ Len(x.k) > 0 /\ IsSuffix(x.k, i) /\ d1 = Len(b1)
               /\ SCat(t) # SCat(x.k[Len(x.k)])
               /\ (Len(b1) > Len(x.k) + 1 => SCat(b1[Len(b1) - Len(x.k) - 1]) # SCat(x.k[1]))}
  IN IF S # {} THEN LET x == Longest(S) IN
                    [buf |-> SubSeq(b1, 1, d1 - Len(x.k)) \o x.v \o SubSeq(b1, d1 + 1, Len(b1)),
                     dot |-> d1 - Len(x.k) + Len(x.v), ins |-> <<>>]
     ELSE IF W # {} THEN LET x == Longest(W) IN
                    [buf |-> SubSeq(b1, 1, d1 - Len(x.k) - 1) \o x.v \o <<t>>,
                     dot |-> d1 - Len(x.k) + Len(x.v), ins |-> <<>>]
     ELSE [buf |-> b1, dot |-> d1, ins |-> i1]
CmdOuts(tabs, b, d, t) ==
  {[buf |-> SubSeq(b, 1, d - Len(x.k)) \o x.v \o <<t>> \o SubSeq(b, d + 1, Len(b)),
    dot |-> d - Len(x.k) + Len(x.v) + 1, ins |-> <<>>] :
      x \in {y \in Entries(tabs.cab) : Len(y.k) > 0 /\ IsSuffix(y.k, SubSeq(b, 1, d))}}


(* the values "typed in full and consecutively" may have when a key arrives at (b, d):
   poss = the possibilities after the last key, snap = <<buffer, dot>> after it, intr = some other
   editing call happened since.  Interrupted (documentation) -> nothing typed; buffer and dot as
   they were (the code's test) -> still consecutive; both when both apply (Unspecified). *)
Effective(b, d, poss, snap, intr) ==
  (IF <<b, d>> = snap THEN poss ELSE {}) \cup (IF intr \/ <<b, d>> # snap THEN {<<>>} ELSE {})
KeyOuts(tabs, b, d, t, ws, E) ==
  {KeyChain(tabs, b, d, t, i) : i \in E} \cup (IF ws THEN CmdOuts(tabs, b, d, t) ELSE {})
=============================================================================
