--------------------------- MODULE TraceCodeBuffer ---------------------------
(* V for C28 (and the judge of G's non-enumerable cases): what the REAL code did, one record per
   call, judged by a stateful walker.  Records (uniform fields):
     ev    "reset" | "builtin" | "key" | "nongraphic" | "func" | "backspace" | "ctrl-h" | "enter" |
           "pastestart" | "pasteend"
     a     builtin name (ev = "builtin")
     toks  reset: the initial buffer; key/nongraphic/backspace/enter: <<the rune's token>>;
           pasteend: parse.Quote(pasted text) as tokens when q (a primitive the executor evaluates)
     dot   reset: initial dot
     res, rdot   the real buffer after the call as tokens, and its dot as a rune index
           (rdot = -1: the byte offset is outside the buffer or not on a rune boundary;
            rdot = -2: the content is not valid UTF-8)
     m     builtin kill-X: the dot the REAL move-dot-X produces on the same state (else -1)
     ws    key: parse.IsWhitespace(rune);  q: pasteend: quoting is on
     praw  pasteend: the runes the harness sent while pasting (cross-check of the model's paste)
     sab, wab, cab   reset: simple / small-word / command abbreviation tables, lists of [k, v]
   State: buf, dot and the code-area extras pasting, paste, and for the abbreviation rule
     poss   the possible values of "text typed in full and consecutively" (a set: see below)
     snap   <<buf, dot>> after the last typed key;  intr: another editing call happened since.
   Builtins applied through MutateState (as pkg/edit does) are judged by CodeBuffer!Allowed (+KillRel).
   Code-area events (tk.CodeArea.Handle):
     key, not pasting   insert at the dot; then, from insert_api.d.elv:
        simple abbreviation: typed in full and consecutively -> replaced (longest wins);
        else small-word abbreviation: typed consecutively and followed by this trigger, dot at the
          end of the buffer, last rune / trigger in different small-word categories, the rune before
          the abbreviation (if any) in a different category than its first rune (longest wins);
        MAY (Unspecified, the documentation only says "in the command position"): when the key is
          a whitespace, a command abbreviation that is a suffix of the text before it is replaced.
     "consecutively": the documentation says "not interrupted by other editing functionalities";
        the code detects an interruption by comparing the buffer with the one after the last key.
        Unspecified: after a builtin call the typed text may count as interrupted (the
        documentation) or, if buffer and dot are what they were, as still consecutive (the code):
        poss holds both.
     backspace / ctrl-h  delete the rune before the dot;  enter / func / nongraphic: no change
     pasting: every non-function key is collected, the buffer does not change;
     pasteend: the collected text (quoted if q) is inserted at the dot.
   Every record must leave the dot valid (rdot >= 0). *)
EXTENDS CodeArea, TLC, Json
Cases == ndJsonDeserialize("cases.ndjson")
VARIABLES k, buf, dot, bad, pasting, paste, poss, snap, intr, tabs
vars == <<k, buf, dot, bad, pasting, paste, poss, snap, intr, tabs>>
NoTabs == [sab |-> <<>>, wab |-> <<>>, cab |-> <<>>]
Init == k = 0 /\ buf = <<>> /\ dot = 0 /\ bad = FALSE /\ pasting = FALSE /\ paste = <<>>
        /\ poss = {<<>>} /\ snap = <<<<>>, 0>> /\ intr = FALSE /\ tabs = NoTabs

Reset1 == [p |-> {<<>>}, i |-> FALSE]
Unchanged(e) == e.res = buf /\ e.rdot = dot

Next ==
  /\ k < Len(Cases) /\ k' = k + 1
  /\ LET e == Cases[k + 1] IN
     IF e.ev = "reset"
     THEN /\ buf' = e.toks /\ dot' = e.dot /\ bad' = FALSE /\ pasting' = FALSE /\ paste' = <<>>
          /\ poss' = {<<>>} /\ snap' = <<e.toks, e.dot>> /\ intr' = FALSE
          /\ tabs' = [sab |-> e.sab, wab |-> e.wab, cab |-> e.cab]
     ELSE IF bad THEN UNCHANGED <<buf, dot, bad, pasting, paste, poss, snap, intr, tabs>>
     ELSE
       LET collects == pasting /\ e.ev \in {"key", "nongraphic", "backspace", "enter"}
           keyOuts == IF e.ev = "key" /\ ~pasting
                      THEN KeyOuts(tabs, buf, dot, e.toks[1], e.ws, Effective(buf, dot, poss, snap, intr))
                      ELSE {}
           match == {o \in keyOuts : o.buf = e.res /\ o.dot = e.rdot}
           pasted == IF e.q THEN e.toks ELSE paste
           why ==
             IF e.rdot < 0 THEN "dot-invalid"
             ELSE CASE e.ev = "builtin" ->
                         IF ~Allowed(e.a, buf, dot, e.res, e.rdot)
                         THEN (IF e.a \in MoveActs THEN "move-target" ELSE IF e.a \in KillActs THEN "kill-exact" ELSE "transpose")
                         ELSE IF e.a \in KillActs /\ ~KillRel(buf, dot, e.m, e.res, e.rdot) THEN "kill-vs-move"
                         ELSE ""
                    [] collects \/ e.ev \in {"func", "nongraphic", "enter", "pastestart"} ->
                         IF Unchanged(e) THEN "" ELSE "buffer-changed"
                    [] e.ev = "key" -> IF match # {} THEN "" ELSE "key-insert"
                    [] e.ev \in {"backspace", "ctrl-h"} ->
                         IF pasting THEN (IF Unchanged(e) THEN "" ELSE "buffer-changed")
                         ELSE IF e.res = Delete(buf, Max2(dot - 1, 0), dot) /\ e.rdot = Max2(dot - 1, 0) THEN "" ELSE "backspace"
                    [] e.ev = "pasteend" ->
                         IF Runes(paste) # Runes(e.praw) THEN "harness-paste-desync"
                         ELSE IF e.res = Insert(buf, dot, pasted) /\ e.rdot = dot + Len(pasted) THEN "" ELSE "paste-insert"
       IN /\ bad' = (why # "" /\ PrintT(<<"BAD", k + 1, why, e.ev, e.a>>))
          /\ buf' = IF e.rdot >= 0 THEN e.res ELSE buf
          /\ dot' = IF e.rdot >= 0 THEN e.rdot ELSE dot
          /\ pasting' = IF e.ev = "pastestart" THEN TRUE ELSE IF e.ev = "pasteend" THEN FALSE ELSE pasting
          /\ paste' = IF collects THEN paste \o e.toks ELSE IF e.ev = "pasteend" THEN <<>> ELSE paste
          /\ tabs' = tabs
          /\ IF e.ev = "builtin" THEN poss' = poss /\ snap' = snap /\ intr' = TRUE
             ELSE IF pasting /\ e.ev # "pasteend" /\ e.ev # "pastestart" THEN UNCHANGED <<poss, snap, intr>>
             ELSE IF e.ev = "key" /\ match # {}
                  THEN poss' = {o.ins : o \in match} /\ snap' = <<e.res, e.rdot>> /\ intr' = FALSE
             ELSE poss' = {<<>>} /\ snap' = <<buf', dot'>> /\ intr' = FALSE
Inv == TRUE
=============================================================================
