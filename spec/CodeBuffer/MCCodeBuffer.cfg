CONSTANT N = 3
INIT Init
NEXT Next
INVARIANT DesignTheorem
INVARIANT ConseqImpl
INVARIANT ConseqAll
INVARIANT EmitB
