CONSTANT N = 3
INIT Init
NEXT Next
INVARIANT ActSeqComplete
INVARIANT DesignTheorem
INVARIANT ConseqImpl
INVARIANT ConseqAll
INVARIANT EmitB
