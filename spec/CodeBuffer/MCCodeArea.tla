----------------------------- MODULE MCCodeArea -----------------------------
(* Exhaustive small model of tk.CodeArea's event handling for C28 + generator of behaviours.
   Alphabet of events on an initially empty code area.  The abbreviation tables overlap on
   purpose, so that one key can complete two kinds at once: simple "ab" -> "你" and "b;" -> "你"
   (the latter, minus its last rune, is the small-word abbreviation, and that rune is a trigger of
   another category), small-word "b" -> "bb", command "a" -> "aa" (a prefix of the simple "ab"):
     Key a | Key b | Key ' ' | Key ';' | Key 你 | Backspace | Func | Left | Right (the builtins
     move-dot-left / move-dot-right through MutateState) | PasteStart | PasteEnd (not quoted)
   Two layers run side by side:
     code-shaped  ins, last (codearea.go: inserts, lastCodeBuffer; expandCommandAbbr's regular
                  expression transcribed for this alphabet), which determines buf and dot;
     documented   poss, snap, intr (CodeArea!Effective / KeyOuts), which determines the SET of
                  allowed outcomes of every event.
   TLC checks  DesignTheorem: the code-shaped outcome of every event is allowed by the documented
   rule, and InsConsistent: the text the code regards as typed consecutively is one of the
   documented possibilities;  DotValid.  With hist hidden by the VIEW, the action constraint EmitT
   prints one behaviour per transition: per step the event and the set of allowed <<dot>> \o runes
   (and the code-shaped outcome, by which the model continues). *)
EXTENDS CodeArea, TLC, Json
CONSTANT L
VARIABLES buf, dot, pasting, paste, ins, last, poss, snap, intr, n, hist
vars == <<buf, dot, pasting, paste, ins, last, poss, snap, intr, n, hist>>

TA == [r |-> 97, c |-> "alnum", w |-> 1]
TB == [r |-> 98, c |-> "alnum", w |-> 1]
TS == [r |-> 32, c |-> "space", w |-> 1]
TC == [r |-> 59, c |-> "punct", w |-> 1]
TW == [r |-> 20320, c |-> "alnum", w |-> 2]
Tabs == [sab |-> << [k |-> <<TA, TB>>, v |-> <<TW>>], [k |-> <<TB, TC>>, v |-> <<TW>>] >>,
         wab |-> << [k |-> <<TB>>, v |-> <<TB, TB>>] >>,
         cab |-> << [k |-> <<TA>>, v |-> <<TA, TA>>] >>]
KeyToks == {TA, TB, TS, TC, TW}
IsWs(t) == t = TS
Events == {"a", "b", "sp", "sc", "w", "backspace", "func", "left", "right", "pastestart", "pasteend"}
TokOf(e) == CASE e = "a" -> TA [] e = "b" -> TB [] e = "sp" -> TS [] e = "sc" -> TC [] e = "w" -> TW
None == <<<<>>, -1>>

Init == /\ buf = <<>> /\ dot = 0 /\ pasting = FALSE /\ paste = <<>> /\ ins = <<>> /\ last = None
        /\ poss = {<<>>} /\ snap = <<<<>>, 0>> /\ intr = FALSE /\ n = 0 /\ hist = <<>>

(* ---- code-shaped: handleKeyEvent's default branch *)
IsBare(t) == t.c = "alnum"                \* the bareword class of commandRegex, on this alphabet
RECURSIVE BareStart(_, _), WsStart(_, _)
BareStart(b, p) == IF p > 0 /\ IsBare(b[p]) THEN BareStart(b, p - 1) ELSE p     \* dot where the run of barewords ending at p starts
WsStart(b, p)   == IF p > 0 /\ b[p] = TS THEN WsStart(b, p - 1) ELSE p
ImplCommand(b, d) ==      \* expandCommandAbbr on (b, d) after the insertion of a whitespace
  IF d < Len(b) THEN [hit |-> FALSE]
  ELSE LET e  == Len(b) - 1                      \* the command ends before the typed whitespace
           s  == BareStart(b, e)
           a  == WsStart(b, s)                   \* optional whitespace before it
           anchored == a = 0 \/ b[a] = TC        \* start of buffer or ';'
           cmd == SubSeq(b, s + 1, e)
           M  == {x \in Entries(Tabs.cab) : x.k = cmd}
       IN IF s = e \/ ~anchored \/ M = {} THEN [hit |-> FALSE]
          ELSE LET x == CHOOSE y \in M : TRUE IN
               [hit |-> TRUE, buf |-> SubSeq(b, 1, s) \o x.v \o <<b[Len(b)]>>, dot |-> s + Len(x.v) + 1]
ImplKey(t) ==   \* returns [buf, dot, ins, last]
  LET i0 == IF last # <<buf, dot>> THEN <<>> ELSE ins
      b1 == Insert(buf, dot, <<t>>)
      d1 == dot + 1
      l1 == <<b1, d1>>
      c  == IF IsWs(t) THEN ImplCommand(b1, d1) ELSE [hit |-> FALSE]
  IN IF c.hit THEN [buf |-> c.buf, dot |-> c.dot, ins |-> <<>>, last |-> None]
     ELSE LET o == KeyChain(Tabs, buf, dot, t, i0) IN     \* simple, then small-word: as documented
          [buf |-> o.buf, dot |-> o.dot, ins |-> o.ins, last |-> IF o.ins = <<>> THEN None ELSE l1]

Out(b, d) == <<d>> \o Runes(b)
Step(e, b2, d2, allowed) ==
  /\ buf' = b2 /\ dot' = d2 /\ n' = n + 1
  /\ hist' = Append(hist, [ev |-> e, outs |-> allowed, impl |-> Out(b2, d2)])

Do(e) ==
  IF e \in {"left", "right"}
  THEN LET d2 == IF e = "left" THEN Max2(dot - 1, 0) ELSE Min2(dot + 1, Len(buf)) IN
       /\ Step(e, buf, d2, {Out(buf, d2)})
       /\ intr' = TRUE /\ UNCHANGED <<pasting, paste, ins, last, poss, snap>>
  ELSE IF pasting /\ e \in {"a", "b", "sp", "sc", "w", "backspace"}
  THEN /\ Step(e, buf, dot, {Out(buf, dot)})
       /\ paste' = Append(paste, IF e = "backspace" THEN [r |-> 127, c |-> "punct", w |-> 0] ELSE TokOf(e))
       /\ UNCHANGED <<pasting, ins, last, poss, snap, intr>>
  ELSE IF pasting /\ e = "func"
  THEN Step(e, buf, dot, {Out(buf, dot)}) /\ UNCHANGED <<pasting, paste, ins, last, poss, snap, intr>>
  ELSE IF e \in {"a", "b", "sp", "sc", "w"}
  THEN LET t == TokOf(e)
           o == ImplKey(t)
           E == Effective(buf, dot, poss, snap, intr)
           A == KeyOuts(Tabs, buf, dot, t, IsWs(t), E)
           match == {x \in A : x.buf = o.buf /\ x.dot = o.dot}
       IN /\ Step(e, o.buf, o.dot, {Out(x.buf, x.dot) : x \in A})
          /\ ins' = o.ins /\ last' = o.last
          /\ poss' = IF match = {} THEN {<<>>} ELSE {x.ins : x \in match}
          /\ snap' = <<o.buf, o.dot>> /\ intr' = FALSE
          /\ UNCHANGED <<pasting, paste>>
  ELSE LET r == CASE e = "backspace" -> [b |-> Delete(buf, Max2(dot - 1, 0), dot), d |-> Max2(dot - 1, 0)]
                  [] e = "pasteend"  -> [b |-> Insert(buf, dot, paste), d |-> dot + Len(paste)]
                  [] OTHER           -> [b |-> buf, d |-> dot]
       IN /\ Step(e, r.b, r.d, {Out(r.b, r.d)})
          /\ ins' = <<>> /\ last' = None
          /\ poss' = {<<>>} /\ snap' = <<r.b, r.d>> /\ intr' = FALSE
          /\ pasting' = IF e = "pastestart" THEN TRUE ELSE IF e = "pasteend" THEN FALSE ELSE pasting
          /\ paste' = IF e = "pasteend" THEN <<>> ELSE paste
Next == n < L /\ \E e \in Events : Do(e)
Spec == Init /\ [][Next]_vars
View == <<buf, dot, pasting, paste, ins, last, poss, snap, intr, n>>

(* ---- properties *)
DotOK == dot \in 0..Len(buf)
InsConsistent == (IF last = <<buf, dot>> THEN ins ELSE <<>>) \in Effective(buf, dot, poss, snap, intr)
DesignTheorem == [][hist'[Len(hist')].impl \in hist'[Len(hist')].outs]_vars
EmitT == PrintT(ToJson(hist'))
=============================================================================
