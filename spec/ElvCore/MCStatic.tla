------------------------------ MODULE MCStatic ------------------------------
(* M + G configuration of Static.tla (C16).
   M: exhaustive exploration of the Eval state machine over every chunk of <= MaxLen statements
      from the vocabulary with at most one injected defect at every position; invariants
      TypeOK, NoRunOnStaticError, CheckAgrees, StaticIffDefect.
   G: every transition (pre-state, chunk) is emitted once with the prescribed class, values,
      bytes, post-state and Check classes (ACTION_CONSTRAINT EmitT); the executor establishes the
      pre-state on a fresh Evaler, runs Check / Eval / Check and the observer, and compares. *)
EXTENDS Static, Json

CONSTANT Wide     \* TRUE: the full vocabulary; FALSE: the reduced one of the quick tier

Plain == {[s |-> "decl", x |-> "a", v |-> "1"], [s |-> "decl", x |-> "b", v |-> "2"],
          [s |-> "set", x |-> "a", v |-> "2"],
          [s |-> "putlit", v |-> "1"], [s |-> "putvar", x |-> "a"],
          [s |-> "echo"], [s |-> "deffn"], [s |-> "call"], [s |-> "del", x |-> "a"], [s |-> "fail"],
          [s |-> "pragma"], [s |-> "ext"], [s |-> "extreg"]}
More  == {[s |-> "decl", x |-> "a", v |-> "2"], [s |-> "set", x |-> "b", v |-> "1"],
          [s |-> "putvar", x |-> "b"], [s |-> "del", x |-> "b"], [s |-> "extunreg"]}
Bads(ds) == {[s |-> "bad", d |-> d] : d \in ds}
QuickDefects == {"unclosed-quote", "unclosed-brace", "stray-paren", "use-undeclared", "set-undeclared",
                 "if-no-body", "try-alone", "tmp-top-level", "del-non-local", "use-undeclared-in-fn",
                 "modvar-registered"}
StmtsDef == IF Wide THEN Plain \cup More \cup Bads(Defects) ELSE Plain \cup Bads(QuickDefects)

EmitT == PrintT(ToJson(last'))
=============================================================================
