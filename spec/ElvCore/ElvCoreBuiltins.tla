-------------------------- MODULE ElvCoreBuiltins --------------------------
(* The builtin commands inside the model (DESIGN.md Appendix B.4), written from pkg/eval/*.d.elv.
   Pure(name, args) gives, for the builtins whose behaviour depends on their arguments only,
   [out |-> Seq(Value), exc |-> Cause].  Builtins that read the value input or call functions
   (each, all, take, ...) and those that raise flow exceptions are in ElvCore.tla. *)
EXTENDS ElvCoreValues

POut(vs) == [out |-> vs, exc |-> COk]
PErr(c)  == [out |-> <<>>, exc |-> c]

NumArgs(args) == [i \in 1..Len(args) |-> AsNum(args[i])]
AnyUnk(ns)    == \E i \in 1..Len(ns) : ns[i].cls = "unk"
AnyNotNum(ns) == \E i \in 1..Len(ns) : ns[i].cls = "notnum"

AnyRat(ns)    == \E i \in 1..Len(ns) : ns[i].cls = "rat"

\* Exact arithmetic on fractions ("exactness-preserving commands"); every intermediate result must
\* stay inside the model range, else OutOfModel.
FOk(n, d)  == LET m == MkNum(n, d) IN IF m.ok THEN [ok |-> TRUE, f |-> NumFrac(m.v)] ELSE [ok |-> FALSE]
FAdd(x, y) == FOk(x.n * y.d + y.n * x.d, x.d * y.d)
FSub(x, y) == FOk(x.n * y.d - y.n * x.d, x.d * y.d)
FMul(x, y) == FOk(x.n * y.n, x.d * y.d)
FDiv(x, y) == IF y.n < 0 THEN FOk(-(x.n * y.d), x.d * (-y.n)) ELSE FOk(x.n * y.d, x.d * y.n)     \* y.n # 0
FApply(op, x, y) == CASE op = "+" -> FAdd(x, y) [] op = "-" -> FSub(x, y) [] op = "*" -> FMul(x, y) [] OTHER -> FDiv(x, y)
RECURSIVE FoldFrac(_, _, _, _)
\* acc op fs[i] op fs[i+1] ...  -> [ok, f]
FoldFrac(op, fs, i, acc) == IF i > Len(fs) THEN [ok |-> TRUE, f |-> acc]
                            ELSE LET r == FApply(op, acc, fs[i]) IN
                                 IF ~r.ok THEN r ELSE FoldFrac(op, fs, i + 1, r.f)
FracResult(r) == IF ~r.ok THEN PErr(OOM("number leaves the model range"))
                 ELSE POut(<<MkNum(r.f.n, r.f.d).v>>)

FLt(x, y) == x.n * y.d < y.n * x.d
FEq(x, y) == x.n * y.d = y.n * x.d
ChainF(fs, Rel(_, _)) == \A i \in 1..(Len(fs) - 1) : Rel(fs[i], fs[i + 1])
RLt(a, b) == FLt(a, b)
RLe(a, b) == ~FLt(b, a)
RGt(a, b) == FLt(b, a)
RGe(a, b) == ~FLt(a, b)
REq(a, b) == FEq(a, b)

\* Numeric commands ("Strings and numbers": typed numbers or number-like strings)
Numeric(name, args) ==
  LET ns == NumArgs(args)
      fs == [i \in 1..Len(ns) |-> FracOf(ns[i])]
      Zero == [n |-> 0, d |-> 1]
      One == [n |-> 1, d |-> 1]
  IN
  \* the number of arguments is checked before their types
  IF (name \in {"!=", "%"} /\ Len(args) # 2) \/ (name = "-" /\ Len(args) = 0) THEN PErr(CArity)
  ELSE IF AnyUnk(ns) THEN PErr(OOM("string used as a number is not a canonical decimal"))
  ELSE IF AnyNotNum(ns) THEN PErr(CType)
  ELSE CASE name = "+" -> FracResult(FoldFrac("+", fs, 1, Zero))
         [] name = "-" -> IF Len(fs) = 1 THEN FracResult(FSub(Zero, fs[1]))
                          ELSE FracResult(FoldFrac("-", fs, 2, fs[1]))
         [] name = "*" -> FracResult(FoldFrac("*", fs, 1, One))
         [] name = "/" -> \* left to right; "Dividing by exact 0 raises an exception"
                           IF Len(fs) = 0 THEN PErr(OOM("/ without arguments"))
                           ELSE IF Len(fs) = 1 THEN
                                  \* Unspecified: `/ 0`.  "/ $y is equivalent to / 1 $y" (an exception) and "when
                                  \* $x-num is exact 0 and no $y-num is exact 0, the result is exact 0" disagree.
                                  (IF fs[1].n = 0 THEN PErr(OOM("Unspecified: / 0")) ELSE FracResult(FDiv(One, fs[1])))
                           ELSE IF \E i \in 2..Len(fs) : fs[i].n = 0 THEN PErr(CBadValue)
                           ELSE FracResult(FoldFrac("/", fs, 2, fs[1]))
         [] name = "<"  -> POut(<<VBool(ChainF(fs, RLt))>>)
         [] name = "<=" -> POut(<<VBool(ChainF(fs, RLe))>>)
         [] name = ">"  -> POut(<<VBool(ChainF(fs, RGt))>>)
         [] name = ">=" -> POut(<<VBool(ChainF(fs, RGe))>>)
         [] name = "==" -> POut(<<VBool(ChainF(fs, REq))>>)
         [] name = "!=" -> POut(<<VBool(~FEq(fs[1], fs[2]))>>)
         [] name = "%"  -> IF AnyRat(ns) THEN PErr(CBadValue)          \* "Both arguments must be exact integers"
                           ELSE IF ns[2].n = 0 THEN PErr(CBadValue)
                           ELSE LET a == ns[1].n  b == ns[2].n
                                    m == IF b < 0 THEN -b ELSE b
                                    r == IF a >= 0 THEN a % m ELSE -((-a) % m)   \* sign of $x
                                IN POut(<<VNum(r)>>)

NumericNames == {"+", "-", "*", "/", "<", "<=", ">", ">=", "==", "!=", "%"}

AllEq(args) == \A i \in 1..(Len(args) - 1) : ValEq(args[i], args[i + 1])
AnyEqUndecided(args) == \E i \in 1..(Len(args) - 1) : EqUndecided(args[i], args[i + 1])

\* count of a container: list length, map size, string byte length
CountOf(v) == CASE v.k = "list" -> Good(Len(v.es))
                [] v.k = "map"  -> Good(Len(v.ps))
                [] v.k = "str"  -> Good(Len(v.s))
                [] OTHER        -> Bad(CType)

Exactly(n, args, r) == IF Len(args) # n THEN PErr(CArity) ELSE r

PureNames == NumericNames \cup {"put", "nop", "eq", "not-eq", "not", "bool", "kind-of", "num",
                                "to-string", "has-key", "has-value", "assoc", "dissoc", "conj"}

KindBytes(v) == CASE v.k = "nil" -> <<110,105,108>> [] v.k = "bool" -> <<98,111,111,108>>
                  [] v.k = "str" -> <<115,116,114,105,110,103>> [] v.k \in {"num", "rat"} -> <<110,117,109,98,101,114>>
                  [] v.k = "list" -> <<108,105,115,116>> [] v.k = "map" -> <<109,97,112>>
                  [] v.k = "fn" -> <<102,110>> [] v.k = "exc" -> <<101,120,99,101,112,116,105,111,110>>
                  [] OTHER -> <<63>>

Pure(name, args) ==
  CASE name \in NumericNames -> Numeric(name, args)
    [] name = "put" -> POut(args)
    [] name = "nop" -> POut(<<>>)
    [] name = "eq"  -> IF AnyEqUndecided(args) THEN PErr(OOM("identity of exception values")) ELSE POut(<<VBool(AllEq(args))>>)
    [] name = "not-eq" -> Exactly(2, args, IF AnyEqUndecided(args) THEN PErr(COOM)
                                           ELSE POut(<<VBool(~ValEq(args[1], args[2]))>>))
    [] name = "not"  -> Exactly(1, args, POut(<<VBool(~Truthy(args[1]))>>))
    [] name = "bool" -> Exactly(1, args, POut(<<VBool(Truthy(args[1]))>>))
    [] name = "kind-of" -> IF \E i \in 1..Len(args) : args[i].k = "reason" THEN PErr(OOM("kind of an opaque value"))
                           ELSE POut([i \in 1..Len(args) |-> VStr(KindBytes(args[i]))])
    [] name = "num" -> Exactly(1, args,
                         LET c == AsNum(args[1]) IN
                         IF c.cls = "rat" THEN POut(<<args[1]>>)
                         ELSE IF c.cls = "int" THEN POut(<<VNum(c.n)>>)
                         ELSE IF c.cls = "unk" THEN PErr(COOM)
                         ELSE IF args[1].k = "str" THEN PErr(CBadValue) ELSE PErr(CType))
    [] name = "to-string" ->
         IF \A i \in 1..Len(args) : Stringable(args[i])
         THEN POut([i \in 1..Len(args) |-> VStr(ToBytes(args[i]))])
         ELSE PErr(COOM)          \* repr of other values is C04's subject
    [] name = "has-key" -> Exactly(2, args,
         CASE args[1].k = "map"  -> IF KeyOK(args[2]) THEN POut(<<VBool(MapFind(args[1].ps, args[2], 1) # 0)>>)
                                    ELSE PErr(COOM)
           [] args[1].k = "list" -> LET ix == ParseIndex(args[2]) IN
                                    IF ix.f = "unk" THEN PErr(COOM)
                                    ELSE IF ix.f = "notint" THEN POut(<<VBool(FALSE)>>)
                                    ELSE LET rg == IndexRange(ix, Len(args[1].es)) IN
                                         IF rg.r = "unspec" THEN PErr(COOM)
                                         ELSE POut(<<VBool(rg.r # "err")>>)
           [] OTHER -> PErr(COOM))
    [] name = "has-value" -> Exactly(2, args,
         CASE args[1].k = "list" -> IF \E i \in 1..Len(args[1].es) : EqUndecided(args[1].es[i], args[2]) THEN PErr(COOM)
                                    ELSE POut(<<VBool(\E i \in 1..Len(args[1].es) : ValEq(args[1].es[i], args[2]))>>)
           [] args[1].k = "map"  -> IF \E i \in 1..Len(args[1].ps) : EqUndecided(args[1].ps[i][2], args[2]) THEN PErr(COOM)
                                    ELSE POut(<<VBool(\E i \in 1..Len(args[1].ps) : ValEq(args[1].ps[i][2], args[2]))>>)
           [] OTHER -> PErr(OOM("has-value on this container")))
    [] name = "assoc" -> Exactly(3, args,
         LET r == Assoc(args[1], args[2], args[3]) IN IF r.ok THEN POut(<<r.v>>) ELSE PErr(r.c))
    [] name = "dissoc" -> Exactly(2, args,
         IF args[1].k = "map" THEN (IF KeyOK(args[2]) THEN POut(<<VMap(MapDissoc(args[1].ps, args[2]))>>) ELSE PErr(COOM))
         ELSE PErr(COOM))
    [] name = "conj" ->
         IF Len(args) < 1 THEN PErr(CArity)
         ELSE IF args[1].k = "list" THEN POut(<<VList(args[1].es \o Tail(args))>>)
         ELSE PErr(CType)
=============================================================================
