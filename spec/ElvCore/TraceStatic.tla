---------------------------- MODULE TraceStatic ----------------------------
(* V for C16 (profile Static): recorded executions of programs of the Core generator in which one
   chunk carries a static defect injected by construction (a statement of kind k \in Defects of
   Static.tla, at the top level or inside a block / function body, after side-effecting
   statements).  Events:
     [ev |-> "reset"]                                                    fresh Evaler
     [ev |-> "chunk",  ast, out, exc, check]                             valid chunk, as in TraceElvCore;
           check = class reported by Evaler.Check on it just before the evaluation (must be "none")
     [ev |-> "static", kinds, cls, nout, nbytes, check, checkAfter, names]
           the defective chunk: kinds = the injected defect kinds; what the real code did:
           cls = error class of Evaler.Eval, nout / nbytes = number of values / bytes captured,
           check / checkAfter = class reported by Evaler.Check before / after the evaluation,
           names = TRUE iff the set of global names is the same before and after
   The walker requires for a static event: the class prescribed by the defect kinds (parse if any
   parse defect, else compile), no output, Check agreeing before and after, global names unchanged
   -- and leaves the interpreter state of the reference semantics UNCHANGED, so that the chunks
   that follow (which read the variables) are judged against the state before the defective
   chunk: NoRunOnStaticError observed through the full semantics. *)
EXTENDS ElvCore, Json
Cases == ndJsonDeserialize("cases.ndjson")

ParseDefects   == {"unclosed-quote", "unclosed-paren", "unclosed-list", "unclosed-brace",
                   "bad-escape", "stray-paren"}
Prescribed(kinds) == IF \E i \in 1..Len(kinds) : kinds[i] \in ParseDefects THEN "parse" ELSE "compile"

VARIABLES pos, w
Init == pos = 0 /\ w = [st |-> InitState, skip |-> FALSE]
StaticOK(e) == LET c == Prescribed(e.kinds) IN
               /\ e.cls = c /\ e.nout = 0 /\ e.nbytes = 0
               /\ e.check = c /\ e.checkAfter = c /\ e.names
Step(cur, e, i) ==
  IF e.ev = "reset" THEN [st |-> WithModules(InitState, e.mods), skip |-> FALSE]
  ELSE IF cur.skip THEN cur
  ELSE IF e.ev = "static" THEN
       IF StaticOK(e) THEN cur
       ELSE [cur EXCEPT !.skip = PrintT(<<"BAD", i, "static", Prescribed(e.kinds)>>)]
  ELSE IF e.check # "none" THEN       \* CheckAgrees on a chunk that evaluation compiled
       [cur EXCEPT !.skip = PrintT(<<"BAD", i, "check-valid", e.check>>)]
  ELSE LET r == EvalChunk(cur.st, e.ast) IN
       IF Skip(r.exc) THEN [st |-> cur.st, skip |-> PrintT(<<"BAD", i, "oom", r.exc.why>>)]
       ELSE IF \E q \in 1..Len(r.out) : Opaque(r.out[q]) THEN [st |-> cur.st, skip |-> PrintT(<<"BAD", i, "oom", "opaque value in the output">>)]
       ELSE IF SeqMatches(r.out, e.out) /\ r.bytes = e.bytes /\ CauseMatches(r.exc, e.exc) THEN [st |-> r.st, skip |-> FALSE]
       ELSE [st |-> r.st,
             skip |-> PrintT(<<"BAD", i, "mismatch",
                               ToJson([out |-> [j \in 1..Len(r.out) |-> Show(r.out[j])], bytes |-> r.bytes, exc |-> ShowCause(r.exc)])>>)]
Next == pos < Len(Cases) /\ pos' = pos + 1 /\ w' = Step(w, Cases[pos + 1], pos + 1)
Inv == TRUE
=============================================================================
