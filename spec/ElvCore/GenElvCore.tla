---------------------------- MODULE GenElvCore ----------------------------
(* M + G configuration of ElvCore (C15).
   Programs are enumerated EXHAUSTIVELY from a small statement vocabulary (templates with holes):
       var v = a ;  W1[ W2[ ... A ... ] ] ;  put $v          (nesting depth <= Depth)
   A  (atoms):    put a | fail x | break | continue | return | put $v | set v = b | brk (a function that breaks) | echo b
   W  (wrappers): try/catch | try/finally | try/catch/else/finally | if | for | while-once |
                  lambda call | fn + call | output capture | exception capture | each | and | pipeline into all |
                  { tmp v = z; S } | with v = z { S } | { defer { put d }; S }
   One TLC state per program.
   M: meta-theorems of the semantics, checked as invariants on every enumerated program:
       FinallyRuns      the finally block of the outermost try runs (last) on every exit path of its body
       ElseIffNoThrow   the else block runs iff the body did not throw; the catch block iff it did
       BreakContained   break / continue never escape the innermost enclosing loop
       ReturnContained  return never escapes the innermost function defined with fn
       LogicOneValue    and / or / coalesce output exactly one value when they do not throw
       CaptureTotal     an exception capture never throws
       ChunkStops       the statement after a throwing statement does not run, and runs otherwise
       Restored         after `{ tmp v = z; S }` / `with v = z { S }` the variable has its old value
       DeferRuns        the deferred callback of a frame runs last, on every exit path of its body
   G: every program is emitted with the output and exception cause EvalChunk prescribes
      (invariant Emit); the executor renders it, runs it on the real Evaler and compares. *)
EXTENDS ElvCore, Json

CONSTANT Depth

\* ---- AST constructors (schema of DESIGN.md Appendix B.1 / harness/checks/c15/elvcore/ast.go)
B(s) == [t |-> "str", v |-> s]
Wa == B(<<97>>)   Wb == B(<<98>>)   Wc == B(<<99>>)   We == B(<<101>>)  Wf == B(<<102>>)  Wx == B(<<120>>)
W1 == B(<<49>>)   W2 == B(<<50>>)   Wz == B(<<122>>)  Wd == B(<<100>>)
V(n) == [t |-> "var", n |-> n, explode |-> FALSE, q |-> <<>>]
Cmd(n, args) == [t |-> "cmd", head |-> [t |-> "name", n |-> n, q |-> <<>>], args |-> args, opts |-> <<>>]
CmdX(h, args) == [t |-> "cmd", head |-> h, args |-> args, opts |-> <<>>]
P(f) == [t |-> "pipe", fs |-> <<f>>]
Ch(ps) == [t |-> "chunk", ps |-> ps]
Put(e) == Cmd("put", <<e>>)
Lam(params, body) == [t |-> "lam", params |-> params, rest |-> 0, opts |-> <<>>, body |-> body]
Try(body, cvar, catch, els, fin) == [t |-> "try", body |-> body, cvar |-> cvar, catch |-> catch, els |-> els, fin |-> fin]
LV(n) == [n |-> n, idx |-> <<>>, q |-> <<>>]

\* ---- vocabulary: a statement template is a sequence of pipelines
Atoms == {
  <<P(Put(Wa))>>,
  <<P(Cmd("fail", <<Wx>>))>>,
  <<P(Cmd("break", <<>>))>>,
  <<P(Cmd("continue", <<>>))>>,
  <<P(Cmd("return", <<>>))>>,
  <<P(Put(V("v")))>>,
  <<P([t |-> "set", lhs |-> <<LV("v")>>, rest |-> 0, rhs |-> <<Wb>>])>>,
  <<P(Cmd("brk", <<>>))>>,
  <<P(Cmd("echo", <<Wb>>))>> }

\* wrappers: name -> statements around the inner statements S
WrapNames == {"try-catch", "try-finally", "try-full", "if", "for", "while", "call-lambda", "fn-call",
              "capture", "xcapture", "each", "and", "pipe-all", "tmp-block", "with", "defer"}
SetV(e) == P([t |-> "set", lhs |-> <<LV("v")>>, rest |-> 0, rhs |-> <<e>>])
Wrap(w, S) ==
  CASE w = "try-catch"   -> <<P(Try(Ch(S), <<"e">>, <<Ch(<<P(Put(Wc))>>)>>, <<>>, <<>>))>>
    [] w = "try-finally" -> <<P(Try(Ch(S), <<>>, <<>>, <<>>, <<Ch(<<P(Put(Wf))>>)>>))>>
    [] w = "try-full"    -> <<P(Try(Ch(S), <<>>, <<Ch(<<P(Put(Wc))>>)>>, <<Ch(<<P(Put(We))>>)>>, <<Ch(<<P(Put(Wf))>>)>>))>>
    [] w = "if"          -> <<P([t |-> "if", arms |-> <<<<V("true"), Ch(S)>>>>, els |-> <<>>])>>
    [] w = "for"         -> <<P([t |-> "for", v |-> LV("x"), iter |-> [t |-> "list", es |-> <<W1, W2>>],
                                 body |-> Ch(S \o <<P(Put(V("x")))>>), els |-> <<>>])>>
    [] w = "while"       -> <<P([t |-> "while", cond |-> [t |-> "cap", c |-> Ch(<<P(Cmd("eq", <<V("v"), Wa>>))>>)],
                                 body |-> Ch(<<P([t |-> "set", lhs |-> <<LV("v")>>, rest |-> 0, rhs |-> <<Wz>>])>> \o S),
                                 els |-> <<Ch(<<P(Put(We))>>)>>])>>
    [] w = "call-lambda" -> <<P(CmdX(Lam(<<>>, Ch(S)), <<>>))>>
    [] w = "fn-call"     -> <<P([t |-> "fn", name |-> "g", lam |-> Lam(<<>>, Ch(S))]), P(Cmd("g", <<>>))>>
    [] w = "capture"     -> <<P(Cmd("put", <<[t |-> "cap", c |-> Ch(S)], Wc>>))>>
    [] w = "xcapture"    -> <<P(Cmd("put", <<[t |-> "xcap", c |-> Ch(S)]>>))>>
    [] w = "each"        -> <<P(Cmd("each", <<Lam(<<"y">>, Ch(S \o <<P(Put(V("y")))>>)), [t |-> "list", es |-> <<W1, W2>>]>>))>>
    [] w = "and"         -> <<P([t |-> "and", args |-> <<[t |-> "cap", c |-> Ch(S)], Wb>>])>>
    [] w = "pipe-all"    -> <<[t |-> "pipe", fs |-> <<CmdX(Lam(<<>>, Ch(S)), <<>>), Cmd("all", <<>>)>>]>>
    [] w = "tmp-block"   -> <<P(CmdX(Lam(<<>>, Ch(<<P([t |-> "tmp", lhs |-> <<LV("v")>>, rest |-> 0, rhs |-> <<Wz>>])>> \o S)), <<>>))>>
    [] w = "with"        -> <<P([t |-> "with", assigns |-> <<[lhs |-> <<LV("v")>>, rest |-> 0, rhs |-> <<Wz>>]>>, body |-> Ch(S)])>>
    [] w = "defer"       -> <<P(CmdX(Lam(<<>>, Ch(<<P(Cmd("defer", <<Lam(<<>>, Ch(<<P(Put(Wd))>>))>>))>> \o S)), <<>>))>>

RECURSIVE Nest(_)
\* statement templates of nesting depth <= d, with the list of wrapper names from the outside in
\* inner: the statements given to the outermost wrapper
Nest(d) == IF d = 0 THEN {[ws |-> <<>>, s |-> a, inner |-> <<>>] : a \in Atoms}
           ELSE LET below == Nest(d - 1) IN
                below \cup {[ws |-> <<w>> \o x.ws, s |-> Wrap(w, x.s), inner |-> x.s] : w \in WrapNames, x \in below}

\* the program: one chunk  fn brk { break } ; var v = a ; <statement> ; put $v
Prelude == <<P([t |-> "fn", name |-> "brk", lam |-> Lam(<<>>, Ch(<<P(Cmd("break", <<>>))>>))]),
             P([t |-> "var", lhs |-> <<LV("v")>>, rest |-> 0, eq |-> TRUE, rhs |-> <<Wa>>])>>
Epilogue == <<P(Put(V("v")))>>
Programs == {[ws |-> x.ws, chunk |-> Ch(Prelude \o x.s \o Epilogue), inner |-> x.inner] : x \in Nest(Depth)}

VARIABLE prog
Init == prog \in Programs
Next == UNCHANGED prog
Spec == Init /\ [][Next]_prog

Result(p) == EvalChunk(InitState, p.chunk)
Has(out, w) == \E i \in 1..Len(out) : out[i] = VStr(w.v)
Count(out, w) == Cardinality({i \in 1..Len(out) : out[i] = VStr(w.v)})
OuterW(p) == IF p.ws = <<>> THEN "" ELSE p.ws[1]
IsFlow(c, names) == c.c = "flow" /\ c.n \in names
\* the statement alone (without the epilogue), to know whether it throws
StmtResult(p) == EvalChunk(InitState, Ch(SubSeq(p.chunk.ps, 1, Len(p.chunk.ps) - 1)))

InModel(p) == ~Skip(Result(p).exc)
\* the body of the outermost wrapper evaluated alone: does it throw?
BodyThrows(p) == EvalChunk(InitState, Ch(Prelude \o p.inner)).exc.c # "ok"
\* the finally block of the outermost try is the last thing the statement does
FinallyRuns     == LET p == prog  s == StmtResult(p) IN
                   InModel(p) /\ OuterW(p) \in {"try-finally", "try-full"} =>
                     Len(s.out) >= 1 /\ s.out[Len(s.out)] = VStr(Wf.v)
\* just before it: the catch block if the body threw, else the else block
ElseIffNoThrow  == LET p == prog  s == StmtResult(p)  n == Len(s.out) IN
                   InModel(p) /\ OuterW(p) = "try-full" =>
                     n >= 2 /\ s.out[n - 1] = VStr(IF BodyThrows(p) THEN Wc.v ELSE We.v)
BreakContained  == LET p == prog IN InModel(p) /\ OuterW(p) \in {"for", "while", "each"} => ~IsFlow(Result(p).exc, {"break", "continue"})
ReturnContained == LET p == prog IN InModel(p) /\ OuterW(p) = "fn-call" => ~IsFlow(Result(p).exc, {"return"})
LogicOneValue   == LET p == prog  r == StmtResult(p) IN
                   InModel(p) /\ OuterW(p) = "and" /\ r.exc.c = "ok" => Len(r.out) = 1
CaptureTotal    == LET p == prog IN InModel(p) /\ OuterW(p) = "xcapture" => StmtResult(p).exc.c = "ok"
ChunkStops      == LET p == prog  r == Result(p)  s == StmtResult(p) IN
                   InModel(p) => /\ (s.exc.c = "ok" => Len(r.out) = Len(s.out) + 1 /\ r.exc.c = "ok")
                                 /\ (s.exc.c # "ok" => r.out = s.out /\ r.exc = s.exc)

\* `tmp` / `with` at the outermost level: whatever the body does to v and however it exits, v has its
\* old value afterwards (seen by the epilogue `put $v` when the chunk goes on)
Restored        == LET p == prog  r == Result(p)  s == StmtResult(p) IN
                   InModel(p) /\ OuterW(p) \in {"tmp-block", "with"} /\ s.exc.c = "ok" =>
                     r.out[Len(r.out)] = VStr(Wa.v)
\* the deferred callback of the outermost frame runs last, on every exit path
DeferRuns       == LET p == prog  s == StmtResult(p) IN
                   InModel(p) /\ OuterW(p) = "defer" => Len(s.out) >= 1 /\ s.out[Len(s.out)] = VStr(Wd.v)

Emit == LET r == Result(prog) IN
        PrintT(ToJson([ast |-> prog.chunk, oom |-> Skip(r.exc),
                       out |-> [i \in 1..Len(r.out) |-> Show(r.out[i])], bytes |-> r.bytes, exc |-> ShowCause(r.exc)]))
=============================================================================
