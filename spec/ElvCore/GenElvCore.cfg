CONSTANT Depth = 1
SPECIFICATION Spec
INVARIANT FinallyRuns
INVARIANT ElseIffNoThrow
INVARIANT BreakContained
INVARIANT ReturnContained
INVARIANT LogicOneValue
INVARIANT CaptureTotal
INVARIANT ChunkStops
INVARIANT Emit
