------------------------------ MODULE ElvCore ------------------------------
(* REFERENCE SEMANTICS of the Elvish core language (property C15), written from
   website/ref/language.md and pkg/eval/*.d.elv as recursive operators over JSON ASTs
   (DESIGN.md Appendix B.1; programs are data).  One call EvalChunk(st, chunk) is one
   Evaler.Eval of a top-level chunk (REPL granularity): the interpreter state st is carried from
   chunk to chunk of one program.

   State     st  == [store: Seq(Value), nfn: Nat, genv: Name -> Loc]
                    store: locations; a variable is a location, so closures capture variables
                    ("Closure semantics"); genv: the global namespace.
   Env       env == function Name -> Loc  (the lexical scope chain flattened; `var` rebinds a name
                    to a fresh location: "the existing variable is shadowed")
   Result    r   == [st, env, vs, out, exc]
                    vs: values of an expression; out: values written to the value output;
                    exc: COk or the cause of the exception that terminated the evaluation.

   Operators (Appendix B.3):
     EvalChunk(st, chunk)                 one top-level chunk
     ExecChunk / ExecPipe / ExecForm      "Code Chunk", "Pipeline", "Command forms"
     EvalExpr / EvalExprs                 "Expressions" (a sequence of values each)
     Assign                               var / set / for variable / catch variable
     CallFn                               "Function": arity, rest and optional arguments, options

   Features covered (grown feature by feature, see Features below).

   OutOfModel (cause "oom"): see ElvCoreValues.  In addition: external commands, unresolved
   names, byte output, reading a variable whose declaration was skipped.

   Scoping note.  Elvish resolves names statically and allocates the variables of a scope when
   the scope is entered; this model binds a name when its `var` executes.  The two agree whenever
   every declaration lexically before a use has been executed when the use executes, which the
   program profile guarantees (declarations only at statement level of a chunk, none inside
   conditions / captures).  The one observable difference left is at the REPL: a top-level chunk
   that throws leaves the names declared by its remaining statements defined with the value
   $nil ("Elvish resolves all variables in a code chunk before starting to execute any of it");
   this is the action DeclareRest of EvalChunk. *)
EXTENDS ElvCoreBuiltins

Features == <<"values", "put", "var", "set", "list", "map", "indexing", "arith", "compare",
              "compound", "braced", "output-capture">>

\* ---------------------------------------------------------------- results
Res(st, env, vs, out, exc) == [st |-> st, env |-> env, vs |-> vs, out |-> out, exc |-> exc]
Done(st, env)        == Res(st, env, <<>>, <<>>, COk)
Vals(st, env, vs)    == Res(st, env, vs, <<>>, COk)
Outs(st, env, out)   == Res(st, env, <<>>, out, COk)
Throw(st, env, c)    == Res(st, env, <<>>, <<>>, c)
Failed(r)            == r.exc.c # "ok"
\* rb happened after ra: ra's output comes first
After(ra, rb)        == [rb EXCEPT !.out = ra.out \o rb.out]
\* same, and the values accumulate too
AfterV(ra, rb)       == [rb EXCEPT !.out = ra.out \o rb.out, !.vs = ra.vs \o rb.vs]

\* ---------------------------------------------------------------- store and environments
InitState == [store |-> <<>>, nfn |-> 1, genv |-> [x \in {} |-> 0]]
Alloc(st, v)      == [st EXCEPT !.store = Append(@, v)]
NewLoc(st)        == Len(st.store) + 1
SetLoc(st, l, v)  == [st EXCEPT !.store[l] = v]
Bind(env, n, l)   == [x \in (DOMAIN env) \cup {n} |-> IF x = n THEN l ELSE env[x]]
Unbind(env, n)    == [x \in (DOMAIN env) \ {n} |-> env[x]]
Bound(env, n)     == n \in DOMAIN env

\* builtin variables ("builtin namespace"): $nil $true $false $ok and the function variables
BuiltinFnNames == PureNames \cup {"count", "fail", "break", "continue", "return", "each", "range",
                                  "all", "take", "drop", "one", "compact", "order", "keep-if",
                                  "keys", "has-value", "constantly", "is", "defer"}
BuiltinVar(n) == CASE n = "nil"   -> <<VNil>>
                   [] n = "true"  -> <<VBool(TRUE)>>
                   [] n = "false" -> <<VBool(FALSE)>>
                   [] n = "ok"    -> <<VExc(COk)>>
                   [] OTHER       -> <<>>

\* ---------------------------------------------------------------- the evaluator
RECURSIVE ExecChunk(_, _, _, _)
RECURSIVE ExecPipe(_, _, _)
RECURSIVE ExecForm(_, _, _)
RECURSIVE EvalExpr(_, _, _)
RECURSIVE EvalExprs(_, _, _, _)
RECURSIVE EvalCat(_, _, _, _, _)
RECURSIVE EvalPairs(_, _, _, _, _)
RECURSIVE ResolveLVs(_, _, _, _, _)
RECURSIVE EvalSingles(_, _, _, _, _)

\* ---- expressions ("Expressions")
Explode(st, env, v) ==
  IF v.k = "list" THEN Vals(st, env, v.es)
  ELSE IF v.k = "str" THEN (IF Ascii(v.s) THEN Vals(st, env, Elements(v)) ELSE Throw(st, env, COOM))
  ELSE Throw(st, env, CType)                               \* "cannot iterate"

EvalVar(st, env, e) ==
  IF Bound(env, e.n) THEN
    LET v == st.store[env[e.n]] IN
    IF e.explode THEN Explode(st, env, v) ELSE Vals(st, env, <<v>>)
  ELSE LET b == BuiltinVar(e.n) IN
       IF b # <<>> THEN (IF e.explode THEN Explode(st, env, b[1]) ELSE Vals(st, env, b))
       ELSE Throw(st, env, COOM)

\* Outer product of two value sequences under concatenation ("Compounding"): numbers are
\* converted to strings, other types cannot be concatenated.
Concat2(a, b) == IF Stringable(a) /\ Stringable(b) THEN Good(VStr(ToBytes(a) \o ToBytes(b))) ELSE Bad(CType)
OuterOK(vs, us) == \A i \in 1..Len(vs) : \A j \in 1..Len(us) : Concat2(vs[i], us[j]).ok
Outer(vs, us) == [q \in 1..(Len(vs) * Len(us)) |->
                    Concat2(vs[((q - 1) \div Len(us)) + 1], us[((q - 1) % Len(us)) + 1]).v]

\* Indexing: every indexee value with every index value, results of the first indexee first.
RECURSIVE IndexAll(_, _, _, _)
IndexAll(vs, is, i, j) ==            \* -> [ok, vs] | [ok |-> FALSE, c]
  IF i > Len(vs) THEN [ok |-> TRUE, vs |-> <<>>]
  ELSE IF j > Len(is) THEN IndexAll(vs, is, i + 1, 1)
  ELSE LET r == Index(vs[i], is[j]) IN
       IF ~r.ok THEN [ok |-> FALSE, c |-> r.c]
       ELSE LET rest == IndexAll(vs, is, i, j + 1) IN
            IF rest.ok THEN [ok |-> TRUE, vs |-> <<r.v>> \o rest.vs] ELSE rest

EvalExpr(st, env, e) ==
  CASE e.t = "str"   -> Vals(st, env, <<VStr(e.v)>>)
    [] e.t = "var"   -> EvalVar(st, env, e)
    [] e.t = "list"  -> LET r == EvalExprs(st, env, e.es, 1) IN
                        IF Failed(r) THEN r ELSE [r EXCEPT !.vs = <<VList(r.vs)>>]
    [] e.t = "map"   -> EvalPairs(st, env, e.ps, 1, <<>>)
    [] e.t = "brace" -> EvalExprs(st, env, e.es, 1)
    [] e.t = "cat"   -> LET r == EvalExpr(st, env, e.es[1]) IN
                        IF Failed(r) THEN r ELSE EvalCat(r.st, r.env, e.es, 2, r)
    [] e.t = "idx"   -> LET rh == EvalExpr(st, env, e.e) IN
                        IF Failed(rh) THEN rh
                        ELSE LET ri == EvalExprs(rh.st, rh.env, e.is, 1) IN
                             IF Failed(ri) THEN After(rh, ri)
                             ELSE LET x == IndexAll(rh.vs, ri.vs, 1, 1) IN
                                  IF x.ok THEN After(rh, [ri EXCEPT !.vs = x.vs])
                                  ELSE After(rh, [ri EXCEPT !.vs = <<>>, !.exc = x.c])
    [] e.t = "cap"   -> \* "Output capture": same scope; the chunk's value output becomes the values
                        LET r == ExecChunk(st, env, e.c.ps, 1) IN
                        IF Failed(r) THEN [r EXCEPT !.out = <<>>]
                        ELSE [r EXCEPT !.vs = r.out, !.out = <<>>]
    [] OTHER -> Throw(st, env, COOM)

EvalExprs(st, env, es, i) ==
  IF i > Len(es) THEN Done(st, env)
  ELSE LET r == EvalExpr(st, env, es[i]) IN
       IF Failed(r) THEN r
       ELSE AfterV(r, EvalExprs(r.st, r.env, es, i + 1))

\* acc: result so far (values of es[1..i-1] compounded)
EvalCat(st, env, es, i, acc) ==
  IF i > Len(es) THEN acc
  ELSE LET r == EvalExpr(st, env, es[i]) IN
       IF Failed(r) THEN After(acc, [r EXCEPT !.vs = <<>>])
       ELSE IF ~OuterOK(acc.vs, r.vs) THEN After(acc, [r EXCEPT !.vs = <<>>, !.exc = CType])
       ELSE EvalCat(r.st, r.env, es, i + 1, After(acc, [r EXCEPT !.vs = Outer(acc.vs, r.vs)]))

\* Map literal: pairs in order; a pair whose key and value expressions yield n keys and n values
\* contributes n entries; different counts are an error.
RECURSIVE AssocAll(_, _, _, _)
AssocAll(ps, ks, vs, i) == IF i > Len(ks) THEN ps ELSE AssocAll(MapAssoc(ps, ks[i], vs[i]), ks, vs, i + 1)
EvalPairs(st, env, pairs, i, acc) ==
  IF i > Len(pairs) THEN Vals(st, env, <<VMap(acc)>>)
  ELSE LET rk == EvalExpr(st, env, pairs[i][1]) IN
       IF Failed(rk) THEN [rk EXCEPT !.vs = <<>>]
       ELSE LET rv == EvalExpr(rk.st, rk.env, pairs[i][2]) IN
            IF Failed(rv) THEN After(rk, [rv EXCEPT !.vs = <<>>])
            ELSE IF Len(rk.vs) # Len(rv.vs) THEN After(rk, [rv EXCEPT !.vs = <<>>, !.exc = CArity])
            ELSE IF \E q \in 1..Len(rk.vs) : ~KeyOK(rk.vs[q]) THEN After(rk, [rv EXCEPT !.vs = <<>>, !.exc = COOM])
            ELSE After(rk, After(rv, EvalPairs(rv.st, rv.env, pairs, i + 1, AssocAll(acc, rk.vs, rv.vs, 1))))

\* ---- assignment ("set", "var")
\* An lvalue is resolved, before the right-hand side is evaluated, to
\*   [loc, assocers: Seq(Value), indices: Seq(Value)]
\* (element assignment `a[i][j] = v` is `a = (assoc $a i (assoc $a[i] j v))`, the containers being
\* read when the lvalue is resolved).
\* EvalSingles: each index expression must evaluate to exactly one value.
EvalSingles(st, env, es, i, acc) ==
  IF i > Len(es) THEN Vals(st, env, acc)
  ELSE LET r == EvalExpr(st, env, es[i]) IN
       IF Failed(r) THEN [r EXCEPT !.vs = <<>>]
       ELSE IF Len(r.vs) # 1 THEN [r EXCEPT !.vs = <<>>, !.exc = COOM]   \* "multi indexing not implemented"
       ELSE After(r, EvalSingles(r.st, r.env, es, i + 1, Append(acc, r.vs[1])))

RECURSIVE Assocers(_, _, _, _)
\* containers along the index path: <<v, v[i1], v[i1][i2], ...>> (all but the last index)
Assocers(v, idx, i, acc) ==
  IF i >= Len(idx) THEN [ok |-> TRUE, as |-> Append(acc, v)]
  ELSE LET r == Index(v, idx[i]) IN
       IF ~r.ok THEN [ok |-> FALSE, c |-> r.c] ELSE Assocers(r.v, idx, i + 1, Append(acc, v))

\* mode "set": names must be bound; mode "new": fresh locations are allocated when assigning
ResolveLVs(st, env, lvs, i, acc) ==
  IF i > Len(lvs) THEN Vals(st, env, acc)
  ELSE LET lv == lvs[i] IN
       IF ~Bound(env, lv.n) THEN Throw(st, env, COOM)
       ELSE IF lv.idx = <<>> THEN
              ResolveLVs(st, env, lvs, i + 1, Append(acc, [loc |-> env[lv.n], as |-> <<>>, idx |-> <<>>]))
       ELSE LET ri == EvalSingles(st, env, lv.idx, 1, <<>>) IN
            IF Failed(ri) THEN ri
            ELSE LET a == Assocers(ri.st.store[env[lv.n]], ri.vs, 1, <<>>) IN
                 IF ~a.ok THEN After(ri, Throw(ri.st, ri.env, a.c))
                 ELSE After(ri, ResolveLVs(ri.st, ri.env, lvs, i + 1,
                                           Append(acc, [loc |-> env[lv.n], as |-> a.as, idx |-> ri.vs])))

RECURSIVE AssocPath(_, _, _, _)
\* new whole value: assoc from the inside out
AssocPath(as, idx, i, v) ==
  IF i = 0 THEN Good(v)
  ELSE LET r == Assoc(as[i], idx[i], v) IN IF ~r.ok THEN r ELSE AssocPath(as, idx, i - 1, r.v)

RECURSIVE StoreAll(_, _, _, _)
\* refs[i] := vals[i] in order; -> [ok, st] | [ok |-> FALSE, st, c]
StoreAll(st, refs, vals, i) ==
  IF i > Len(refs) THEN [ok |-> TRUE, st |-> st]
  ELSE LET nv == AssocPath(refs[i].as, refs[i].idx, Len(refs[i].idx), vals[i]) IN
       IF ~nv.ok THEN [ok |-> FALSE, st |-> st, c |-> nv.c]
       ELSE StoreAll(SetLoc(st, refs[i].loc, nv.v), refs, vals, i + 1)

\* Distribution of n values over m lvalues with an optional rest lvalue at (1-based) position rp
\* (0 = none): -> [ok, vals] ("the number of values and lvalues must be compatible")
Distribute(vals, m, rp) ==
  IF rp = 0 THEN (IF Len(vals) = m THEN [ok |-> TRUE, vals |-> vals] ELSE [ok |-> FALSE])
  ELSE IF Len(vals) < m - 1 THEN [ok |-> FALSE]
  ELSE LET extra == Len(vals) - m IN     \* the rest lvalue takes extra + 1 values
       [ok |-> TRUE,
        vals |-> [j \in 1..m |-> IF j < rp THEN vals[j]
                                 ELSE IF j = rp THEN VList(SubSeq(vals, rp, rp + extra))
                                 ELSE vals[j + extra]]]

\* ---- commands ("Ordinary command")
CallBuiltin(st, env, name, args, opts) ==
  IF name \in PureNames THEN
    IF opts # <<>> /\ name # "nop" THEN Throw(st, env, CBadOpt)
    ELSE LET p == Pure(name, args) IN Res(st, env, <<>>, p.out, p.exc)
  ELSE IF name = "count" THEN
    IF opts # <<>> THEN Throw(st, env, CBadOpt)
    ELSE IF Len(args) # 1 THEN Throw(st, env, COOM)            \* counting the value input: pipelines
    ELSE LET c == CountOf(args[1]) IN
         IF c.ok THEN Outs(st, env, <<VNum(c.v)>>) ELSE Throw(st, env, c.c)
  ELSE Throw(st, env, COOM)

ExecCmd(st, env, f) ==
  IF f.head.t = "name" THEN
    \* static resolution: $name~ in scope, else the builtin of that name, else an external command
    IF Bound(env, f.head.n \o "~") THEN Throw(st, env, COOM)
    ELSE IF f.head.n \notin BuiltinFnNames THEN Throw(st, env, COOM)
    ELSE LET ra == EvalExprs(st, env, f.args, 1) IN
         IF Failed(ra) THEN [ra EXCEPT !.vs = <<>>]
         ELSE After(ra, CallBuiltin(ra.st, ra.env, f.head.n, ra.vs, f.opts))
  ELSE Throw(st, env, COOM)

\* ---- forms
ExecVar(st, env, f) ==
  \* right-hand side first, in the old scope: "it sees the old variable"
  LET rr == IF f.eq THEN EvalExprs(st, env, f.rhs, 1) ELSE Vals(st, env, [j \in 1..Len(f.lhs) |-> VNil]) IN
  IF Failed(rr) THEN [rr EXCEPT !.vs = <<>>]
  ELSE LET d == IF f.eq THEN Distribute(rr.vs, Len(f.lhs), f.rest) ELSE [ok |-> TRUE, vals |-> rr.vs] IN
       IF ~d.ok THEN [rr EXCEPT !.vs = <<>>, !.exc = CArity]
       ELSE LET base == Len(rr.st.store)
                st2 == [rr.st EXCEPT !.store = @ \o d.vals]
                env2 == [x \in (DOMAIN rr.env) \cup {f.lhs[j].n : j \in 1..Len(f.lhs)} |->
                           IF \E j \in 1..Len(f.lhs) : f.lhs[j].n = x
                           THEN base + (CHOOSE j \in 1..Len(f.lhs) : f.lhs[j].n = x /\ \A q \in (j+1)..Len(f.lhs) : f.lhs[q].n # x)
                           ELSE rr.env[x]]
            IN [rr EXCEPT !.st = st2, !.env = env2, !.vs = <<>>]

ExecSet(st, env, f) ==
  LET rl == ResolveLVs(st, env, f.lhs, 1, <<>>) IN
  IF Failed(rl) THEN [rl EXCEPT !.vs = <<>>]
  ELSE LET rr == EvalExprs(rl.st, rl.env, f.rhs, 1) IN
       IF Failed(rr) THEN After(rl, [rr EXCEPT !.vs = <<>>])
       ELSE LET d == Distribute(rr.vs, Len(f.lhs), f.rest) IN
            IF ~d.ok THEN After(rl, [rr EXCEPT !.vs = <<>>, !.exc = CArity])
            ELSE LET s == StoreAll(rr.st, rl.vs, d.vals, 1) IN
                 After(rl, [rr EXCEPT !.vs = <<>>, !.st = s.st, !.exc = IF s.ok THEN COk ELSE s.c])

ExecForm(st, env, f) ==
  CASE f.t = "cmd" -> ExecCmd(st, env, f)
    [] f.t = "var" -> ExecVar(st, env, f)
    [] f.t = "set" -> ExecSet(st, env, f)
    [] OTHER -> Throw(st, env, COOM)

\* ---- pipelines and chunks
ExecPipe(st, env, p) ==
  IF Len(p.fs) = 1 THEN ExecForm(st, env, p.fs[1])
  ELSE Throw(st, env, COOM)

ExecChunk(st, env, ps, i) ==
  IF i > Len(ps) THEN Done(st, env)
  ELSE LET r == ExecPipe(st, env, ps[i]) IN
       IF Failed(r) THEN r ELSE After(r, ExecChunk(r.st, r.env, ps, i + 1))

\* ---------------------------------------------------------------- the state machine
\* Names declared by a statement at the top level of a chunk (not inside lambdas).
DeclNames(p) ==
  IF Len(p.fs) # 1 THEN <<>>
  ELSE LET f == p.fs[1] IN
       CASE f.t = "var" -> [j \in 1..Len(f.lhs) |-> f.lhs[j].n]
         [] OTHER -> <<>>

\* the failing statement had already bound the names it declares (the exception came later)
DeclDone(p, envBefore, envAfter) ==
  LET ns == DeclNames(p) IN
  ns # <<>> /\ \A j \in 1..Len(ns) : Bound(envAfter, ns[j]) /\ (Bound(envBefore, ns[j]) => envAfter[ns[j]] # envBefore[ns[j]])

RECURSIVE DeclareRest(_, _, _, _)
\* names declared by pipelines i.. are bound to fresh $nil variables
DeclareRest(st, env, ps, i) ==
  IF i > Len(ps) THEN [st |-> st, env |-> env]
  ELSE LET ns == DeclNames(ps[i])
           base == Len(st.store)
           st2 == [st EXCEPT !.store = @ \o [j \in 1..Len(ns) |-> VNil]]
           env2 == [x \in (DOMAIN env) \cup {ns[j] : j \in 1..Len(ns)} |->
                      IF \E j \in 1..Len(ns) : ns[j] = x
                      THEN base + (CHOOSE j \in 1..Len(ns) : ns[j] = x /\ \A q \in (j+1)..Len(ns) : ns[q] # x)
                      ELSE env[x]]
       IN DeclareRest(st2, env2, ps, i + 1)

RECURSIVE ExecTop(_, _, _, _)
\* the pipelines of a top-level chunk; when pipeline i throws, DeclareRest
ExecTop(st, env, ps, i) ==
  IF i > Len(ps) THEN Done(st, env)
  ELSE LET r == ExecPipe(st, env, ps[i]) IN
       IF ~Failed(r) THEN After(r, ExecTop(r.st, r.env, ps, i + 1))
       ELSE IF r.exc.c = "oom" THEN r
       ELSE LET d == DeclareRest(r.st, r.env, ps, IF DeclDone(ps[i], env, r.env) THEN i + 1 ELSE i)
            IN [r EXCEPT !.st = d.st, !.env = d.env]

\* EvalChunk: one Evaler.Eval.  -> [st, out, exc]
EvalChunk(st, chunk) ==
  LET r == ExecTop(st, st.genv, chunk.ps, 1) IN
  IF r.exc.c = "oom" THEN [st |-> st, out |-> <<>>, exc |-> COOM]
  ELSE [st |-> [r.st EXCEPT !.genv = r.env], out |-> r.out, exc |-> r.exc]
=============================================================================
