------------------------------ MODULE ElvCore ------------------------------
(* REFERENCE SEMANTICS of the Elvish core language (property C15), written from
   website/ref/language.md and pkg/eval/*.d.elv as recursive operators over JSON ASTs
   (DESIGN.md Appendix B.1; programs are data).  One call EvalChunk(st, chunk) is one
   Evaler.Eval of a top-level chunk (REPL granularity): the interpreter state st is carried from
   chunk to chunk of one program.

   State     st  == [store: Seq(Value), nfn: Nat, depth: Nat, genv: Name -> Loc, inp, inok, rd]
                    store: locations; a variable is a location, so closures capture variables
                    ("Closure semantics"); genv: the global namespace;
                    inp: the values on the value input of the running command (<<>> at the top
                    level), rd: the input has been read (to its end: every reader drains it),
                    inok: FALSE inside callbacks of each / keep-if / order, which share their
                    caller's input (reading there is OutOfModel).
   Env       env == function Name -> Loc  (the lexical scope chain flattened; `var` rebinds a name
                    to a fresh location: "the existing variable is shadowed")
   Result    r   == [st, env, vs, out, exc]
                    vs: values of an expression; out: values written to the value output;
                    exc: COk or the cause of the exception that terminated the evaluation.

   Operators (Appendix B.3):
     EvalChunk(st, chunk)                 one top-level chunk
     ExecChunk / ExecPipe / ExecForm      "Code Chunk", "Pipeline", "Command forms"
     EvalExpr / EvalExprs                 "Expressions" (a sequence of values each)
     Assign                               var / set / for variable / catch variable
     CallFn                               "Function": arity, rest and optional arguments, options

   Features covered (grown feature by feature, see Features below).

   Unspecified(...) -- outcomes the reference leaves open; both are accepted (the chunk is skipped
   and counted, causes "unspec" / "oom" with the reason):
     * a pipeline whose outcome depends on the schedule (side conditions (a)-(c) at ExecStages);
     * the slice `a..=b` with b below -n (ElvCoreValues.IndexRange);
     * `/ 0` (ElvCoreBuiltins: the reciprocal rule and the exact-0 rule of the documentation disagree);
     * equality of two exception values (identity of exception objects);
     * `order` of more than 12 values containing an uncomparable pair the sort may never compare.
   OutOfModel (cause "oom", with a reason): see ElvCoreValues.  In addition: external commands,
   unresolved names, builtins and options outside Appendix B.4, a callback of each / keep-if /
   order reading its caller's input, loops beyond MaxIter, calls nested beyond MaxDepth, opaque
   values (the `reason` of an exception) in the output.

   Scoping note.  Elvish resolves names statically and allocates the variables of a scope when
   the scope is entered; this model binds a name when its `var` executes.  The two agree whenever
   every declaration lexically before a use has been executed when the use executes, which the
   program profile guarantees (declarations only at statement level of a chunk, none inside
   conditions / captures).  The one observable difference left is at the REPL: a top-level chunk
   that throws leaves the names declared by its remaining statements defined with the value
   $nil ("Elvish resolves all variables in a code chunk before starting to execute any of it");
   this is the action DeclareRest of EvalChunk. *)
EXTENDS ElvCoreBuiltins

Features == <<"values", "put", "var", "set", "list", "map", "indexing", "arith", "compare",
              "compound", "braced", "output-capture", "element-assign",
              "if", "while", "for", "fn", "lambda", "closure", "return",
              "fail", "try", "break", "continue", "and", "or", "coalesce", "exception-capture",
              "rest-args", "options", "pipelines", "range", "each", "all", "take", "drop", "count",
              "one", "compact", "order", "keep-if", "del", "exception-fields", "tmp", "with", "defer", "byte-output", "use", "qualified-names", "keys", "order-less-than", "str-module", "rationals">>

\* ---------------------------------------------------------------- results
Res(st, env, vs, out, exc) == [st |-> st, env |-> env, vs |-> vs, out |-> out, exc |-> exc]
Done(st, env)        == Res(st, env, <<>>, <<>>, COk)
Vals(st, env, vs)    == Res(st, env, vs, <<>>, COk)
Outs(st, env, out)   == Res(st, env, <<>>, out, COk)
Throw(st, env, c)    == Res(st, env, <<>>, <<>>, c)
Failed(r)            == r.exc.c # "ok"
\* rb happened after ra: ra's output comes first
After(ra, rb)        == [rb EXCEPT !.out = ra.out \o rb.out]
\* same, and the values accumulate too
AfterV(ra, rb)       == [rb EXCEPT !.out = ra.out \o rb.out, !.vs = ra.vs \o rb.vs]

\* ---------------------------------------------------------------- store and environments
InitState == [store |-> <<>>, nfn |-> 1, depth |-> 0, genv |-> [x \in {} |-> 0],
              inp |-> <<>>, inok |-> TRUE, rd |-> FALSE, df |-> <<>>, infr |-> FALSE,
              mods |-> [x \in {} |-> 0]]
EmptyEnv == [x \in {} |-> 0]
\* the modules available to `use` (in-memory source, Evaler.BundledModules): name -> [ast, status, env]
\* status: "unloaded" | "loading" | "loaded"; env: the namespace of the loaded module
WithModules(st, ms) ==
  [st EXCEPT !.mods = [n \in {ms[i][1] : i \in 1..Len(ms)} |->
                         [ast |-> ms[CHOOSE i \in 1..Len(ms) : ms[i][1] = n][2], status |-> "unloaded", env |-> EmptyEnv]]]
VNs(e) == [k |-> "ns", env |-> e]
StrFns == {"join", "split", "has-prefix", "has-suffix"}
CNoSuchVar == [c |-> "no-such-variable"]
StdModules == {"str", "math", "re", "path", "file", "os", "platform", "flag", "doc", "runtime", "store", "unix", "builtin", "epm", "md", "readline-binding"}
MaxIter  == 200      \* iterations of one `while` inside the model (beyond: OutOfModel)
MaxDepth == 40       \* nesting of function calls inside the model (beyond: OutOfModel)
Alloc(st, v)      == [st EXCEPT !.store = Append(@, v)]
NewLoc(st)        == Len(st.store) + 1
SetLoc(st, l, v)  == [st EXCEPT !.store[l] = v]
Bind(env, n, l)   == [x \in (DOMAIN env) \cup {n} |-> IF x = n THEN l ELSE env[x]]
Unbind(env, n)    == [x \in (DOMAIN env) \ {n} |-> env[x]]
Bound(env, n)     == n \in DOMAIN env

\* builtin variables ("builtin namespace"): $nil $true $false $ok and the function variables
BuiltinFnNames == PureNames \cup {"count", "fail", "break", "continue", "return", "each", "range",
                                  "all", "take", "drop", "one", "compact", "order", "keep-if",
                                  "keys", "has-value", "constantly", "is", "defer", "echo", "print"}
BuiltinVar(n) == CASE n = "nil"   -> <<VNil>>
                   [] n = "true"  -> <<VBool(TRUE)>>
                   [] n = "false" -> <<VBool(FALSE)>>
                   [] n = "ok"    -> <<VExc(COk)>>
                   [] OTHER       -> <<>>

\* ---------------------------------------------------------------- the evaluator
RECURSIVE ExecChunk(_, _, _, _)
RECURSIVE ExecPipe(_, _, _)
RECURSIVE ExecForm(_, _, _)
RECURSIVE EvalExpr(_, _, _)
RECURSIVE EvalExprs(_, _, _, _)
RECURSIVE EvalCat(_, _, _, _, _)
RECURSIVE EvalPairs(_, _, _, _, _)
RECURSIVE ResolveLVs(_, _, _, _, _)
RECURSIVE EvalSingles(_, _, _, _, _, _)
RECURSIVE CallFn(_, _, _, _, _)
RECURSIVE ExecIf(_, _, _, _)
RECURSIVE ExecWhile(_, _, _, _, _)
RECURSIVE ExecForLoop(_, _, _, _, _, _, _)
RECURSIVE EvalLogic(_, _, _, _, _, _)
RECURSIVE EvalOpts(_, _, _, _, _)
RECURSIVE ExecDel(_, _, _, _)
RECURSIVE RunThunks(_, _, _, _, _)
RECURSIVE WithAssigns(_, _, _, _, _)
RECURSIVE QEnv(_, _, _, _)
RECURSIVE ExecTop(_, _, _, _)

\* A block (body of if/while/for/try, of a function) runs in a new lexical scope: the names it
\* declares are gone afterwards, the variables (locations) it changed are not.
\*
\* FRAMES ("tmp", "with", builtin `defer`).  Every closure call -- a function, a lambda, the body
\* of if / while / for / try / with, a callback -- is a frame with a list st.df of cleanup thunks:
\* `tmp` appends [t:"restore", loc, v] holding the WHOLE saved value of the variable, `defer`
\* appends [t:"cb", f].  When the body has finished, however it finished, the thunks run in reverse
\* order of registration.  Completion of the frame: the body's exception if it threw; otherwise the
\* exception of a failing deferred callback ("any exception it throws gets propagated").
\* Unspecified: which one when several deferred callbacks fail; and whether a failing callback
\* counts when the body of a `fn` function ended by `return`.  The top level is not a frame.
EnterFrame(st) == [st EXCEPT !.df = <<>>, !.infr = TRUE]
\* thunks df[1..j] in reverse; acc == [st, out, fails: causes of the failing callbacks, skip]
RunThunks(env, df, j, acc, dummy) ==
  IF j = 0 \/ acc.skip # <<>> THEN acc
  ELSE LET th == df[j] IN
       IF th.t = "restore" THEN RunThunks(env, df, j - 1, [acc EXCEPT !.st = SetLoc(@, th.loc, th.v)], dummy)
       ELSE LET r == CallFn(acc.st, env, th.f, <<>>, <<>>) IN
            RunThunks(env, df, j - 1,
                      [st |-> r.st, out |-> acc.out \o r.out,
                       fails |-> IF Failed(r) /\ ~Skip(r.exc) THEN Append(acc.fails, r.exc) ELSE acc.fails,
                       skip |-> IF Skip(r.exc) THEN <<r.exc>> ELSE <<>>], dummy)
\* r: result of the body run in EnterFrame(st0); returned: the result of the frame, in the caller's
\* environment env and with the caller's frame restored.  swallowed: the body ended by a `return`
\* that the function captured.
LeaveFrame(r, st0, env, swallowed) ==
  IF Skip(r.exc) THEN [r EXCEPT !.env = env, !.st.df = st0.df, !.st.infr = st0.infr]
  ELSE LET t == RunThunks(env, r.st.df, Len(r.st.df),
                          [st |-> [r.st EXCEPT !.df = <<>>], out |-> <<>>, fails |-> <<>>, skip |-> <<>>], 0)
           exc == IF t.skip # <<>> THEN t.skip[1]
                  ELSE IF Failed(r) THEN r.exc
                  ELSE IF t.fails = <<>> THEN COk
                  ELSE IF Len(t.fails) > 1 THEN OOM("Unspecified: several deferred callbacks fail")
                  ELSE IF swallowed THEN OOM("Unspecified: return, then a deferred callback fails")
                  ELSE t.fails[1]
       IN [r EXCEPT !.st = [t.st EXCEPT !.df = st0.df, !.infr = st0.infr], !.env = env,
                    !.out = r.out \o t.out, !.exc = exc, !.vs = <<>>]

ExecBlock(st, env, chunk) ==
  LeaveFrame(ExecChunk(EnterFrame(st), env, chunk.ps, 1), st, env, FALSE)

\* ---- expressions ("Expressions")
Explode(st, env, v) ==
  IF v.k = "list" THEN Vals(st, env, v.es)
  ELSE IF v.k = "str" THEN (IF Ascii(v.s) THEN Vals(st, env, Elements(v)) ELSE Throw(st, env, COOM))
  ELSE Throw(st, env, CType)                               \* "cannot iterate"

\* "Qualified name": $a:b:c is $a:[b:][c] -- the first component is resolved like a normal variable,
\* the following ones in the namespace held by the previous one (at run time).
\* QEnv: the environment in which the last component is looked up.  -> [ok, env] | [ok |-> FALSE, c]
QEnv(st, env, q, i) ==
  IF i > Len(q) THEN [ok |-> TRUE, env |-> env]
  ELSE IF ~Bound(env, q[i]) THEN
         (IF i = 1 THEN [ok |-> FALSE, c |-> OOM("unresolved namespace")] ELSE [ok |-> FALSE, c |-> CNoSuchVar])
  ELSE LET v == st.store[env[q[i]]] IN
       IF v.k # "ns" THEN [ok |-> FALSE, c |-> CNoSuchVar] ELSE QEnv(st, v.env, q, i + 1)

EvalVar(st, env, e) ==
  IF e.q # <<>> THEN
    LET qe == QEnv(st, env, e.q, 1) IN
    IF ~qe.ok THEN Throw(st, env, qe.c)
    ELSE IF ~Bound(qe.env, e.n) THEN Throw(st, env, CNoSuchVar)          \* "variable $m:x not found", at run time
    ELSE LET v == st.store[qe.env[e.n]] IN
         IF e.explode THEN Explode(st, env, v) ELSE Vals(st, env, <<v>>)
  ELSE IF Bound(env, e.n) THEN
    LET v == st.store[env[e.n]] IN
    IF e.explode THEN Explode(st, env, v) ELSE Vals(st, env, <<v>>)
  ELSE LET b == BuiltinVar(e.n) IN
       IF b # <<>> THEN (IF e.explode THEN Explode(st, env, b[1]) ELSE Vals(st, env, b))
       ELSE IF \E f \in BuiltinFnNames : e.n = f \o "~" THEN
              LET f == CHOOSE f \in BuiltinFnNames : e.n = f \o "~" IN
              IF e.explode THEN Throw(st, env, CType) ELSE Vals(st, env, <<VBuiltin(f)>>)
       ELSE Throw(st, env, OOM("unresolved variable"))

\* "Function": a lambda evaluates to a new closure over the current environment.
\* closure == [k:"fn", id, params, rest, optn: Seq(name), optd: Seq(Value), body: chunk, env, wrap]
\* wrap: defined with `fn` (captures `return`).
Closure(id, e, optd, env, wrap) ==
  [k |-> "fn", id |-> id, params |-> e.params, rest |-> e.rest,
   optn |-> [i \in 1..Len(e.opts) |-> e.opts[i][1]], optd |-> optd,
   body |-> e.body, env |-> env, wrap |-> wrap]

\* Outer product of two value sequences under concatenation ("Compounding"): numbers are
\* converted to strings, other types cannot be concatenated.
Concat2(a, b) == IF Stringable(a) /\ Stringable(b) THEN Good(VStr(ToBytes(a) \o ToBytes(b))) ELSE Bad(CType)
OuterOK(vs, us) == \A i \in 1..Len(vs) : \A j \in 1..Len(us) : Concat2(vs[i], us[j]).ok
Outer(vs, us) == [q \in 1..(Len(vs) * Len(us)) |->
                    Concat2(vs[((q - 1) \div Len(us)) + 1], us[((q - 1) % Len(us)) + 1]).v]

\* Indexing: every indexee value with every index value, results of the first indexee first.
RECURSIVE IndexAll(_, _, _, _)
IndexAll(vs, is, i, j) ==            \* -> [ok, vs] | [ok |-> FALSE, c]
  IF i > Len(vs) THEN [ok |-> TRUE, vs |-> <<>>]
  ELSE IF j > Len(is) THEN IndexAll(vs, is, i + 1, 1)
  ELSE LET r == Index(vs[i], is[j]) IN
       IF ~r.ok THEN [ok |-> FALSE, c |-> r.c]
       ELSE LET rest == IndexAll(vs, is, i, j + 1) IN
            IF rest.ok THEN [ok |-> TRUE, vs |-> <<r.v>> \o rest.vs] ELSE rest

EvalExpr(st, env, e) ==
  CASE e.t = "str"   -> Vals(st, env, <<VStr(e.v)>>)
    [] e.t = "var"   -> EvalVar(st, env, e)
    [] e.t = "list"  -> LET r == EvalExprs(st, env, e.es, 1) IN
                        IF Failed(r) THEN r ELSE [r EXCEPT !.vs = <<VList(r.vs)>>]
    [] e.t = "map"   -> EvalPairs(st, env, e.ps, 1, <<>>)
    [] e.t = "brace" -> EvalExprs(st, env, e.es, 1)
    [] e.t = "cat"   -> LET r == EvalExpr(st, env, e.es[1]) IN
                        IF Failed(r) THEN r ELSE EvalCat(r.st, r.env, e.es, 2, r)
    [] e.t = "idx"   -> LET rh == EvalExpr(st, env, e.e) IN
                        IF Failed(rh) THEN rh
                        ELSE LET ri == EvalExprs(rh.st, rh.env, e.is, 1) IN
                             IF Failed(ri) THEN After(rh, ri)
                             ELSE LET x == IndexAll(rh.vs, ri.vs, 1, 1) IN
                                  IF x.ok THEN After(rh, [ri EXCEPT !.vs = x.vs])
                                  ELSE After(rh, [ri EXCEPT !.vs = <<>>, !.exc = x.c])
    [] e.t = "cap"   -> \* "Output capture": same scope; the chunk's value output becomes the values
                        LET r == ExecChunk(st, env, e.c.ps, 1) IN
                        IF Failed(r) THEN [r EXCEPT !.out = <<>>]
                        ELSE LET cp == Captured(r.out) IN
                             IF cp.ok THEN [r EXCEPT !.vs = cp.vs, !.out = <<>>]
                             ELSE [r EXCEPT !.out = <<>>, !.exc = CUnspecBands]
    [] e.t = "xcap"  -> \* "Exception capture": evaluates to the exception or $ok; output is not affected
                        LET r == ExecChunk(st, env, e.c.ps, 1) IN
                        IF Skip(r.exc) THEN r
                        ELSE [r EXCEPT !.vs = <<VExc(r.exc)>>, !.exc = COk]
    [] e.t = "lam"   -> \* option defaults are evaluated now; each must be exactly one value
                        LET rd == EvalSingles(st, env, [i \in 1..Len(e.opts) |-> e.opts[i][2]], 1, <<>>, CArity) IN
                        IF Failed(rd) THEN rd
                        ELSE [rd EXCEPT !.st.nfn = @ + 1,
                                        !.vs = <<Closure(rd.st.nfn, e, rd.vs, rd.env, FALSE)>>]
    [] OTHER -> Throw(st, env, OOM("expression kind outside the model"))

EvalExprs(st, env, es, i) ==
  IF i > Len(es) THEN Done(st, env)
  ELSE LET r == EvalExpr(st, env, es[i]) IN
       IF Failed(r) THEN r
       ELSE AfterV(r, EvalExprs(r.st, r.env, es, i + 1))

\* acc: result so far (values of es[1..i-1] compounded)
EvalCat(st, env, es, i, acc) ==
  IF i > Len(es) THEN acc
  ELSE LET r == EvalExpr(st, env, es[i]) IN
       IF Failed(r) THEN After(acc, [r EXCEPT !.vs = <<>>])
       ELSE IF ~OuterOK(acc.vs, r.vs) THEN After(acc, [r EXCEPT !.vs = <<>>, !.exc = CType])
       ELSE EvalCat(r.st, r.env, es, i + 1, After(acc, [r EXCEPT !.vs = Outer(acc.vs, r.vs)]))

\* Map literal: pairs in order; a pair whose key and value expressions yield n keys and n values
\* contributes n entries; different counts are an error.
RECURSIVE AssocAll(_, _, _, _)
AssocAll(ps, ks, vs, i) == IF i > Len(ks) THEN ps ELSE AssocAll(MapAssoc(ps, ks[i], vs[i]), ks, vs, i + 1)
EvalPairs(st, env, pairs, i, acc) ==
  IF i > Len(pairs) THEN Vals(st, env, <<VMap(acc)>>)
  ELSE LET rk == EvalExpr(st, env, pairs[i][1]) IN
       IF Failed(rk) THEN [rk EXCEPT !.vs = <<>>]
       ELSE LET rv == EvalExpr(rk.st, rk.env, pairs[i][2]) IN
            IF Failed(rv) THEN After(rk, [rv EXCEPT !.vs = <<>>])
            ELSE IF Len(rk.vs) # Len(rv.vs) THEN After(rk, [rv EXCEPT !.vs = <<>>, !.exc = CArity])
            ELSE IF \E q \in 1..Len(rk.vs) : ~KeyOK(rk.vs[q]) THEN After(rk, [rv EXCEPT !.vs = <<>>, !.exc = COOM])
            ELSE After(rk, After(rv, EvalPairs(rv.st, rv.env, pairs, i + 1, AssocAll(acc, rk.vs, rv.vs, 1))))

\* Each expression must evaluate to exactly one value, else the cause c1.
EvalSingles(st, env, es, i, acc, c1) ==
  IF i > Len(es) THEN Vals(st, env, acc)
  ELSE LET r == EvalExpr(st, env, es[i]) IN
       IF Failed(r) THEN [r EXCEPT !.vs = <<>>]
       ELSE IF Len(r.vs) # 1 THEN [r EXCEPT !.vs = <<>>, !.exc = c1]
       ELSE After(r, EvalSingles(r.st, r.env, es, i + 1, Append(acc, r.vs[1]), c1))

\* ---- variables and assignment ("var", "set")
RECURSIVE Declare(_, _, _, _, _)
\* names[i..] bound, in order, to fresh variables holding vals[i..]
Declare(st, env, names, vals, i) ==
  IF i > Len(names) THEN [st |-> st, env |-> env]
  ELSE Declare(Alloc(st, vals[i]), Bind(env, names[i], NewLoc(st)), names, vals, i + 1)

\* An lvalue is resolved, before the right-hand side is evaluated, to
\*   [loc, as: containers along the index path, idx: index values]
\* (element assignment `a[i][j] = v` is `a = (assoc $a i (assoc $a[i] j v))`, the containers being
\* read when the lvalue is resolved; with several element lvalues of one variable each uses the
\* value read then -- the documented implementation behaviour, not forbidden by the reference).
RECURSIVE Assocers(_, _, _, _)
Assocers(v, idx, i, acc) ==
  IF i >= Len(idx) THEN [ok |-> TRUE, as |-> Append(acc, v)]
  ELSE LET r == Index(v, idx[i]) IN
       IF ~r.ok THEN [ok |-> FALSE, c |-> r.c] ELSE Assocers(r.v, idx, i + 1, Append(acc, v))

ResolveLVs(st, env, lvs, i, acc) ==
  IF i > Len(lvs) THEN Vals(st, env, acc)
  ELSE LET lv0 == lvs[i]
           qe == QEnv(st, env, lv0.q, 1)
           \* the lvalue seen in the environment its name lives in
           lenv == IF qe.ok THEN qe.env ELSE env
           lv == lv0
       IN
       IF ~qe.ok THEN Throw(st, env, qe.c)
       ELSE IF ~Bound(lenv, lv.n) THEN Throw(st, env, IF lv.q # <<>> THEN CNoSuchVar ELSE COOM)
       ELSE IF lv.idx = <<>> THEN
              ResolveLVs(st, env, lvs, i + 1, Append(acc, [loc |-> lenv[lv.n], as |-> <<>>, idx |-> <<>>]))
       ELSE LET ri == EvalSingles(st, env, lv.idx, 1, <<>>, COOM) IN     \* "multi indexing not implemented"
            IF Failed(ri) THEN ri
            ELSE LET a == Assocers(ri.st.store[lenv[lv.n]], ri.vs, 1, <<>>) IN
                 IF ~a.ok THEN After(ri, Throw(ri.st, ri.env, a.c))
                 ELSE After(ri, ResolveLVs(ri.st, ri.env, lvs, i + 1,
                                           Append(acc, [loc |-> lenv[lv.n], as |-> a.as, idx |-> ri.vs])))

RECURSIVE AssocPath(_, _, _, _)
AssocPath(as, idx, i, v) ==
  IF i = 0 THEN Good(v)
  ELSE LET r == Assoc(as[i], idx[i], v) IN IF ~r.ok THEN r ELSE AssocPath(as, idx, i - 1, r.v)

RECURSIVE StoreAll(_, _, _, _)
\* refs[i] := vals[i] in order; -> [ok, st] | [ok |-> FALSE, st, c]
StoreAll(st, refs, vals, i) ==
  IF i > Len(refs) THEN [ok |-> TRUE, st |-> st]
  ELSE LET nv == AssocPath(refs[i].as, refs[i].idx, Len(refs[i].idx), vals[i]) IN
       IF ~nv.ok THEN [ok |-> FALSE, st |-> st, c |-> nv.c]
       ELSE StoreAll(SetLoc(st, refs[i].loc, nv.v), refs, vals, i + 1)

\* Distribution of n values over m lvalues / parameters with an optional rest position rp
\* (1-based, 0 = none): -> [ok, vals]
Distribute(vals, m, rp) ==
  IF rp = 0 THEN (IF Len(vals) = m THEN [ok |-> TRUE, vals |-> vals] ELSE [ok |-> FALSE])
  ELSE IF Len(vals) < m - 1 THEN [ok |-> FALSE]
  ELSE LET extra == Len(vals) - m IN     \* the rest position takes extra + 1 values
       [ok |-> TRUE,
        vals |-> [j \in 1..m |-> IF j < rp THEN vals[j]
                                 ELSE IF j = rp THEN VList(SubSeq(vals, rp, rp + extra))
                                 ELSE vals[j + extra]]]

\* The variable of `for` / `catch`: the variable of that name in scope, else a new variable of
\* the current scope.  -> [st, env, loc]
ScopeVar(st, env, n) ==
  IF Bound(env, n) THEN [st |-> st, env |-> env, loc |-> env[n]]
  ELSE [st |-> Alloc(st, VNil), env |-> Bind(env, n, NewLoc(st)), loc |-> NewLoc(st)]

\* ---- functions ("Function", "fn", "Exception and Flow Commands")
\* find option name in the evaluated options <<name, value>>; the last occurrence wins
RECURSIVE OptFind(_, _, _)
OptFind(opts, n, i) == IF i = 0 THEN 0 ELSE IF opts[i][1] = n THEN i ELSE OptFind(opts, n, i - 1)
SeqHas(s, x) == \E i \in 1..Len(s) : s[i] = x

RECURSIVE CallBuiltin(_, _, _, _, _)

\* CallFn: call the function value f with evaluated arguments and options <<name, value>>.
\* env is the caller's environment (returned unchanged).
CallFn(st, env, f, args, opts) ==
  IF f.id = 0 THEN CallBuiltin(st, env, f.b, args, opts)
  ELSE IF st.depth >= MaxDepth THEN Throw(st, env, OOM("call depth"))
  ELSE
    LET d == Distribute(args, Len(f.params), f.rest) IN
    IF ~d.ok THEN Throw(st, env, CArity)
    ELSE IF \E i \in 1..Len(opts) : ~SeqHas(f.optn, opts[i][1]) THEN Throw(st, env, CBadOpt)
    ELSE LET optv == [i \in 1..Len(f.optn) |->
                        LET j == OptFind(opts, f.optn[i], Len(opts)) IN
                        IF j = 0 THEN f.optd[i] ELSE opts[j][2]]
             sc == Declare([st EXCEPT !.depth = @ + 1], f.env, f.params \o f.optn, d.vals \o optv, 1)
             r == ExecChunk(EnterFrame(sc.st), sc.env, f.body.ps, 1)
             swallowed == f.wrap /\ r.exc.c = "flow" /\ r.exc.n = "return"
             rf == LeaveFrame([r EXCEPT !.exc = IF swallowed THEN COk ELSE r.exc], st, env, swallowed)
         IN [rf EXCEPT !.st.depth = st.depth]

\* ---- commands ("Ordinary command")
\* The value inputs of a command taking `inputs?`: the extra argument if given (an iterable value),
\* else the value input, which is read to its end.  -> [ok, vs, st] | [ok |-> FALSE, c]
Inputs(st, args, nfixed) ==
  IF Len(args) = nfixed + 1 THEN
    LET v == args[nfixed + 1] IN
    IF ~Iterable(v) THEN [ok |-> FALSE, c |-> CType]
    ELSE IF v.k = "str" /\ ~Ascii(v.s) THEN [ok |-> FALSE, c |-> COOM]
    ELSE [ok |-> TRUE, vs |-> Elements(v), st |-> st, unord |-> FALSE]
  ELSE IF ~st.inok THEN [ok |-> FALSE, c |-> OOM("a callback reads its caller's input")]
  ELSE LET cp == Captured(Expand(st.inp)) IN  \* the value input and the lines of the byte input
       IF ~cp.ok THEN [ok |-> FALSE, c |-> CUnspecBands]
       ELSE [ok |-> TRUE, vs |-> cp.vs, st |-> [st EXCEPT !.inp = <<>>, !.rd = TRUE], unord |-> HasUnord(st.inp)]

\* an exact integer argument (take, drop): [ok, n] | [ok |-> FALSE, c]
IntArg(v) == LET c == AsNum(v) IN
             IF c.cls = "int" THEN [ok |-> TRUE, n |-> c.n]
             ELSE IF c.cls = "unk" THEN [ok |-> FALSE, c |-> COOM] ELSE [ok |-> FALSE, c |-> CType]

RECURSIVE CompactSeq(_, _)
CompactSeq(vs, i) == IF i > Len(vs) THEN <<>>
                     ELSE IF i > 1 /\ ValEq(vs[i], vs[i - 1]) THEN CompactSeq(vs, i + 1)
                     ELSE <<vs[i]>> \o CompactSeq(vs, i + 1)

\* range: the numbers start, start+step, ... before end
RECURSIVE RangeSeq(_, _, _, _)
RangeSeq(cur, end, step, n) ==
  IF n > 64 THEN <<VNil>>                                  \* too long for the model (marker)
  ELSE IF (step > 0 /\ cur >= end) \/ (step < 0 /\ cur <= end) THEN <<>>
  ELSE <<VNum(cur)>> \o RangeSeq(cur + step, end, step, n + 1)

\* stable insertion sort of items [v, key] by key; -> [ok, items] | [ok |-> FALSE]
RECURSIVE InsertSorted(_, _, _)
InsertSorted(sorted, it, i) ==       \* insert after the last element not greater than it
  IF i = 0 THEN [ok |-> TRUE, items |-> <<it>> \o sorted]
  ELSE LET o == Cmp(sorted[i].key, it.key) IN
       IF o = "unc" THEN [ok |-> FALSE]
       ELSE IF o = "gt" THEN InsertSorted(sorted, it, i - 1)
       ELSE [ok |-> TRUE, items |-> SubSeq(sorted, 1, i) \o <<it>> \o SubSeq(sorted, i + 1, Len(sorted))]
RECURSIVE SortItems(_, _, _)
SortItems(items, i, acc) ==
  IF i > Len(items) THEN [ok |-> TRUE, items |-> acc]
  ELSE LET r == InsertSorted(acc, items[i], Len(acc)) IN
       IF ~r.ok THEN r ELSE SortItems(items, i + 1, r.items)
\* every pair comparable (the real sort reports an uncomparable pair whichever pairs it compares
\* only if all pairs are checked: with an uncomparable pair present the outcome is left open)
AllComparable(items) == \A i \in 1..Len(items) : \A j \in 1..Len(items) : Cmp(items[i].key, items[j].key) # "unc"
AnyUncomparableAdjacent(items) == \E i \in 1..(Len(items) - 1) : Cmp(items[i].key, items[i + 1].key) = "unc"
Reverse(s) == [i \in 1..Len(s) |-> s[Len(s) + 1 - i]]

RECURSIVE EachLoop(_, _, _, _, _, _)
RECURSIVE KeepLoop(_, _, _, _, _, _)
RECURSIVE KeyLoop(_, _, _, _, _, _)

\* a callback of each / keep-if / order runs with its caller's ports: it must not read the input
CallBack(st, env, f, args) ==
  LET r == CallFn([st EXCEPT !.inok = FALSE], env, f, args, <<>>) IN [r EXCEPT !.st.inok = st.inok]

\* each: `break` ends the iteration, `continue` one call; any other exception ends it and is rethrown
EachLoop(st, env, f, vs, i, acc) ==
  IF i > Len(vs) THEN acc
  ELSE LET r == CallBack(st, env, f, <<vs[i]>>) IN
       IF r.exc.c = "ok" \/ (r.exc.c = "flow" /\ r.exc.n = "continue")
       THEN EachLoop(r.st, env, f, vs, i + 1, After(acc, [r EXCEPT !.exc = COk]))
       ELSE IF r.exc.c = "flow" /\ r.exc.n = "break" THEN After(acc, [r EXCEPT !.exc = COk])
       ELSE After(acc, r)

\* keep-if: the predicate must output exactly one boolean
KeepLoop(st, env, f, vs, i, acc) ==
  IF i > Len(vs) THEN acc
  ELSE LET r == CallBack(st, env, f, <<vs[i]>>) IN
       IF Failed(r) THEN After(acc, [r EXCEPT !.out = <<>>])
       ELSE LET cp == Captured(r.out) IN
       IF ~cp.ok THEN After(acc, [r EXCEPT !.out = <<>>, !.exc = CUnspecBands])
       ELSE IF Len(cp.vs) # 1 THEN After(acc, [r EXCEPT !.out = <<>>, !.exc = CArity])
       ELSE IF cp.vs[1].k # "bool" THEN After(acc, [r EXCEPT !.out = <<>>, !.exc = CBadValue])
       ELSE KeepLoop(r.st, env, f, vs, i + 1,
                     After(acc, [r EXCEPT !.out = IF cp.vs[1].b THEN <<vs[i]>> ELSE <<>>]))

\* order &key: the callback must output exactly one value per input; acc.vs collects the keys
KeyLoop(st, env, f, vs, i, acc) ==
  IF i > Len(vs) THEN acc
  ELSE LET r == CallBack(st, env, f, <<vs[i]>>) IN
       IF Failed(r) THEN [r EXCEPT !.out = <<>>, !.vs = <<>>]
       ELSE LET cp == Captured(r.out) IN
       IF ~cp.ok THEN [r EXCEPT !.out = <<>>, !.vs = <<>>, !.exc = CUnspecBands]
       ELSE IF Len(cp.vs) # 1 THEN [r EXCEPT !.out = <<>>, !.vs = <<>>, !.exc = CArity]
       ELSE KeyLoop(r.st, env, f, vs, i + 1, [r EXCEPT !.vs = acc.vs \o cp.vs, !.out = <<>>])

RECURSIVE SplitAt(_, _, _, _)
\* pieces of s between non-overlapping occurrences of sep (not empty), scanning from the left
SplitAt(s, sep, i, cur) ==
  IF i > Len(s) THEN <<VStr(cur)>>
  ELSE IF i + Len(sep) - 1 <= Len(s) /\ SubSeq(s, i, i + Len(sep) - 1) = sep
       THEN <<VStr(cur)>> \o SplitAt(s, sep, i + Len(sep), <<>>)
  ELSE SplitAt(s, sep, i + 1, Append(cur, s[i]))

\* order: "The sorting process is stable"; the comparator is compare (Cmp), or &less-than, applied
\* to the values or to their &key images; &reverse reverses the order.  For up to 20 values the
\* model follows an insertion sort step by step, asking the comparator exactly for the pairs
\* (x[j], x[j-1]) such a sort asks for, so that a comparator with effects, an inconsistent one, an
\* uncomparable pair or a failing callback give the same outcome: the first failure ends the
\* comparisons and is the exception of `order`.
\* Less: -> [r: result (state, exception), lt: BOOLEAN]
LessOf(st, env, lt, a, b) ==
  IF lt.k = "nil" THEN
    IF EqUndecided(a, b) THEN [r |-> Throw(st, env, OOM("identity of exception values")), lt |-> FALSE]
    ELSE LET o == Cmp(a, b) IN
         IF o = "unc" THEN [r |-> Throw(st, env, CBadValue), lt |-> FALSE]
         ELSE [r |-> Done(st, env), lt |-> o = "lt"]
  ELSE LET r == CallBack(st, env, lt, <<a, b>>) IN
       IF Failed(r) THEN [r |-> [r EXCEPT !.out = <<>>], lt |-> FALSE]
       ELSE LET cp == Captured(r.out) IN
            IF ~cp.ok THEN [r |-> [r EXCEPT !.out = <<>>, !.exc = CUnspecBands], lt |-> FALSE]
            ELSE IF Len(cp.vs) # 1 THEN [r |-> [r EXCEPT !.out = <<>>, !.exc = CArity], lt |-> FALSE]
            ELSE IF cp.vs[1].k # "bool" THEN [r |-> [r EXCEPT !.out = <<>>, !.exc = CBadValue], lt |-> FALSE]
            ELSE [r |-> [r EXCEPT !.out = <<>>], lt |-> cp.vs[1].b]
RECURSIVE SortLoop(_, _, _, _, _, _, _, _)
\* insertion sort: for i in 2..n: j from i down while less(x[j], x[j-1]) swap.  -> [r, items]
SortLoop(st, env, lt, rev, items, i, j, dummy) ==
  IF i > Len(items) THEN [r |-> Done(st, env), items |-> items]
  ELSE IF j < 2 THEN SortLoop(st, env, lt, rev, items, i + 1, i + 1, dummy)
  ELSE LET a == IF rev THEN items[j - 1].key ELSE items[j].key
           b == IF rev THEN items[j].key ELSE items[j - 1].key
           l == LessOf(st, env, lt, a, b)
       IN IF Failed(l.r) THEN [r |-> l.r, items |-> items]
          ELSE IF l.lt THEN SortLoop(l.r.st, env, lt, rev,
                                     [items EXCEPT ![j] = items[j - 1], ![j - 1] = items[j]], i, j - 1, dummy)
          ELSE SortLoop(l.r.st, env, lt, rev, items, i + 1, i + 1, dummy)

OptNamesOK(opts, allowed) == \A i \in 1..Len(opts) : opts[i][1] \in allowed
OptVal(opts, n, dflt) == LET j == OptFind(opts, n, Len(opts)) IN IF j = 0 THEN dflt ELSE opts[j][2]

CallBuiltin(st, env, name, args, opts) ==
  \* options given to a builtin that takes none: an exception, but its precedence over the arity
  \* and type errors of the same call is an implementation detail -> outside the model
  IF name \in PureNames THEN
    IF opts # <<>> /\ name # "nop" THEN Throw(st, env, OOM("options given to a builtin without options"))
    ELSE LET p == Pure(name, args) IN Res(st, env, <<>>, p.out, p.exc)
  ELSE IF opts # <<>> /\ name \notin {"range", "order", "echo", "print"} THEN Throw(st, env, OOM("options given to a builtin without options"))
  ELSE CASE name = "count" ->
              IF Len(args) > 1 THEN Throw(st, env, CArity)
              ELSE IF Len(args) = 1 THEN
                     LET c == CountOf(args[1]) IN
                     IF c.ok THEN Outs(st, env, <<VNum(c.v)>>) ELSE Throw(st, env, c.c)
              ELSE LET i == Inputs(st, args, 0) IN
                   IF ~i.ok THEN Throw(st, env, i.c) ELSE Outs(i.st, env, <<VNum(Len(i.vs))>>)
         [] name = "fail" ->
              IF Len(args) # 1 THEN Throw(st, env, CArity)
              ELSE IF args[1].k = "exc" THEN                        \* "If $v is already an exception, fail rethrows it"
                     (IF args[1].c.c = "ok" THEN Throw(st, env, COOM) ELSE Throw(st, env, args[1].c))
              ELSE Throw(st, env, CFail(args[1]))
         [] name \in {"echo", "print"} ->
              \* the arguments as strings joined by &sep (a space), echo adds a newline; written to the byte band
              IF ~OptNamesOK(opts, {"sep"}) THEN Throw(st, env, CBadOpt)
              ELSE LET sep == OptVal(opts, "sep", VStr(<<32>>)) IN
                   IF sep.k # "str" THEN Throw(st, env, OOM("&sep is not a string"))
                   ELSE IF \E q \in 1..Len(args) : ~Stringable(args[q]) THEN Throw(st, env, OOM("echo of a value that is not a string or number"))
                   ELSE LET body == Flatten([q \in 1..Len(args) |-> (IF q > 1 THEN sep.s ELSE <<>>) \o ToBytes(args[q])])
                            bs == IF name = "echo" THEN Append(body, 10) ELSE body
                        IN IF bs = <<>> THEN Done(st, env) ELSE Outs(st, env, <<VBytes(bs)>>)
         [] name \in {"str:has-prefix", "str:has-suffix"} ->
              IF Len(args) # 2 THEN Throw(st, env, CArity)
              ELSE IF args[1].k # "str" \/ args[2].k # "str" THEN Throw(st, env, CType)
              ELSE LET a == args[1].s  b == args[2].s IN
                   Outs(st, env, <<VBool(Len(b) <= Len(a) /\
                        (IF name = "str:has-prefix" THEN SubSeq(a, 1, Len(b)) = b
                         ELSE SubSeq(a, Len(a) - Len(b) + 1, Len(a)) = b))>>)
         [] name = "str:join" ->         \* the string inputs joined by the separator
              IF Len(args) < 1 \/ Len(args) > 2 THEN Throw(st, env, CArity)
              ELSE IF args[1].k # "str" THEN Throw(st, env, CType)
              ELSE LET i == Inputs(st, args, 1) IN
                   IF ~i.ok THEN Throw(st, env, i.c)
                   ELSE IF i.unord THEN Throw(st, env, CUnspecBands)
                   ELSE IF \E q \in 1..Len(i.vs) : i.vs[q].k # "str" THEN Throw(i.st, env, CBadValue)
                   ELSE Outs(i.st, env, <<VStr(Flatten([q \in 1..Len(i.vs) |-> (IF q > 1 THEN args[1].s ELSE <<>>) \o i.vs[q].s]))>>)
         [] name = "str:split" ->        \* the pieces of the string between occurrences of the separator
              IF Len(args) # 2 THEN Throw(st, env, CArity)
              ELSE IF args[1].k # "str" \/ args[2].k # "str" THEN Throw(st, env, CType)
              ELSE IF args[1].s = <<>> THEN
                     (IF Ascii(args[2].s) THEN Outs(st, env, Elements(args[2])) ELSE Throw(st, env, OOM("split of a non-ASCII string into characters")))
              ELSE Outs(st, env, SplitAt(args[2].s, args[1].s, 1, <<>>))
         [] name = "keys" ->
              IF Len(args) # 1 THEN Throw(st, env, CArity)
              ELSE IF args[1].k # "map" THEN Throw(st, env, IF args[1].k \in {"fn", "exc", "ns", "reason"} THEN OOM("keys of a pseudo-map") ELSE CType)
              ELSE Outs(st, env, <<VUnord([q \in 1..Len(args[1].ps) |-> args[1].ps[q][1]])>>)
         [] name = "defer" ->
              IF Len(args) # 1 THEN Throw(st, env, CArity)
              ELSE IF args[1].k # "fn" THEN Throw(st, env, CType)
              ELSE IF ~st.infr THEN Throw(st, env, [c |-> "defer-outside"])   \* "defer must be called from within a closure"
              ELSE Done([st EXCEPT !.df = Append(@, [t |-> "cb", f |-> args[1]])], env)
         [] name \in {"return", "break", "continue"} ->
              IF Len(args) # 0 THEN Throw(st, env, CArity) ELSE Throw(st, env, CFlow(name))
         [] name \in {"all", "one", "compact"} ->
              IF Len(args) > 1 THEN Throw(st, env, CArity)
              ELSE LET i == Inputs(st, args, 0) IN
                   IF ~i.ok THEN Throw(st, env, i.c)
                   ELSE IF i.unord THEN Throw(st, env, CUnspecBands)
                   ELSE IF name = "all" THEN Outs(i.st, env, i.vs)
                   ELSE IF name = "compact" THEN
                          (IF \E q \in 1..(Len(i.vs) - 1) : EqUndecided(i.vs[q], i.vs[q + 1])
                           THEN Throw(i.st, env, OOM("identity of exception values"))
                           ELSE Outs(i.st, env, CompactSeq(i.vs, 1)))
                   ELSE IF Len(i.vs) = 1 THEN Outs(i.st, env, i.vs) ELSE Throw(i.st, env, CArity)
         [] name \in {"take", "drop"} ->
              IF Len(args) < 1 \/ Len(args) > 2 THEN Throw(st, env, CArity)
              ELSE LET n == IntArg(args[1]) IN
                   IF ~n.ok THEN Throw(st, env, n.c)
                   ELSE LET i == Inputs(st, args, 1) IN
                        IF ~i.ok THEN Throw(st, env, i.c)
                        ELSE IF i.unord THEN Throw(st, env, CUnspecBands)
                        ELSE LET m == IF n.n < 0 THEN 0 ELSE IF n.n > Len(i.vs) THEN Len(i.vs) ELSE n.n IN
                             IF name = "take" THEN Outs(i.st, env, SubSeq(i.vs, 1, m))
                             ELSE Outs(i.st, env, SubSeq(i.vs, m + 1, Len(i.vs)))
         [] name = "range" ->
              IF ~OptNamesOK(opts, {"step"}) THEN Throw(st, env, CBadOpt)
              ELSE LET ns == NumArgs(args \o (IF opts = <<>> THEN <<>> ELSE <<OptVal(opts, "step", VNil)>>)) IN
                   IF AnyUnk(ns) \/ AnyRat(ns) THEN Throw(st, env, OOM("range over numbers outside the model"))
                   ELSE IF AnyNotNum(ns) THEN Throw(st, env, CType)      \* arguments are converted first,
                   ELSE IF Len(args) < 1 \/ Len(args) > 2 THEN Throw(st, env, CArity)   \* then counted
                   ELSE LET start == IF Len(args) = 1 THEN 0 ELSE ns[1].n
                            end == IF Len(args) = 1 THEN ns[1].n ELSE ns[2].n
                            hasStep == opts # <<>>
                            step == IF hasStep THEN ns[Len(ns)].n ELSE IF start <= end THEN 1 ELSE -1
                        IN IF (start <= end /\ step <= 0) \/ (start > end /\ step >= 0) THEN Throw(st, env, CBadValue)
                           ELSE LET vs == RangeSeq(start, end, step, 0) IN
                                IF vs # <<>> /\ vs[Len(vs)].k = "nil" THEN Throw(st, env, COOM)
                                ELSE Outs(st, env, vs)
         [] name = "each" ->
              IF Len(args) < 1 \/ Len(args) > 2 THEN Throw(st, env, CArity)
              ELSE IF args[1].k # "fn" THEN Throw(st, env, CType)
              ELSE LET i == Inputs(st, args, 1) IN
                   IF ~i.ok THEN Throw(st, env, i.c)
                   ELSE IF i.unord THEN Throw(st, env, CUnspecBands)
                   ELSE EachLoop(i.st, env, args[1], i.vs, 1, Done(i.st, env))
         [] name = "keep-if" ->
              IF Len(args) < 1 \/ Len(args) > 2 THEN Throw(st, env, CArity)
              ELSE IF args[1].k # "fn" THEN Throw(st, env, CType)
              ELSE LET i == Inputs(st, args, 1) IN
                   IF ~i.ok THEN Throw(st, env, i.c)
                   ELSE IF i.unord THEN Throw(st, env, CUnspecBands)
                   ELSE KeepLoop(i.st, env, args[1], i.vs, 1, Done(i.st, env))
         [] name = "order" ->
              IF Len(args) > 1 THEN Throw(st, env, CArity)
              ELSE IF ~OptNamesOK(opts, {"reverse", "key", "less-than"}) THEN
                   (IF OptNamesOK(opts, {"reverse", "key", "less-than", "total"}) THEN Throw(st, env, OOM("order &total"))
                    ELSE Throw(st, env, CBadOpt))
              ELSE LET rev == OptVal(opts, "reverse", VBool(FALSE))
                       key == OptVal(opts, "key", VNil)
                       lt  == OptVal(opts, "less-than", VNil)
                   IN IF rev.k # "bool" \/ key.k \notin {"nil", "fn"} \/ lt.k \notin {"nil", "fn"} THEN Throw(st, env, OOM("order: option value"))
                      ELSE LET i == Inputs(st, args, 0) IN
                           IF ~i.ok THEN Throw(st, env, i.c)
                           ELSE IF i.unord /\ (key.k # "nil" \/ lt.k # "nil") THEN Throw(i.st, env, OOM("order of keys"))
                           ELSE IF Len(i.vs) > 20 THEN Throw(i.st, env, OOM("order of more than 20 values"))
                           ELSE LET rk == IF key.k = "nil" THEN Vals(i.st, env, i.vs)
                                          ELSE KeyLoop(i.st, env, key, i.vs, 1, Vals(i.st, env, <<>>))
                                IN IF Failed(rk) THEN rk
                                   ELSE LET items == [q \in 1..Len(i.vs) |-> [v |-> i.vs[q], key |-> rk.vs[q]]]
                                            srt == SortLoop(rk.st, env, lt, rev.b, items, 2, 2, <<>>)
                                        IN IF Failed(srt.r) THEN [srt.r EXCEPT !.vs = <<>>, !.out = <<>>]     \* "without outputting any value"
                                           ELSE [srt.r EXCEPT !.vs = <<>>, !.out = [q \in 1..Len(srt.items) |-> srt.items[q].v]]
         [] OTHER -> Throw(st, env, OOM("builtin outside the model"))

\* options of a command: &name=expr, each expression exactly one value
EvalOpts(st, env, opts, i, acc) ==
  IF i > Len(opts) THEN Vals(st, env, acc)
  ELSE LET r == EvalExpr(st, env, opts[i][2]) IN
       IF Failed(r) THEN [r EXCEPT !.vs = <<>>]
       ELSE IF Len(r.vs) # 1 THEN [r EXCEPT !.vs = <<>>, !.exc = CArity]     \* "1 keys but n values"
       ELSE After(r, EvalOpts(r.st, r.env, opts, i + 1, Append(acc, <<opts[i][1], r.vs[1]>>)))

HasSlash(s) == \E i \in 1..Len(s) : s[i] = 47

\* The command head: a literal name is resolved statically ($name~ in scope, else the builtin of
\* that name, else an external command); any other expression must evaluate to one callable.
EvalHead(st, env, h) ==
  IF h.t = "name" /\ Len(h.q) = 1 /\ Bound(env, h.q[1]) /\ st.store[env[h.q[1]]].k = "ns"
     /\ "b" \in DOMAIN st.store[env[h.q[1]]] THEN
    IF h.n \in StrFns THEN Vals(st, env, <<VBuiltin("str:" \o h.n)>>) ELSE Throw(st, env, OOM("command of str: outside the model"))
  ELSE IF h.t = "name" /\ h.q # <<>> THEN
    LET qe == QEnv(st, env, h.q, 1) IN
    IF ~qe.ok THEN Throw(st, env, qe.c)
    ELSE IF ~Bound(qe.env, h.n \o "~") THEN Throw(st, env, CNoSuchVar)
    ELSE LET v == st.store[qe.env[h.n \o "~"]] IN
         IF v.k = "fn" THEN Vals(st, env, <<v>>) ELSE Throw(st, env, COOM)
  ELSE IF h.t = "name" THEN
    IF Bound(env, h.n \o "~") THEN
      LET v == st.store[env[h.n \o "~"]] IN
      IF v.k = "fn" THEN Vals(st, env, <<v>>) ELSE Throw(st, env, COOM)
    ELSE IF h.n \in BuiltinFnNames THEN Vals(st, env, <<VBuiltin(h.n)>>)
    ELSE Throw(st, env, OOM("external command"))
  ELSE LET r == EvalExpr(st, env, h) IN
       IF Failed(r) THEN r
       ELSE IF Len(r.vs) # 1 THEN [r EXCEPT !.vs = <<>>, !.exc = CArity]
       ELSE IF r.vs[1].k = "fn" THEN r
       ELSE IF r.vs[1].k = "str" /\ HasSlash(r.vs[1].s) THEN [r EXCEPT !.vs = <<>>, !.exc = COOM]
       ELSE [r EXCEPT !.vs = <<>>, !.exc = CBadValue]                \* "command must be callable"

ExecCmd(st, env, f) ==
  LET rh == EvalHead(st, env, f.head) IN
  IF Failed(rh) THEN [rh EXCEPT !.vs = <<>>]
  ELSE LET ra == EvalExprs(rh.st, rh.env, f.args, 1) IN
       IF Failed(ra) THEN After(rh, [ra EXCEPT !.vs = <<>>])
       ELSE LET ro == EvalOpts(ra.st, ra.env, f.opts, 1, <<>>) IN
            IF Failed(ro) THEN After(rh, After(ra, [ro EXCEPT !.vs = <<>>]))
            ELSE After(rh, After(ra, After(ro, CallFn(ro.st, ro.env, rh.vs[1], ra.vs, ro.vs))))

\* ---- special commands
ExecVar(st, env, f) ==
  \* right-hand side first, in the old scope: "it sees the old variable"
  IF ~f.eq THEN LET d == Declare(st, env, [j \in 1..Len(f.lhs) |-> f.lhs[j].n], [j \in 1..Len(f.lhs) |-> VNil], 1)
                IN Done(d.st, d.env)
  ELSE LET rr == EvalExprs(st, env, f.rhs, 1) IN
       IF Failed(rr) THEN [rr EXCEPT !.vs = <<>>]
       ELSE LET d == Distribute(rr.vs, Len(f.lhs), f.rest) IN
            IF ~d.ok THEN [rr EXCEPT !.vs = <<>>, !.exc = CArity]
            ELSE LET n == Declare(rr.st, rr.env, [j \in 1..Len(f.lhs) |-> f.lhs[j].n], d.vals, 1)
                 IN [rr EXCEPT !.st = n.st, !.env = n.env, !.vs = <<>>]

ExecSet(st, env, f) ==
  LET rl == ResolveLVs(st, env, f.lhs, 1, <<>>) IN
  IF Failed(rl) THEN [rl EXCEPT !.vs = <<>>]
  ELSE LET rr == EvalExprs(rl.st, rl.env, f.rhs, 1) IN
       IF Failed(rr) THEN After(rl, [rr EXCEPT !.vs = <<>>])
       ELSE LET d == Distribute(rr.vs, Len(f.lhs), f.rest) IN
            IF ~d.ok THEN After(rl, [rr EXCEPT !.vs = <<>>, !.exc = CArity])
            ELSE LET s == StoreAll(rr.st, rl.vs, d.vals, 1) IN
                 After(rl, [rr EXCEPT !.vs = <<>>, !.st = s.st, !.exc = IF s.ok THEN COk ELSE s.c])

\* "tmp": as `set`, but each variable's whole value is saved just before it is assigned and a
\* restore thunk is added to the current frame ("restore them ... when the current function has
\* finished").  -> as StoreAll, collecting the thunks
RECURSIVE StoreAllSaving(_, _, _, _, _)
StoreAllSaving(st, refs, vals, i, ths) ==
  IF i > Len(refs) THEN [ok |-> TRUE, st |-> st, ths |-> ths]
  ELSE LET nv == AssocPath(refs[i].as, refs[i].idx, Len(refs[i].idx), vals[i]) IN
       IF ~nv.ok THEN [ok |-> FALSE, st |-> st, c |-> nv.c, ths |-> ths]
       ELSE StoreAllSaving(SetLoc(st, refs[i].loc, nv.v), refs, vals, i + 1,
                           Append(ths, [t |-> "restore", loc |-> refs[i].loc, v |-> st.store[refs[i].loc]]))

\* one saving assignment `lhs = rhs`; -> result r with r.vs = the restore thunks
SavingAssign(st, env, f) ==
  LET rl == ResolveLVs(st, env, f.lhs, 1, <<>>) IN
  IF Failed(rl) THEN [rl EXCEPT !.vs = <<>>]
  ELSE LET rr == EvalExprs(rl.st, rl.env, f.rhs, 1) IN
       IF Failed(rr) THEN After(rl, [rr EXCEPT !.vs = <<>>])
       ELSE LET d == Distribute(rr.vs, Len(f.lhs), f.rest) IN
            IF ~d.ok THEN After(rl, [rr EXCEPT !.vs = <<>>, !.exc = CArity])
            ELSE LET s == StoreAllSaving(rr.st, rl.vs, d.vals, 1, <<>>) IN
                 After(rl, [rr EXCEPT !.vs = s.ths, !.st = s.st, !.exc = IF s.ok THEN COk ELSE s.c])

ExecTmp(st, env, f) ==
  IF ~st.infr THEN Throw(st, env, OOM("tmp outside a function"))
  ELSE LET r == SavingAssign(st, env, f) IN [r EXCEPT !.vs = <<>>, !.st.df = @ \o r.vs]

\* "with": the assignments in order (each saving), the body (a lambda: a frame of its own), then
\* the restores in reverse, whatever happened.
WithAssigns(st, env, as, i, acc) ==      \* acc: result so far, acc.vs = restore thunks so far
  IF i > Len(as) THEN acc
  ELSE LET r == SavingAssign(st, env, as[i]) IN
       IF Failed(r) THEN After(acc, [r EXCEPT !.vs = acc.vs \o r.vs])
       ELSE WithAssigns(r.st, r.env, as, i + 1, After(acc, [r EXCEPT !.vs = acc.vs \o r.vs]))
ExecWith(st, env, f) ==
  LET ra == WithAssigns(st, env, f.assigns, 1, Done(st, env))
      rb == IF Failed(ra) THEN ra ELSE After([ra EXCEPT !.vs = <<>>], ExecBlock(ra.st, ra.env, f.body))
  IN IF Skip(rb.exc) THEN [rb EXCEPT !.vs = <<>>]
     ELSE LET t == RunThunks(env, ra.vs, Len(ra.vs), [st |-> rb.st, out |-> <<>>, fails |-> <<>>, skip |-> <<>>], 0)
          IN [rb EXCEPT !.st = t.st, !.vs = <<>>]

\* "fn": the variable name~ is declared first (so the body may refer to the function itself),
\* then the lambda is evaluated and modified to capture `return`.
ExecFn(st, env, f) ==
  LET st1 == Alloc(st, VBuiltin("nop"))
      loc == NewLoc(st)
      env1 == Bind(env, f.name \o "~", loc)
      r == EvalExpr(st1, env1, f.lam)
  IN IF Failed(r) THEN [r EXCEPT !.vs = <<>>]
     ELSE [r EXCEPT !.vs = <<>>, !.st = SetLoc(r.st, loc, [r.vs[1] EXCEPT !.wrap = TRUE])]

\* "del": a variable name is removed from the scope (closures that captured the variable keep
\* it); `del m[k]...` removes a map element: `m = (dissoc ...)` applied along the index path.
\* (Only variables of the current scope can be deleted; the program profile observes that.)
RECURSIVE DissocPath(_, _, _)
\* as: containers along the path, idx: indices; remove idx[Len] from as[Len], assoc back upwards
DissocPath(as, idx, v0) ==
  LET n == Len(idx)
      last == as[n]
  IN IF last.k # "map" THEN Bad(CType)                       \* "value does not support element removal"
     ELSE IF ~KeyOK(idx[n]) THEN Bad(COOM)
     ELSE AssocPath(as, idx, n - 1, VMap(MapDissoc(last.ps, idx[n])))
ExecDel(st, env, lvs, i) ==
  IF i > Len(lvs) THEN Done(st, env)
  ELSE LET lv == lvs[i] IN
       IF ~Bound(env, lv.n) THEN Throw(st, env, OOM("del of an unresolved variable"))
       ELSE IF lv.idx = <<>> THEN ExecDel(st, Unbind(env, lv.n), lvs, i + 1)
       ELSE LET ri == EvalSingles(st, env, lv.idx, 1, <<>>, CArity) IN   \* "index must evaluate to a single value"
            IF Failed(ri) THEN ri
            ELSE LET a == Assocers(ri.st.store[env[lv.n]], ri.vs, 1, <<>>) IN
                 IF ~a.ok THEN After(ri, Throw(ri.st, ri.env, a.c))
                 ELSE LET nv == DissocPath(a.as, ri.vs, 0) IN
                      IF ~nv.ok THEN After(ri, Throw(ri.st, ri.env, nv.c))
                      ELSE After([ri EXCEPT !.vs = <<>>], ExecDel(SetLoc(ri.st, env[lv.n], nv.v), ri.env, lvs, i + 1))

AllTruthy(vs) == \A i \in 1..Len(vs) : Truthy(vs[i])

\* "if": conditions one by one; several values are and'ed, no value is true
ExecIf(st, env, f, i) ==
  IF i > Len(f.arms) THEN
    IF f.els = <<>> THEN Done(st, env) ELSE ExecBlock(st, env, f.els[1])
  ELSE LET rc == EvalExpr(st, env, f.arms[i][1]) IN
       IF Failed(rc) THEN [rc EXCEPT !.vs = <<>>]
       ELSE IF AllTruthy(rc.vs) THEN After(rc, ExecBlock(rc.st, rc.env, f.arms[i][2]))
       ELSE After([rc EXCEPT !.vs = <<>>], ExecIf(rc.st, rc.env, f, i + 1))

\* "while": `continue` ends an iteration, `break` the loop; the else body runs if the body never ran
ExecWhile(st, env, f, iterated, fuel) ==
  IF fuel = 0 THEN Throw(st, env, OOM("while: more iterations than the model allows"))
  ELSE LET rc == EvalExpr(st, env, f.cond) IN
       IF Failed(rc) THEN [rc EXCEPT !.vs = <<>>]
       ELSE IF ~AllTruthy(rc.vs) THEN
              IF ~iterated /\ f.els # <<>> THEN After([rc EXCEPT !.vs = <<>>], ExecBlock(rc.st, rc.env, f.els[1]))
              ELSE [rc EXCEPT !.vs = <<>>]
       ELSE LET rb == ExecBlock(rc.st, rc.env, f.body) IN
            IF rb.exc.c = "ok" \/ (rb.exc.c = "flow" /\ rb.exc.n = "continue")
            THEN After([rc EXCEPT !.vs = <<>>], After([rb EXCEPT !.exc = COk], ExecWhile(rb.st, rb.env, f, TRUE, fuel - 1)))
            ELSE IF rb.exc.c = "flow" /\ rb.exc.n = "break"
            THEN After([rc EXCEPT !.vs = <<>>], [rb EXCEPT !.exc = COk])
            ELSE After([rc EXCEPT !.vs = <<>>], rb)

\* "for": the elements of the container are assigned to the variable one by one
ExecForLoop(st, env, f, loc, elems, i, acc) ==
  IF i > Len(elems) THEN acc
  ELSE LET rb == ExecBlock(SetLoc(st, loc, elems[i]), env, f.body) IN
       IF rb.exc.c = "ok" \/ (rb.exc.c = "flow" /\ rb.exc.n = "continue")
       THEN ExecForLoop(rb.st, env, f, loc, elems, i + 1, After(acc, [rb EXCEPT !.exc = COk]))
       ELSE IF rb.exc.c = "flow" /\ rb.exc.n = "break" THEN After(acc, [rb EXCEPT !.exc = COk])
       ELSE After(acc, rb)

ExecFor(st, env, f) ==
  IF f.v.idx # <<>> THEN Throw(st, env, COOM)
  ELSE LET sv == ScopeVar(st, env, f.v.n)
           ri == EvalExpr(sv.st, sv.env, f.iter)
       IN IF Failed(ri) THEN [ri EXCEPT !.vs = <<>>]
          ELSE IF Len(ri.vs) # 1 THEN [ri EXCEPT !.vs = <<>>, !.exc = CArity]
          ELSE IF ~Iterable(ri.vs[1]) THEN [ri EXCEPT !.vs = <<>>, !.exc = CType]
          ELSE IF ri.vs[1].k = "str" /\ ~Ascii(ri.vs[1].s) THEN [ri EXCEPT !.vs = <<>>, !.exc = COOM]
          ELSE LET elems == Elements(ri.vs[1])
                   r0 == [ri EXCEPT !.vs = <<>>]
               IN IF elems = <<>> THEN
                    (IF f.els # <<>> THEN After(r0, ExecBlock(ri.st, ri.env, f.els[1])) ELSE r0)
                  ELSE ExecForLoop(ri.st, ri.env, f, sv.loc, elems, 1, r0)

\* "try".  The variable named after `catch` follows the body lexically: the body does not see it
\* (unless a variable of that name was in scope before); it is the variable of that name in scope,
\* else a new variable of the current scope, declared whether or not an exception is caught.
ExecTry(st, env, f) ==
  LET rb == ExecBlock(st, env, f.body)
      sv == IF f.cvar # <<>> THEN ScopeVar(rb.st, env, f.cvar[1]) ELSE [st |-> rb.st, env |-> env, loc |-> 0]
      rb1 == [rb EXCEPT !.st = sv.st, !.env = sv.env]
      \* after the body: catch (exception caught, stored in the variable) or else
      r1 == IF Skip(rb.exc) THEN rb
            ELSE IF Failed(rb) THEN
                   IF f.catch = <<>> THEN rb1
                   ELSE LET stc == IF f.cvar # <<>> THEN SetLoc(sv.st, sv.loc, VExc(rb.exc)) ELSE sv.st
                        IN After([rb1 EXCEPT !.exc = COk], ExecBlock(stc, sv.env, f.catch[1]))
            ELSE IF f.els # <<>> THEN After(rb1, ExecBlock(sv.st, sv.env, f.els[1]))
            ELSE rb1
  IN IF Skip(r1.exc) \/ f.fin = <<>> THEN r1
     ELSE LET rf == ExecBlock(r1.st, sv.env, f.fin[1]) IN
          \* an exception of the finally block replaces the pending one
          IF Failed(rf) THEN After([r1 EXCEPT !.exc = COk], rf)
          ELSE After([r1 EXCEPT !.exc = COk], [rf EXCEPT !.exc = r1.exc])

\* "and", "or", "coalesce": short-circuit over the values of the arguments
\* kind "and": stop at the first booleanly false value; "or": first true; "coalesce": first non-nil
LogicStop(kind, v) == CASE kind = "and" -> ~Truthy(v) [] kind = "or" -> Truthy(v) [] OTHER -> v.k # "nil"
RECURSIVE FirstStop(_, _, _)
FirstStop(kind, vs, i) == IF i > Len(vs) THEN 0 ELSE IF LogicStop(kind, vs[i]) THEN i ELSE FirstStop(kind, vs, i + 1)
\* last: the value output if no argument value stops the evaluation
EvalLogic(st, env, kind, args, i, last) ==
  IF i > Len(args) THEN Outs(st, env, <<last>>)
  ELSE LET r == EvalExpr(st, env, args[i]) IN
       IF Failed(r) THEN [r EXCEPT !.vs = <<>>]
       ELSE LET j == FirstStop(kind, r.vs, 1) IN
            IF j # 0 THEN [r EXCEPT !.vs = <<>>, !.out = @ \o <<r.vs[j]>>]
            ELSE After([r EXCEPT !.vs = <<>>],
                       EvalLogic(r.st, r.env, kind, args, i + 1,
                                 IF kind = "coalesce" \/ r.vs = <<>> THEN last ELSE r.vs[Len(r.vs)]))

\* "use": the module is evaluated at most once per interpreter, in a scope of its own (only the
\* builtins are visible), with the ports of the importing command; a module whose evaluation
\* throws is forgotten ("unloaded") and the exception propagates.  The namespace is then bound to
\* the variable `name:` of the current scope (the alias, or the spec).  Circular imports are
\* outside the model.
ExecUse(st, env, f) ==
  LET name == (IF f.as # <<>> THEN f.as[1] ELSE f.spec) \o ":" IN
  IF f.spec = "str" /\ f.spec \notin DOMAIN st.mods THEN      \* the pre-defined module str (a few of its commands)
    Done(Alloc(st, [k |-> "ns", env |-> EmptyEnv, b |-> "str"]), Bind(env, name, NewLoc(st)))
  ELSE IF f.spec \notin DOMAIN st.mods THEN
    (IF f.spec \in StdModules THEN Throw(st, env, OOM("standard module")) ELSE Throw(st, env, [c |-> "no-such-module"]))
  ELSE LET m == st.mods[f.spec] IN
    IF m.status = "loading" THEN Throw(st, env, OOM("circular import"))
    ELSE IF m.status = "loaded" THEN
      Done(Alloc(st, VNs(m.env)), Bind(env, name, NewLoc(st)))
    ELSE LET st1 == [st EXCEPT !.mods[f.spec].status = "loading", !.infr = FALSE, !.df = <<>>]
             r == ExecTop(st1, EmptyEnv, m.ast.ps, 1)
             back == [r.st EXCEPT !.infr = st.infr, !.df = st.df]
         IN IF Skip(r.exc) THEN [r EXCEPT !.env = env]
            ELSE IF Failed(r) THEN [r EXCEPT !.env = env, !.vs = <<>>, !.st = [back EXCEPT !.mods[f.spec].status = "unloaded"]]
            ELSE LET st2 == [back EXCEPT !.mods[f.spec] = [ast |-> m.ast, status |-> "loaded", env |-> r.env]]
                 IN [r EXCEPT !.st = Alloc(st2, VNs(r.env)), !.env = Bind(env, name, NewLoc(st2)), !.vs = <<>>]

ExecForm(st, env, f) ==
  CASE f.t = "cmd"   -> ExecCmd(st, env, f)
    [] f.t = "use"   -> ExecUse(st, env, f)
    [] f.t = "var"   -> ExecVar(st, env, f)
    [] f.t = "set"   -> ExecSet(st, env, f)
    [] f.t = "fn"    -> ExecFn(st, env, f)
    [] f.t = "del"   -> ExecDel(st, env, f.lhs, 1)
    [] f.t = "tmp"   -> ExecTmp(st, env, f)
    [] f.t = "with"  -> ExecWith(st, env, f)
    [] f.t = "if"    -> ExecIf(st, env, f, 1)
    [] f.t = "while" -> ExecWhile(st, env, f, FALSE, MaxIter)
    [] f.t = "for"   -> ExecFor(st, env, f)
    [] f.t = "try"   -> ExecTry(st, env, f)
    [] f.t = "and"   -> EvalLogic(st, env, "and", f.args, 1, VBool(TRUE))
    [] f.t = "or"    -> EvalLogic(st, env, "or", f.args, 1, VBool(FALSE))
    [] f.t = "coalesce" -> EvalLogic(st, env, "coalesce", f.args, 1, VNil)
    [] OTHER -> Throw(st, env, OOM("form outside the model"))

\* ---- pipelines and chunks ("Pipeline", "Pipeline exception")
\* Stream semantics of a pipeline of value-stream commands: the value input of form k+1 is the
\* value output of form k; the first form reads the input of the enclosing command; the
\* pipeline's output is that of the last form; its exception is none / the only one / a composite
\* of all ("Pipeline exception").  The forms run concurrently in Elvish; this big-step definition
\* (forms in order) gives the outcome whenever it does not depend on the schedule:
\*   (a) no form but the last changes a variable that existed before the pipeline;
\*   (b) if the last form changes such variables, the earlier forms do not depend on them
\*       (tested by evaluating them again in the final store: same outputs and exceptions);
\*   (c) a form whose successor never reads its input either writes nothing, or throws nothing
\*       (its writes after the reader has gone raise the suppressed "reader gone" exception at an
\*       unspecified point, so what follows them would be schedule-dependent).
\* Otherwise the outcome is Unspecified (cause "unspec": skipped and counted, never judged).
KeepsOld(before, after) == SubSeq(after.store, 1, Len(before.store)) = before.store
ScheduleFree(facts) == \A q \in 1..(Len(facts) - 1) : facts[q + 1].read \/ facts[q].puts = 0 \/ facts[q].quiet
SameValues(a, b) == Len(a) = Len(b) /\ \A q \in 1..Len(a) : ValEq(a[q], b[q])

RECURSIVE PrefixRun(_, _, _, _, _, _, _)
\* forms i..upto again: -> [out: output of form upto, excs]  (or [skip |-> TRUE])
PrefixRun(st, env, fs, i, upto, input, excs) ==
  LET r == ExecForm([st EXCEPT !.inp = input, !.rd = FALSE], env, fs[i]) IN
  IF Skip(r.exc) THEN [skip |-> TRUE]
  ELSE IF i = upto THEN [skip |-> FALSE, out |-> r.out, excs |-> Append(excs, r.exc)]
  ELSE PrefixRun(r.st, r.env, fs, i + 1, upto, r.out, Append(excs, r.exc))

RECURSIVE ExecStages(_, _, _, _, _, _, _, _)
\* st0: state before the pipeline; input: value input of form i; excs / facts: of forms 1..i-1
\* facts[k] == [puts: values written, quiet: threw nothing, read: read its input]
ExecStages(st0, st, env, fs, i, input, excs, facts) ==
  LET r == ExecForm([st EXCEPT !.inp = input, !.rd = FALSE], env, fs[i])
      last == i = Len(fs)
      facts2 == Append(facts, [puts |-> Len(r.out), quiet |-> r.exc.c = "ok", read |-> r.st.rd])
      excs2 == Append(excs, r.exc)
  IN IF Skip(r.exc) THEN r
     ELSE IF ~last THEN
            IF ~KeepsOld(st0, r.st) \/ r.st.df # st0.df THEN Throw(r.st, env, CUnspec)     \* (a)
            ELSE ExecStages(st0, r.st, r.env, fs, i + 1, r.out, excs2, facts2)
     ELSE IF ~ScheduleFree(facts2) THEN Throw(r.st, env, CUnspec)                           \* (c)
     ELSE IF ~KeepsOld(st0, r.st) /\
             (LET again == PrefixRun(r.st, env, fs, 1, i - 1, st0.inp, <<>>) IN
              again.skip \/ ~SameValues(again.out, input) \/ again.excs # excs)
          THEN Throw(r.st, env, CUnspec)                                                    \* (b)
     ELSE LET bad == {q \in 1..Len(excs2) : excs2[q].c # "ok"}
              exc == IF bad = {} THEN COk
                     ELSE IF Cardinality(bad) = 1 THEN excs2[CHOOSE q \in bad : TRUE]
                     ELSE CPipeline(excs2)
          IN [r EXCEPT !.exc = exc, !.vs = <<VBool(facts2[1].read)>>]     \* vs: did the first form read?

\* After the pipeline the enclosing input is what the first form left of it.
ExecPipe(st, env, p) ==
  IF Len(p.fs) = 1 THEN ExecForm(st, env, p.fs[1])
  ELSE LET r == ExecStages(st, st, env, p.fs, 1, st.inp, <<>>, <<>>) IN
       IF Skip(r.exc) THEN r
       ELSE [r EXCEPT !.vs = <<>>, !.st.inp = IF r.vs[1].b THEN <<>> ELSE st.inp, !.st.rd = st.rd \/ r.vs[1].b]

ExecChunk(st, env, ps, i) ==
  IF i > Len(ps) THEN Done(st, env)
  ELSE LET r == ExecPipe(st, env, ps[i]) IN
       IF Failed(r) THEN r ELSE After(r, ExecChunk(r.st, r.env, ps, i + 1))

\* ---------------------------------------------------------------- the state machine
\* DeclareRest: the names declared at the top level of the pipelines i.. of a chunk (not inside
\* lambdas) become fresh variables holding their initial value, as the compiler does before the
\* chunk runs.  A `for` / `catch` variable is new only if no variable of that name is in scope.
RECURSIVE DeclareRest(_, _, _, _)
DeclareRest(st, env, ps, i) ==
  IF i > Len(ps) THEN [st |-> st, env |-> env]
  ELSE IF Len(ps[i].fs) # 1 THEN DeclareRest(st, env, ps, i + 1)
  ELSE LET f == ps[i].fs[1]
           d == CASE f.t = "var" -> Declare(st, env, [j \in 1..Len(f.lhs) |-> f.lhs[j].n],
                                            [j \in 1..Len(f.lhs) |-> VNil], 1)
                  [] f.t = "fn"  -> Declare(st, env, <<f.name \o "~">>, <<VBuiltin("nop")>>, 1)
                  [] f.t = "use" -> Declare(st, env, <<(IF f.as # <<>> THEN f.as[1] ELSE f.spec) \o ":">>, <<VNs(EmptyEnv)>>, 1)
                  [] f.t = "del" -> [st |-> st,            \* deletion of a variable is a compile-time effect
                                     env |-> [x \in (DOMAIN env) \ {f.lhs[j].n : j \in {q \in 1..Len(f.lhs) : f.lhs[q].idx = <<>>}} |-> env[x]]]
                  [] f.t = "for" -> LET sv == ScopeVar(st, env, f.v.n) IN [st |-> sv.st, env |-> sv.env]
                  [] f.t = "try" -> IF f.cvar = <<>> THEN [st |-> st, env |-> env]
                                    ELSE LET sv == ScopeVar(st, env, f.cvar[1]) IN [st |-> sv.st, env |-> sv.env]
                  [] OTHER -> [st |-> st, env |-> env]
       IN DeclareRest(d.st, d.env, ps, i + 1)

\* The pipelines of a top-level chunk.  When pipeline i throws: `var` binds its names last, so a
\* failing `var` has declared nothing yet; fn / for / try bind theirs first.
ExecTop(st, env, ps, i) ==
  IF i > Len(ps) THEN Done(st, env)
  ELSE LET r == ExecPipe(st, env, ps[i]) IN
       IF ~Failed(r) THEN After(r, ExecTop(r.st, r.env, ps, i + 1))
       ELSE IF Skip(r.exc) THEN r
       ELSE LET isVar == Len(ps[i].fs) = 1 /\ ps[i].fs[1].t \in {"var", "use"}   \* these bind their names last
                d == DeclareRest(r.st, r.env, ps, IF isVar THEN i ELSE i + 1)
            IN [r EXCEPT !.st = d.st, !.env = d.env]

\* EvalChunk: one Evaler.Eval.  -> [st, out: values written, bytes: bytes written, exc]
EvalChunk(st, chunk) ==
  LET r == ExecTop(st, st.genv, chunk.ps, 1) IN
  IF Skip(r.exc) THEN [st |-> st, out |-> <<>>, bytes |-> <<>>, exc |-> r.exc]
  ELSE IF HasUnord(r.out) THEN [st |-> st, out |-> <<>>, bytes |-> <<>>, exc |-> CUnspecBands]
  ELSE [st |-> [r.st EXCEPT !.genv = r.env, !.depth = 0], out |-> OutValues(Expand(r.out)), bytes |-> OutBytes(r.out), exc |-> r.exc]
=============================================================================
