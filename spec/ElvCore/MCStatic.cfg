CONSTANTS MaxLen = 2 Wide = FALSE
CONSTANT Stmts <- StmtsDef
SPECIFICATION Spec
VIEW View
INVARIANT TypeOK
PROPERTY NoRunOnStaticError
PROPERTY CheckAgrees
PROPERTY StaticIffDefect
ACTION_CONSTRAINT EmitT
