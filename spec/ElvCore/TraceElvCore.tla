---------------------------- MODULE TraceElvCore ----------------------------
(* V for C15: recorded executions of the REAL Evaler, one event per top-level chunk
     [ev |-> "chunk", ast |-> AST, out |-> values (projected), exc |-> cause (projected)]
   programs separated by [ev |-> "reset", mods |-> <<<<name, chunk>>, ...>>] (fresh Evaler with these
   in-memory modules available to `use`).  The walker evaluates every chunk with
   the reference semantics EvalChunk, carrying the interpreter state from chunk to chunk, and
   requires exactly the recorded value output and exception cause.
   After a rejection, and after a chunk that left the model (OutOfModel: printed with "oom",
   counted, never judged), the remaining chunks of the program are skipped. *)
EXTENDS ElvCore, Json
Cases == ndJsonDeserialize("cases.ndjson")
VARIABLES pos, w
Init == pos = 0 /\ w = [st |-> InitState, skip |-> FALSE]
Step(cur, e, i) ==
  IF e.ev = "reset" THEN [st |-> WithModules(InitState, e.mods), skip |-> FALSE]
  ELSE IF cur.skip THEN cur
  ELSE LET r == EvalChunk(cur.st, e.ast) IN
       IF Skip(r.exc) THEN [st |-> cur.st, skip |-> PrintT(<<"BAD", i, "oom", r.exc.why>>)]
       ELSE IF \E q \in 1..Len(r.out) : Opaque(r.out[q]) THEN [st |-> cur.st, skip |-> PrintT(<<"BAD", i, "oom", "opaque value in the output">>)]
       ELSE IF SeqMatches(r.out, e.out) /\ r.bytes = e.bytes /\ CauseMatches(r.exc, e.exc) THEN [st |-> r.st, skip |-> FALSE]
       ELSE [st |-> r.st,
             skip |-> PrintT(<<"BAD", i, "mismatch",
                               ToJson([out |-> [j \in 1..Len(r.out) |-> Show(r.out[j])], bytes |-> r.bytes, exc |-> ShowCause(r.exc)])>>)]
Next == pos < Len(Cases) /\ pos' = pos + 1 /\ w' = Step(w, Cases[pos + 1], pos + 1)
Inv == TRUE
=============================================================================
