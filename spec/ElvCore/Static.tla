------------------------------- MODULE Static -------------------------------
(* Property C16: code with static errors never runs, and the static check agrees.
   Profile Static of the ElvCore family, as a small dedicated state machine that does not depend
   on the full semantics (DESIGN.md section 8 C16).

   Evaler.Eval is refined into   Parse -> Compile -> (Exec | StaticError):
     * Parse fails  iff the chunk contains a parse defect                      -> class "parse"
     * Compile fails iff (no parse defect and) the chunk contains a compile defect -> class "compile"
       ("Elvish resolves all variables in a code chunk before starting to execute any of it";
        pkg/eval/eval.go: "exec only if compile succeeds")
     * StaticError leaves [globals, values, output] UNCHANGED;
     * otherwise the global namespace becomes the one computed by the compiler (every declaration
       and deletion of the chunk applied, new variables holding $nil) and the statements run in
       order until one throws.
   Check(chunk) reports "parse"/"compile" iff the same predicate holds and never changes state.

   State:  val: {"a","b"} -> {"undef","nil","1","2"}     the two observed global variables
           fn : {"undef","nop","def"}                    the function variable f~ ("nop": declared by a
                                                         chunk that threw before `fn f` ran)
   Statements (concretised by the executor, harness/checks/c16):
     decl x v   var x = v          set x v    set x = v         putlit v   put v
     putvar x   put $x             echo       echo e            deffn      fn f { put called }
     call       f                  del x      del x             fail       fail boom
     pragma     pragma unknown-command = disallow               ext        an unknown command
     extreg     mod:fn of a module that is registered on the Evaler but not imported (math:floor 1)
     extunreg   mod:fn of a module nobody registered (nomod:fn foo)
                -- both are unknown commands like ext (external unless the pragma disallows them): the
                   static check knows the list of registered modules (for its `use mod` autofix),
                   evaluation does not; CheckAgrees requires the same verdict from both
     (defects modvar-registered / modvar-unregistered: $math:x / $nomod:x, compile errors in any context)
     bad d      an injected defect d \in Defects (always a static error, class DefectClass(d))
   putvar/set/del of a variable that is not declared at that point of the chunk, and call/ext
   under the disallow pragma, are static defects by context: the predicate is computed by Compile.

   Properties (action properties over the record `last` of the transition just taken):
     NoRunOnStaticError  last.cls \in {"parse","compile"} => state, values and bytes unchanged/empty
     CheckAgrees         Check before the evaluation reports the class Eval reported (static
                         classes), and no error when Eval compiled; Check never changes state. *)
EXTENDS Integers, Sequences, FiniteSets, TLC

CONSTANTS MaxLen,        \* statements per chunk
          Stmts          \* statement vocabulary (set of records), see MCStatic

Names == {"a", "b"}

ParseDefects   == {"unclosed-quote", "unclosed-paren", "unclosed-list", "unclosed-brace",
                   "bad-escape", "stray-paren"}
CompileDefects == {"use-undeclared", "set-undeclared", "del-undeclared", "if-no-body",
                   "try-alone", "try-else-no-catch", "var-qualified", "tmp-top-level",
                   "del-non-local", "fn-no-body", "while-no-body", "for-no-body",
                   "set-no-rhs", "use-undeclared-in-fn", "modvar-registered", "modvar-unregistered"}
Defects == ParseDefects \cup CompileDefects
DefectClass(d) == IF d \in ParseDefects THEN "parse" ELSE "compile"

InitState == [val |-> [x \in Names |-> "undef"], fn |-> "undef"]

\* ---------------------------------------------------------------- Compile
\* static environment while walking the statements
RECURSIVE CompileFrom(_, _, _, _, _, _)
\* -> [parse: BOOLEAN, compile: BOOLEAN]  (any parse defect; any compile defect)
CompileFrom(c, i, declared, fdecl, strict, acc) ==
  IF i > Len(c) THEN acc
  ELSE LET s == c[i] IN
    CASE s.s = "decl"   -> CompileFrom(c, i + 1, declared \cup {s.x}, fdecl, strict, acc)
      [] s.s = "set"    -> CompileFrom(c, i + 1, declared, fdecl, strict,
                                       IF s.x \in declared THEN acc ELSE [acc EXCEPT !.compile = TRUE])
      [] s.s = "putvar" -> CompileFrom(c, i + 1, declared, fdecl, strict,
                                       IF s.x \in declared THEN acc ELSE [acc EXCEPT !.compile = TRUE])
      [] s.s = "del"    -> CompileFrom(c, i + 1, declared \ {s.x}, fdecl, strict,
                                       IF s.x \in declared THEN acc ELSE [acc EXCEPT !.compile = TRUE])
      [] s.s = "deffn"  -> CompileFrom(c, i + 1, declared, TRUE, strict, acc)
      [] s.s = "call"   -> CompileFrom(c, i + 1, declared, fdecl, strict,
                                       IF fdecl \/ ~strict THEN acc ELSE [acc EXCEPT !.compile = TRUE])
      [] s.s \in {"ext", "extreg", "extunreg"} -> CompileFrom(c, i + 1, declared, fdecl, strict,
                                       IF ~strict THEN acc ELSE [acc EXCEPT !.compile = TRUE])
      [] s.s = "pragma" -> CompileFrom(c, i + 1, declared, fdecl, TRUE, acc)
      [] s.s = "bad"    -> CompileFrom(c, i + 1, declared, fdecl, strict,
                                       IF DefectClass(s.d) = "parse" THEN [acc EXCEPT !.parse = TRUE]
                                       ELSE [acc EXCEPT !.compile = TRUE])
      [] OTHER          -> CompileFrom(c, i + 1, declared, fdecl, strict, acc)

\* the static-defect predicate of the Static profile: "none" | "parse" | "compile"
Static(st, c) ==
  LET r == CompileFrom(c, 1, {x \in Names : st.val[x] # "undef"}, st.fn # "undef", FALSE,
                       [parse |-> FALSE, compile |-> FALSE])
  IN IF r.parse THEN "parse" ELSE IF r.compile THEN "compile" ELSE "none"

\* ---------------------------------------------------------------- Exec
\* Run statements i.. ; `thrown`: an earlier statement threw, so only the compile-time effects
\* (declarations with $nil, deletions, f~ := nop) of the remaining statements apply.
RECURSIVE ExecFrom(_, _, _, _)
\* r == [st, out, bytes, thrown]
ExecFrom(c, i, r, strict) ==
  IF i > Len(c) THEN r
  ELSE LET s == c[i] IN
    IF r.thrown THEN
      CASE s.s = "decl"  -> ExecFrom(c, i + 1, [r EXCEPT !.st.val[s.x] = "nil"], strict)
        [] s.s = "del"   -> ExecFrom(c, i + 1, [r EXCEPT !.st.val[s.x] = "undef"], strict)
        [] s.s = "deffn" -> ExecFrom(c, i + 1, [r EXCEPT !.st.fn = "nop"], strict)
        [] OTHER         -> ExecFrom(c, i + 1, r, strict)
    ELSE
      CASE s.s = "decl"   -> ExecFrom(c, i + 1, [r EXCEPT !.st.val[s.x] = s.v], strict)
        [] s.s = "set"    -> ExecFrom(c, i + 1, [r EXCEPT !.st.val[s.x] = s.v], strict)
        [] s.s = "putlit" -> ExecFrom(c, i + 1, [r EXCEPT !.out = Append(@, s.v)], strict)
        [] s.s = "putvar" -> ExecFrom(c, i + 1, [r EXCEPT !.out = Append(@, r.st.val[s.x])], strict)
        [] s.s = "echo"   -> ExecFrom(c, i + 1, [r EXCEPT !.bytes = @ + 1], strict)
        [] s.s = "deffn"  -> ExecFrom(c, i + 1, [r EXCEPT !.st.fn = "def"], strict)
        [] s.s = "call"   -> IF r.st.fn = "def" THEN ExecFrom(c, i + 1, [r EXCEPT !.out = Append(@, "called")], strict)
                             ELSE IF r.st.fn = "nop" THEN ExecFrom(c, i + 1, r, strict)
                             ELSE ExecFrom(c, i + 1, [r EXCEPT !.thrown = TRUE], strict)   \* external command not found
        [] s.s = "del"    -> ExecFrom(c, i + 1, [r EXCEPT !.st.val[s.x] = "undef"], strict)
        [] s.s = "fail"   -> ExecFrom(c, i + 1, [r EXCEPT !.thrown = TRUE], strict)
        [] s.s \in {"ext", "extreg", "extunreg"} -> ExecFrom(c, i + 1, [r EXCEPT !.thrown = TRUE], strict)
        [] OTHER          -> ExecFrom(c, i + 1, r, strict)

\* ---------------------------------------------------------------- the actions
\* Eval(st, c): -> [cls, out, bytes, post]
Eval(st, c) ==
  LET sc == Static(st, c) IN
  IF sc # "none" THEN [cls |-> sc, out |-> <<>>, bytes |-> 0, post |-> st]           \* StaticError
  ELSE LET r == ExecFrom(c, 1, [st |-> st, out |-> <<>>, bytes |-> 0, thrown |-> FALSE], FALSE) IN
       [cls |-> IF r.thrown THEN "exception" ELSE "none", out |-> r.out, bytes |-> r.bytes, post |-> r.st]

\* Check(st, c): the class the static check reports; no state change
Check(st, c) == Static(st, c)

NBad(c) == Cardinality({i \in 1..Len(c) : c[i].s = "bad"})
Chunks == {c \in UNION {[1..n -> Stmts] : n \in 1..MaxLen} : NBad(c) <= 1}

VARIABLES st, last
vars == <<st, last>>
NoLast == [chunk |-> <<>>, pre |-> InitState, cls |-> "none", out |-> <<>>, bytes |-> 0, post |-> InitState,
           check |-> "none", checkAfter |-> "none"]
Init == st = InitState /\ last = NoLast
EvalAction(c) ==
  LET r == Eval(st, c) IN
  /\ st' = r.post
  /\ last' = [chunk |-> c, pre |-> st, cls |-> r.cls, out |-> r.out, bytes |-> r.bytes, post |-> r.post,
              check |-> Check(st, c), checkAfter |-> Check(r.post, c)]
Next == \E c \in Chunks : EvalAction(c)
Spec == Init /\ [][Next]_vars

IsStatic(cls) == cls \in {"parse", "compile"}
\* state predicates over the record of the last transition (`last` is a history variable hidden by
\* the VIEW of the model-checking configuration, so they are checked as action properties)
NoRunOK(l) == IsStatic(l.cls) => l.post = l.pre /\ l.out = <<>> /\ l.bytes = 0
CheckOK(l) == /\ IsStatic(l.cls) <=> IsStatic(l.check)
              /\ IsStatic(l.cls) => l.check = l.cls
DefectOK(l) == IsStatic(l.cls) <=> (Static(l.pre, l.chunk) # "none")
NoRunOnStaticError == [][NoRunOK(last')]_vars
CheckAgrees        == [][CheckOK(last')]_vars
StaticIffDefect    == [][DefectOK(last')]_vars
View == st
TypeOK == /\ st.val \in [Names -> {"undef", "nil", "1", "2"}] /\ st.fn \in {"undef", "nop", "def"}
          /\ last.cls \in {"none", "parse", "compile", "exception"}
=============================================================================
