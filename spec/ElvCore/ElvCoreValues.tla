--------------------------- MODULE ElvCoreValues ---------------------------
(* Semantic domains of ElvCore (DESIGN.md Appendix B.2), written from website/ref/language.md
   "Value types".  Everything here is a pure function on values.

   Value  == [k:"nil"] | [k:"bool", b] | [k:"str", s: Seq(0..255)] | [k:"num", n: Int]
           | [k:"rat", n: Int, d: 2..MaxInt]  (exact rational that is not an integer, lowest terms)
           | [k:"list", es: Seq(Value)] | [k:"map", ps: Seq(<<key, value>>)]   (keys pairwise not Eq)
           | [k:"fn", id, ...]  (user closure: ElvCore.tla)  | [k:"fn", id: 0, b: name] (builtin)
           | [k:"exc", c: Cause]                               (c.c = "ok" is the value $ok)
           | [k:"reason", c: Cause]                            (the `reason` field of an exception)
           | [k:"ns", env]                                     (a namespace: the variables of a module)
   Cause  == [c:"ok"] | [c:"fail", v: Value] | [c:"flow", n: "break"|"continue"|"return"]
           | [c:"arity"] | [c:"bad-value"] | [c:"out-of-range"] | [c:"no-such-key"] | [c:"type"]
           | [c:"unsupported-option"] | [c:"pipeline", cs: Seq(Cause)]
           | [c:"oom"]    -- not an Elvish exception: the program left the model (see below)
           | [c:"unspec"] -- not an Elvish exception: Unspecified outcome (see ElvCore.tla, pipelines)

   Strings are byte sequences (TLC cannot index TLA+ strings).  Numbers inside the model are exact
   integers with |n| <= MaxInt; an arithmetic step leaving that range, and every use of a string as
   a number that is not in canonical decimal form ("12", "-3"; not "012", "+1", "0x10", "1e3",
   "1_0", "inf", ...), yields the cause "oom" (OutOfModel): it propagates to the chunk uncaught and
   the recorded line is skipped and counted, never judged.  Unicode is outside the model: a string
   operation that depends on code points (indexing, exploding) on a string with a byte >= 128 is
   OutOfModel. *)
EXTENDS Integers, Sequences, FiniteSets, TLC

MaxInt == 32767

VNil      == [k |-> "nil"]
VBool(b)  == [k |-> "bool", b |-> b]
VStr(s)   == [k |-> "str", s |-> s]
VNum(n)   == [k |-> "num", n |-> n]
VRat(n, d) == [k |-> "rat", n |-> n, d |-> d]      \* exact non-integer rational in lowest terms, d >= 2
VList(es) == [k |-> "list", es |-> es]
VMap(ps)  == [k |-> "map", ps |-> ps]
VExc(c)   == [k |-> "exc", c |-> c]
VBuiltin(name) == [k |-> "fn", id |-> 0, b |-> name]

COk          == [c |-> "ok"]
CFail(v)     == [c |-> "fail", v |-> v]
CFlow(n)     == [c |-> "flow", n |-> n]
CArity       == [c |-> "arity"]
CBadValue    == [c |-> "bad-value"]
COutOfRange  == [c |-> "out-of-range"]
CNoSuchKey   == [c |-> "no-such-key"]
CType        == [c |-> "type"]
CBadOpt      == [c |-> "unsupported-option"]
CPipeline(cs) == [c |-> "pipeline", cs |-> cs]
OOM(why)     == [c |-> "oom", why |-> why]
COOM         == OOM("outside the model")
CUnspec      == [c |-> "unspec", why |-> "schedule-dependent pipeline"]   \* outcome left open by the reference
\* causes that are not Elvish exceptions: they propagate uncaught to the chunk, which is then skipped
Skip(c)      == c.c \in {"oom", "unspec"}

InRange(n) == n >= -MaxInt /\ n <= MaxInt

\* ---------------------------------------------------------------- sequences
RECURSIVE Flatten(_)
Flatten(ss) == IF ss = <<>> THEN <<>> ELSE Head(ss) \o Flatten(Tail(ss))

SeqMap(F(_), s) == [i \in 1..Len(s) |-> F(s[i])]

\* ---------------------------------------------------------------- booleans ("Boolean")
\* $nil, $false and exceptions other than $ok are booleanly false; everything else is true.
Truthy(v) == CASE v.k = "nil"  -> FALSE
               [] v.k = "bool" -> v.b
               [] v.k = "exc"  -> v.c.c = "ok"
               [] OTHER        -> TRUE

\* ---------------------------------------------------------------- equality (builtin `eq`)
RECURSIVE ValEq(_, _)
ValEq(a, b) ==
  IF a.k # b.k THEN FALSE
  ELSE CASE a.k = "list" -> /\ Len(a.es) = Len(b.es)
                            /\ \A i \in 1..Len(a.es) : ValEq(a.es[i], b.es[i])
         [] a.k = "map"  -> /\ Len(a.ps) = Len(b.ps)
                            /\ \A i \in 1..Len(a.ps) : \E j \in 1..Len(b.ps) :
                                  ValEq(a.ps[i][1], b.ps[j][1]) /\ ValEq(a.ps[i][2], b.ps[j][2])
         [] a.k = "fn"   -> a.id = b.id /\ (a.id = 0 => a.b = b.b)
         [] a.k = "exc"  -> a.c.c = "ok" /\ b.c.c = "ok"      \* other exceptions: identity, not modelled
         [] OTHER        -> a = b

\* Pairs whose equality the model does not decide: exception objects are equal iff identical,
\* and the model keeps no identity for them (two non-ok exception values at corresponding places).
RECURSIVE EqUndecided(_, _)
EqUndecided(a, b) ==
  IF a.k # b.k THEN FALSE
  ELSE CASE a.k = "exc"  -> a.c.c # "ok" /\ b.c.c # "ok"
         [] a.k = "list" -> Len(a.es) = Len(b.es) /\ \E i \in 1..Len(a.es) : EqUndecided(a.es[i], b.es[i])
         [] a.k = "map"  -> \E i \in 1..Len(a.ps) : \E j \in 1..Len(b.ps) : EqUndecided(a.ps[i][2], b.ps[j][2])
         [] OTHER        -> FALSE

\* ---------------------------------------------------------------- numbers <-> strings
IsDigit(b) == b >= 48 /\ b <= 57
IsLetter(b) == (b >= 65 /\ b <= 90) \/ (b >= 97 /\ b <= 122)

RECURSIVE Digits(_)
Digits(n) == IF n < 10 THEN <<48 + n>> ELSE Digits(n \div 10) \o <<48 + (n % 10)>>
IntToBytes(n) == IF n < 0 THEN <<45>> \o Digits(-n) ELSE Digits(n)

CanonNat(s) == /\ Len(s) >= 1 /\ Len(s) <= 5
               /\ \A i \in 1..Len(s) : IsDigit(s[i])
               /\ (Len(s) > 1 => s[1] # 48)
RECURSIVE NatVal(_, _)
NatVal(s, i) == IF i = 0 THEN 0 ELSE NatVal(s, i - 1) * 10 + (s[i] - 48)

\* Classification of a string used as a number:
\*   [cls |-> "int", n |-> value]   canonical decimal integer inside the model
\*   [cls |-> "notnum"]             certainly not a number (empty, or starts with a letter and is not
\*                                  one of the spellings of Inf / NaN)
\*   [cls |-> "unk"]                number-like in a way the model does not cover -> OutOfModel
LowerByte(b) == IF b >= 65 /\ b <= 90 THEN b + 32 ELSE b
LowerBytes(s) == [i \in 1..Len(s) |-> LowerByte(s[i])]
SpecialFloatName(s) == LowerBytes(s) \in { <<105,110,102>>, <<110,97,110>>,
                                           <<105,110,102,105,110,105,116,121>> }
NumClass(s) ==
  IF s = <<>> THEN [cls |-> "notnum"]
  ELSE IF CanonNat(s) THEN
         LET v == NatVal(s, Len(s)) IN IF InRange(v) THEN [cls |-> "int", n |-> v] ELSE [cls |-> "unk"]
  ELSE IF s[1] = 45 /\ CanonNat(Tail(s)) /\ Tail(s) # <<48>> THEN
         LET v == NatVal(Tail(s), Len(s) - 1) IN IF InRange(v) THEN [cls |-> "int", n |-> -v] ELSE [cls |-> "unk"]
  ELSE IF IsLetter(s[1]) /\ ~SpecialFloatName(s) /\ (\A i \in 1..Len(s) : s[i] # 47) THEN [cls |-> "notnum"]
  ELSE [cls |-> "unk"]

\* A value used where a number is expected ("Strings and numbers"): typed number or number-like string.
AsNum(v) == CASE v.k = "num" -> [cls |-> "int", n |-> v.n]
              [] v.k = "rat" -> [cls |-> "rat", n |-> v.n, d |-> v.d]
              [] v.k = "str" -> NumClass(v.s)
              [] OTHER       -> [cls |-> "notnum"]

\* to-string of a value that can take part in compounding: strings and numbers.
Stringable(v) == v.k \in {"str", "num", "rat"}
ToBytes(v) == IF v.k = "num" THEN IntToBytes(v.n)
              ELSE IF v.k = "rat" THEN IntToBytes(v.n) \o <<47>> \o IntToBytes(v.d) ELSE v.s

\* exact fractions [n, d] (d >= 1)
RECURSIVE Gcd(_, _)
Gcd(a, b) == IF b = 0 THEN a ELSE Gcd(b, a % b)
Abs(x) == IF x < 0 THEN -x ELSE x
\* the value of the fraction n/d (d > 0): an integer value or a rational in lowest terms; ok = FALSE
\* if it leaves the model range
MkNum(n, d) == LET g == Gcd(Abs(n), d)  nn == n \div g  dd == d \div g IN
               IF ~InRange(nn) \/ dd > MaxInt THEN [ok |-> FALSE]
               ELSE [ok |-> TRUE, v |-> IF dd = 1 THEN VNum(nn) ELSE VRat(nn, dd)]
FracOf(c) == IF c.cls = "rat" THEN [n |-> c.n, d |-> c.d] ELSE [n |-> c.n, d |-> 1]
IsNumber(v) == v.k \in {"num", "rat"}
NumFrac(v) == IF v.k = "rat" THEN [n |-> v.n, d |-> v.d] ELSE [n |-> v.n, d |-> 1]

Ascii(s) == \A i \in 1..Len(s) : s[i] < 128

\* ---------------------------------------------------------------- byte output ("IO ports", "Output capture")
\* The output of a command is a sequence of ITEMS: values, and chunks of bytes written to the byte
\* band, [k |-> "bytes", s |-> bytes] (not a value: it never reaches a variable).
VBytes(s) == [k |-> "bytes", s |-> s]
\* [k |-> "unord", vs]: values written in an order the documentation leaves open (`keys`: "there is
\* no guaranteed order for the keys of a map"); only `order` and `count` may consume them, anything
\* else that would observe the order is Unspecified.
VUnord(vs) == [k |-> "unord", vs |-> vs]
HasUnord(out) == \E i \in 1..Len(out) : out[i].k = "unord" /\ Len(out[i].vs) > 1
RECURSIVE Expand(_)
Expand(out) == IF out = <<>> THEN <<>>
               ELSE IF Head(out).k = "unord" THEN Head(out).vs \o Expand(Tail(out)) ELSE <<Head(out)>> \o Expand(Tail(out))
IsVal(v)  == v.k # "bytes"
OutValues(out) == SelectSeq(out, IsVal)
RECURSIVE OutBytes(_)
OutBytes(out) == IF out = <<>> THEN <<>>
                 ELSE IF Head(out).k = "bytes" THEN Head(out).s \o OutBytes(Tail(out)) ELSE OutBytes(Tail(out))
\* lines of a byte stream: split at newlines, the line ending (\n or \r\n) chopped; a last line
\* without newline counts if it is not empty
ChopCR(l) == IF Len(l) >= 1 /\ l[Len(l)] = 13 THEN SubSeq(l, 1, Len(l) - 1) ELSE l
RECURSIVE LinesFrom(_, _, _)
LinesFrom(bs, i, cur) ==
  IF i > Len(bs) THEN (IF cur = <<>> THEN <<>> ELSE <<VStr(cur)>>)
  ELSE IF bs[i] = 10 THEN <<VStr(ChopCR(cur))>> \o LinesFrom(bs, i + 1, <<>>)
  ELSE LinesFrom(bs, i + 1, Append(cur, bs[i]))
Lines(bs) == LinesFrom(bs, 1, <<>>)
\* What a reader of both bands sees ("Output capture", value inputs of a command): the values, or the
\* lines as strings; with both bands in use their interleaving is Unspecified.
\* -> [ok |-> TRUE, vs] | [ok |-> FALSE]
Captured(out0) == LET out == Expand(out0)  vs == OutValues(out)  bs == OutBytes(out) IN
                 IF HasUnord(out0) THEN [ok |-> FALSE]
                 ELSE IF bs = <<>> THEN [ok |-> TRUE, vs |-> vs]
                 ELSE IF vs = <<>> THEN [ok |-> TRUE, vs |-> Lines(bs)]
                 ELSE [ok |-> FALSE]
CUnspecBands == [c |-> "unspec", why |-> "order of values left open (bytes/values interleaving, keys of a map)"]

\* ---------------------------------------------------------------- kinds (builtin kind-of)
KindName(v) == CASE v.k = "nil" -> "nil" [] v.k = "bool" -> "bool" [] v.k = "str" -> "string"
                 [] v.k = "num" -> "number" [] v.k = "list" -> "list" [] v.k = "map" -> "map"
                 [] v.k = "fn" -> "fn" [] v.k = "exc" -> "exception" [] OTHER -> "?"

\* ---------------------------------------------------------------- maps ("Map")
RECURSIVE MapFind(_, _, _)
\* index of key in ps (searching from i), 0 if absent
MapFind(ps, key, i) == IF i > Len(ps) THEN 0
                       ELSE IF ValEq(ps[i][1], key) THEN i ELSE MapFind(ps, key, i + 1)
MapAssoc(ps, key, val) == LET j == MapFind(ps, key, 1) IN
                          IF j = 0 THEN Append(ps, <<key, val>>)
                          ELSE [ps EXCEPT ![j] = <<key, val>>]
MapDissoc(ps, key) == LET j == MapFind(ps, key, 1) IN
                      IF j = 0 THEN ps ELSE SubSeq(ps, 1, j - 1) \o SubSeq(ps, j + 1, Len(ps))

\* Values the model accepts as map keys (equality decidable, hashable in Elvish).
RECURSIVE KeyOK(_)
KeyOK(v) == CASE v.k \in {"nil", "bool", "str", "num", "rat"} -> TRUE
              [] v.k = "list" -> \A i \in 1..Len(v.es) : KeyOK(v.es[i])
              [] v.k = "map"  -> \A i \in 1..Len(v.ps) : KeyOK(v.ps[i][1]) /\ KeyOK(v.ps[i][2])
              [] OTHER -> FALSE

\* ---------------------------------------------------------------- indexing ("List", "Indexing")
\* Result of an operation that can fail: [ok |-> TRUE, v |-> value] or [ok |-> FALSE, c |-> cause]
Good(v) == [ok |-> TRUE, v |-> v]
Bad(c)  == [ok |-> FALSE, c |-> c]

\* position of the first ".." in s, 0 if none
RECURSIVE FindDots(_, _)
FindDots(s, i) == IF i + 1 > Len(s) THEN 0
                  ELSE IF s[i] = 46 /\ s[i + 1] = 46 THEN i ELSE FindDots(s, i + 1)

\* An integer index i on a sequence of length n: negative counts from the back.
AdjustIndex(i, n) == IF i < 0 THEN i + n ELSE i

\* Parsed form of a list/string index value:
\*   [f |-> "int", i]  |  [f |-> "slice", lo: <<>>|<<i>>, hi: <<>>|<<j>>, incl: BOOLEAN]
\*   [f |-> "notint"]  (certainly not an integer: a "type" error)  |  [f |-> "unk"] (OutOfModel)
BoundClass(s) == IF s = <<>> THEN [cls |-> "none"] ELSE NumClass(s)
ParseIndex(v) ==
  IF v.k = "num" THEN [f |-> "int", i |-> v.n]
  ELSE IF v.k # "str" THEN [f |-> "notint"]
  ELSE LET d == FindDots(v.s, 1) IN
       IF d = 0 THEN
         LET c == NumClass(v.s) IN
         IF c.cls = "int" THEN [f |-> "int", i |-> c.n]
         ELSE IF c.cls = "notnum" THEN [f |-> "notint"] ELSE [f |-> "unk"]
       ELSE
         LET incl == d + 2 <= Len(v.s) /\ v.s[d + 2] = 61
             lo == BoundClass(SubSeq(v.s, 1, d - 1))
             hi == BoundClass(SubSeq(v.s, d + (IF incl THEN 3 ELSE 2), Len(v.s)))
         IN IF lo.cls \in {"unk"} \/ hi.cls \in {"unk"} THEN [f |-> "unk"]
            ELSE IF lo.cls = "notnum" \/ hi.cls = "notnum" THEN [f |-> "notint"]
            ELSE [f |-> "slice",
                  lo |-> IF lo.cls = "none" THEN <<>> ELSE <<lo.n>>,
                  hi |-> IF hi.cls = "none" THEN <<>> ELSE <<hi.n>>,
                  incl |-> incl]

\* Range selected by an index on a sequence of length n:
\*   [r |-> "elem", at]   (1-based position)
\*   [r |-> "slice", from, to]  (1-based inclusive SubSeq bounds; from = to + 1 for the empty slice)
\*   [r |-> "err", c]  |  [r |-> "unspec"]  (reference silent: `..=b` with b below -n)
IndexRange(ix, n) ==
  IF ix.f = "int" THEN
    LET a == AdjustIndex(ix.i, n) IN
    IF a < 0 \/ a >= n THEN [r |-> "err", c |-> COutOfRange] ELSE [r |-> "elem", at |-> a + 1]
  ELSE \* slice: lower defaults to 0, upper to n; a..=b includes element b
    LET lo == IF ix.lo = <<>> THEN 0 ELSE AdjustIndex(ix.lo[1], n)
        hiRaw == IF ix.hi = <<>> THEN n ELSE AdjustIndex(ix.hi[1], n)
        hi == IF ix.hi # <<>> /\ ix.incl THEN hiRaw + 1 ELSE hiRaw
    IN IF ix.hi # <<>> /\ ix.incl /\ hiRaw < 0 THEN [r |-> "unspec"]
       ELSE IF lo < 0 \/ lo > n \/ hi < 0 \/ hi > n \/ hi < lo THEN [r |-> "err", c |-> COutOfRange]
       ELSE [r |-> "slice", from |-> lo + 1, to |-> hi]

\* Index(v, key): vals.Index as documented.  Result Good(value) | Bad(cause); cause "oom" for the
\* cases outside the model and for the Unspecified slice.
Index(v, key) ==
  CASE v.k = "list" ->
         LET ix == ParseIndex(key) IN
         IF ix.f = "unk" THEN Bad(OOM("index not in canonical decimal form"))
         ELSE IF ix.f = "notint" THEN Bad(CType)
         ELSE LET rg == IndexRange(ix, Len(v.es)) IN
              CASE rg.r = "elem"  -> Good(v.es[rg.at])
                [] rg.r = "slice" -> Good(VList(SubSeq(v.es, rg.from, rg.to)))
                [] rg.r = "err"   -> Bad(rg.c)
                [] OTHER          -> Bad(OOM("Unspecified: slice ..=b with b below -n"))
    [] v.k = "str" ->
         IF ~Ascii(v.s) THEN Bad(OOM("indexing a non-ASCII string"))
         ELSE LET ix == ParseIndex(key) IN
         IF ix.f = "unk" THEN Bad(COOM)
         ELSE IF ix.f = "notint" THEN Bad(CType)
         ELSE LET rg == IndexRange(ix, Len(v.s)) IN
              CASE rg.r = "elem"  -> Good(VStr(<<v.s[rg.at]>>))
                [] rg.r = "slice" -> Good(VStr(SubSeq(v.s, rg.from, rg.to)))
                [] rg.r = "err"   -> Bad(rg.c)
                [] OTHER          -> Bad(COOM)
    [] v.k = "map" ->
         IF ~KeyOK(key) THEN Bad(COOM)
         ELSE LET j == MapFind(v.ps, key, 1) IN
              IF j = 0 THEN Bad(CNoSuchKey) ELSE Good(v.ps[j][2])
    [] v.k \in {"nil", "bool", "num", "rat"} -> Bad(CType)    \* not indexable
    [] v.k = "exc" ->
         \* "Exception": a pseudo-map with a `reason` field (itself a pseudo-map for fail / flow /
         \* pipeline causes); the stack trace and the other causes are opaque
         IF v.c.c = "ok" THEN Bad(OOM("indexing $ok"))
         ELSE IF key = VStr(<<114,101,97,115,111,110>>) /\ v.c.c \in {"fail", "flow", "pipeline"}
              THEN Good([k |-> "reason", c |-> v.c])
         ELSE Bad(OOM("field of an exception other than reason / opaque reason"))
    [] v.k = "reason" ->
         CASE key = VStr(<<116,121,112,101>>) ->                                  \* type
                Good(VStr(CASE v.c.c = "fail" -> <<102,97,105,108>>
                            [] v.c.c = "flow" -> <<102,108,111,119>>
                            [] OTHER -> <<112,105,112,101,108,105,110,101>>))
           [] key = VStr(<<99,111,110,116,101,110,116>>) /\ v.c.c = "fail" -> Good(v.c.v)      \* content
           [] key = VStr(<<110,97,109,101>>) /\ v.c.c = "flow" ->                 \* name
                Good(VStr(CASE v.c.n = "break" -> <<98,114,101,97,107>>
                            [] v.c.n = "continue" -> <<99,111,110,116,105,110,117,101>>
                            [] OTHER -> <<114,101,116,117,114,110>>))
           [] key = VStr(<<101,120,99,101,112,116,105,111,110,115>>) /\ v.c.c = "pipeline" ->  \* exceptions
                Good(VList([i \in 1..Len(v.c.cs) |-> VExc(v.c.cs[i])]))
           [] OTHER -> IF key.k = "str" THEN Bad(CNoSuchKey) ELSE Bad(OOM("reason field"))
    [] OTHER -> Bad(OOM("indexing a function"))

\* Assoc(v, key, val): element assignment / builtin assoc.
Assoc(v, key, val) ==
  CASE v.k = "list" ->
         LET ix == ParseIndex(key) IN
         IF ix.f = "unk" THEN Bad(COOM)
         ELSE IF ix.f = "notint" THEN Bad(CType)
         ELSE IF ix.f = "slice" THEN Bad(COOM)   \* "assoc with slice not yet supported": not in the reference
         ELSE LET rg == IndexRange(ix, Len(v.es)) IN
              IF rg.r = "elem" THEN Good(VList([v.es EXCEPT ![rg.at] = val])) ELSE Bad(rg.c)
    [] v.k = "map" -> IF ~KeyOK(key) THEN Bad(COOM) ELSE Good(VMap(MapAssoc(v.ps, key, val)))
    [] v.k \in {"nil", "bool", "num", "rat"} -> Bad(CType)
    [] OTHER -> Bad(COOM)

\* ---------------------------------------------------------------- iteration (for, each, all, explode)
\* Elements of an iterable value: lists (elements) and ASCII strings (characters).
Iterable(v) == v.k \in {"list", "str"}
Elements(v) == IF v.k = "list" THEN v.es ELSE [i \in 1..Len(v.s) |-> VStr(<<v.s[i]>>)]

\* ---------------------------------------------------------------- ordering (builtins compare, order)
\* "lt" | "eq" | "gt" | "unc" (values of different or unordered types that are not equal)
RECURSIVE Cmp(_, _)
RECURSIVE CmpSeq(_, _, _)
RECURSIVE CmpBytes(_, _, _)
CmpInt(a, b) == IF a < b THEN "lt" ELSE IF a > b THEN "gt" ELSE "eq"
CmpBytes(s, t, i) == IF i > Len(s) \/ i > Len(t) THEN CmpInt(Len(s), Len(t))
                     ELSE IF s[i] # t[i] THEN CmpInt(s[i], t[i]) ELSE CmpBytes(s, t, i + 1)
CmpSeq(a, b, i) == IF i > Len(a) \/ i > Len(b) THEN CmpInt(Len(a), Len(b))
                   ELSE LET o == Cmp(a[i], b[i]) IN IF o # "eq" THEN o ELSE CmpSeq(a, b, i + 1)
Cmp(a, b) ==
  IF IsNumber(a) /\ IsNumber(b) THEN
    LET x == NumFrac(a)  y == NumFrac(b) IN CmpInt(x.n * y.d, y.n * x.d)      \* "Typed numbers: Compared numerically"
  ELSE IF a.k # b.k THEN "unc"
  ELSE CASE a.k = "bool" -> IF a.b = b.b THEN "eq" ELSE IF ~a.b THEN "lt" ELSE "gt"
         [] a.k = "num"  -> CmpInt(a.n, b.n)
         [] a.k = "str"  -> CmpBytes(a.s, b.s, 1)
         [] a.k = "list" -> CmpSeq(a.es, b.es, 1)
         [] OTHER        -> IF ValEq(a, b) THEN "eq" ELSE "unc"

\* ---------------------------------------------------------------- observation
\* Matches(v, rec): the model value v against the executor's projection rec of a real value.
\* Closures are compared by kind only; exception values by cause.
RECURSIVE Matches(_, _)
RECURSIVE CauseMatches(_, _)
Matches(v, rec) ==
  IF v.k # rec.k THEN FALSE
  ELSE CASE v.k = "list" -> /\ Len(v.es) = Len(rec.es)
                            /\ \A i \in 1..Len(v.es) : Matches(v.es[i], rec.es[i])
         [] v.k = "map"  -> /\ Len(v.ps) = Len(rec.ps)
                            /\ \A i \in 1..Len(v.ps) : \E j \in 1..Len(rec.ps) :
                                  Matches(v.ps[i][1], rec.ps[j][1]) /\ Matches(v.ps[i][2], rec.ps[j][2])
         [] v.k = "fn"   -> TRUE
         [] v.k = "exc"  -> CauseMatches(v.c, rec.c)
         [] v.k = "num"  -> "n" \in DOMAIN rec /\ v.n = rec.n
         [] v.k = "rat"  -> v.n = rec.n /\ v.d = rec.d
         [] v.k = "str"  -> v.s = rec.s
         [] v.k = "bool" -> v.b = rec.b
         [] OTHER        -> TRUE
CauseMatches(c, rec) ==
  IF c.c # rec.c THEN FALSE
  ELSE CASE c.c = "fail" -> Matches(c.v, rec.v)
         [] c.c = "flow" -> c.n = rec.n
         [] c.c = "pipeline" -> /\ Len(c.cs) = Len(rec.cs)
                                /\ \A i \in 1..Len(c.cs) : CauseMatches(c.cs[i], rec.cs[i])
         [] OTHER -> TRUE
SeqMatches(vs, recs) == Len(vs) = Len(recs) /\ \A i \in 1..Len(vs) : Matches(vs[i], recs[i])

\* values the executor cannot project (the model's stand-in for an opaque Elvish value)
RECURSIVE Opaque(_)
Opaque(v) == CASE v.k = "reason" -> TRUE
               [] v.k = "list" -> \E i \in 1..Len(v.es) : Opaque(v.es[i])
               [] v.k = "map"  -> \E i \in 1..Len(v.ps) : Opaque(v.ps[i][1]) \/ Opaque(v.ps[i][2])
               [] v.k = "exc"  -> v.c.c = "fail" /\ Opaque(v.c.v)
               [] OTHER -> FALSE

\* Printable projection of a model value (closures lose their environment).
RECURSIVE Show(_)
RECURSIVE ShowCause(_)
Show(v) == CASE v.k = "list" -> [k |-> "list", es |-> [i \in 1..Len(v.es) |-> Show(v.es[i])]]
             [] v.k = "map"  -> [k |-> "map", ps |-> [i \in 1..Len(v.ps) |-> <<Show(v.ps[i][1]), Show(v.ps[i][2])>>]]
             [] v.k = "fn"   -> [k |-> "fn"]
             [] v.k = "exc"  -> [k |-> "exc", c |-> ShowCause(v.c)]
             [] v.k = "reason" -> [k |-> "reason", c |-> ShowCause(v.c)]
             [] v.k = "ns"   -> [k |-> "ns"]
             [] OTHER        -> v
ShowCause(c) == CASE c.c = "fail" -> [c |-> "fail", v |-> Show(c.v)]
                  [] c.c = "pipeline" -> [c |-> "pipeline", cs |-> [i \in 1..Len(c.cs) |-> ShowCause(c.cs[i])]]
                  [] OTHER -> c
=============================================================================
