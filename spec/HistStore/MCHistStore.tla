---------------------------- MODULE MCHistStore ----------------------------
(* Exhaustive model of the store + generator of behaviours ("one implementation test per
   transition"): hist is hidden by the VIEW; the always-true action constraint EmitT prints, for
   every generated transition, one path to its source state plus the step, with prescribed results. *)
EXTENDS HistStore, TLC, Json
CONSTANTS MaxCmds, MaxNext, MaxVisits
VARIABLES st, issued, hist
vars == <<st, issued, hist>>
Texts == {<<>>, <<1>>, <<2>>, <<1, 1>>, <<1, 2>>, <<3>>}
PrefixPool == {<<>>, <<1>>, <<1, 2>>, <<2>>}
DirIds == {1, 2}
O0 == [op |-> "", a |-> 0, b |-> 0, t |-> <<>>, d |-> 0, f |-> 0, bl |-> <<>>]
Ops(s) ==
     {[O0 EXCEPT !.op = "NextCmdSeq"]}
  \cup (IF Cardinality(s.cmds) < MaxCmds /\ s.next < MaxNext THEN {[O0 EXCEPT !.op = "AddCmd", !.t = t] : t \in Texts} ELSE {})
  \cup {[O0 EXCEPT !.op = "DelCmd", !.a = a] : a \in 0..(s.next + 1)}
  \cup {[O0 EXCEPT !.op = "Cmd", !.a = a] : a \in 0..(s.next + 1)}
  \cup {[O0 EXCEPT !.op = "CmdsWithSeq", !.a = a, !.b = b] : a \in 0..(s.next + 1), b \in (-1)..(s.next + 2)}
  \cup {[O0 EXCEPT !.op = "NextCmd", !.a = a, !.t = p] : a \in 0..(s.next + 1), p \in PrefixPool}
  \cup {[O0 EXCEPT !.op = "PrevCmd", !.a = a, !.t = p] : a \in 0..(s.next + 2), p \in PrefixPool}
  \cup (IF s.visits < MaxVisits THEN {[O0 EXCEPT !.op = "AddDir", !.d = d, !.f = f] : d \in DirIds, f \in {1, 2, 4}} ELSE {})
  \cup {[O0 EXCEPT !.op = "DelDir", !.d = d] : d \in DirIds}
  \cup {[O0 EXCEPT !.op = "Dirs", !.bl = bl] : bl \in {<<>>, <<1>>, <<2, 1>>}}
Init == st = Empty /\ issued = {} /\ hist = <<>>
Step(o) == /\ st' = Apply(st, o)
           /\ issued' = IF o.op = "AddCmd" THEN issued \cup {Res(st, o).n} ELSE issued
           /\ hist' = Append(hist, [o |-> o, r |-> Res(st, o),
                                    dirs |-> SetToSortSeq(Apply(st, o).dirs, LAMBDA x, y : x.d < y.d),
                                    visits |-> Apply(st, o).visits])
Next == \E o \in Ops(st) : Step(o)
Spec == Init /\ [][Next]_vars
View == <<st, issued>>
\* properties
TypeOK == SeqsBelowNext(st) /\ SeqsUnique(st) /\ DirsUnique(st)
NeverReissued == [][\A o \in Ops(st) : (o.op = "AddCmd" /\ Step(o)) => Res(st, o).n \notin issued]_vars
SeqMonotone == [][st'.next >= st.next]_vars
IssuedAreOld == \A n \in issued : n <= st.next
EmitT == PrintT(ToJson(hist'))
=============================================================================
