--------------------------- MODULE TraceHistStore ---------------------------
(* V for C24 (and the store part of C25/C29): recorded histories of the REAL store, one event per
   API call  [o |-> operation, r |-> result, dirs |-> returned directory list (milli scores)],
   histories separated by a "Reset" event (fresh database).  The walker applies every operation to
   the model state and requires the recorded result to be the prescribed one; after a rejection it
   skips to the next Reset so that one defect is reported once per history. *)
EXTENDS HistStore, TLC, Json
Cases == ndJsonDeserialize("cases.ndjson")
VARIABLES k, st, bad
Init == k = 0 /\ st = Empty /\ bad = FALSE
StepOK(s, e) == IF Unspecified(e.o) THEN TRUE
                ELSE IF e.o.op = "Dirs" THEN DirsOK(s, e.o, e.dirs)
                ELSE e.r = Res(s, e.o)
Next == /\ k < Len(Cases) /\ k' = k + 1
        /\ LET e == Cases[k + 1] IN
           IF e.o.op = "Reset" THEN st' = Empty /\ bad' = FALSE
           ELSE IF bad THEN UNCHANGED <<st, bad>>
           ELSE /\ st' = Apply(st, e.o)
                /\ bad' = (~StepOK(st, e) /\ PrintT(<<"BAD", k + 1, e.o.op, ToJson(Res(st, e.o))>>))
Inv == TRUE
=============================================================================
