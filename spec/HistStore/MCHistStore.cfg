CONSTANTS MaxCmds = 2 MaxNext = 3 MaxVisits = 2
SPECIFICATION Spec
VIEW View
INVARIANT TypeOK
INVARIANT IssuedAreOld
PROPERTY NeverReissued
PROPERTY SeqMonotone
ACTION_CONSTRAINT EmitT
