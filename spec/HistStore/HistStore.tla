------------------------------ MODULE HistStore ------------------------------
(* C24 -- the history store (pkg/store: cmd.go, dir.go, db_store.go) as a sequential object.

   State  st = [cmds, next, dirs, visits]
     cmds   set of [seq, text]       command history; text = sequence of tokens (prefix relation matters)
     next   last allocated sequence number; never decreases, never reused (bbolt bucket sequence)
     dirs   set of [d, score]        directory history; score in MILLI-units (TLC has no floats):
                                     visit = every score * 986 \div 1000, then visited += 5000 * halves
                                     (DirScoreDecay 0.986, DirScoreIncrement 10, factor = halves / 2)
     visits number of AddDir so far  (bounds the rounding drift between the real 7-digit text scores
                                     and the truncated milli scores: |real*1000 - score| <= 2*visits + 2)
   Operations (= storedefs.Store), as records o with uniform fields [op, a, b, t, d, f, bl]:
     NextCmdSeq | AddCmd(t) | DelCmd(a) | Cmd(a) | CmdsWithSeq(a, b) | NextCmd(a, t) | PrevCmd(a, t)
     AddDir(d, f) | DelDir(d) | Dirs(bl)
   Res(st, o) is the prescribed result, Apply(st, o) the successor; Dirs is judged by DirsOK
   (order among equal returned scores and the drift within the bound are left open).

   Unspecified: negative a/b arguments other than b = -1 for CmdsWithSeq (the code reinterprets
   them as huge unsigned numbers; no caller passes them).  DelCmd of an absent number is a no-op. *)
EXTENDS Integers, Sequences, FiniteSets, SequencesExt

IsPre(p, t) == Len(p) <= Len(t) /\ SubSeq(t, 1, Len(p)) = p

Empty == [cmds |-> {}, next |-> 0, dirs |-> {}, visits |-> 0]

R0 == [ok |-> TRUE, n |-> 0, t |-> <<>>, list |-> <<>>]
NoMatch == [R0 EXCEPT !.ok = FALSE]
Entry(c) == [n |-> c.seq, t |-> c.text]
BySeq(S) == SetToSortSeq(S, LAMBDA x, y : x.seq < y.seq)
Listing(S) == LET q == BySeq(S) IN [i \in 1..Len(q) |-> Entry(q[i])]
MinSeq(S) == CHOOSE c \in S : \A e \in S : c.seq <= e.seq
MaxSeq(S) == CHOOSE c \in S : \A e \in S : c.seq >= e.seq

Unspecified(o) == \/ (o.op \in {"DelCmd", "Cmd", "NextCmd", "PrevCmd"} /\ o.a < 0)
                  \/ (o.op = "CmdsWithSeq" /\ (o.a < 0 \/ o.b < -1))

Res(st, o) ==
  CASE o.op = "NextCmdSeq"  -> [R0 EXCEPT !.n = st.next + 1]
    [] o.op = "AddCmd"      -> [R0 EXCEPT !.n = st.next + 1]
    [] o.op = "DelCmd"      -> R0
    [] o.op = "Cmd"         -> LET S == {c \in st.cmds : c.seq = o.a}
                               IN IF S = {} THEN NoMatch ELSE [R0 EXCEPT !.t = (CHOOSE c \in S : TRUE).text]
    [] o.op = "CmdsWithSeq" -> [R0 EXCEPT !.list = Listing({c \in st.cmds : o.a <= c.seq /\ (o.b = -1 \/ c.seq < o.b)})]
    [] o.op = "NextCmd"     -> LET S == {c \in st.cmds : c.seq >= o.a /\ IsPre(o.t, c.text)}
                               IN IF S = {} THEN NoMatch ELSE [R0 EXCEPT !.n = MinSeq(S).seq, !.t = MinSeq(S).text]
    [] o.op = "PrevCmd"     -> LET S == {c \in st.cmds : c.seq < o.a /\ IsPre(o.t, c.text)}
                               IN IF S = {} THEN NoMatch ELSE [R0 EXCEPT !.n = MaxSeq(S).seq, !.t = MaxSeq(S).text]
    [] OTHER                -> R0      \* AddDir, DelDir; Dirs is judged by DirsOK

Decay(x) == (x * 986) \div 1000
Apply(st, o) ==
  CASE o.op = "AddCmd" -> [st EXCEPT !.next = st.next + 1, !.cmds = st.cmds \cup {[seq |-> st.next + 1, text |-> o.t]}]
    [] o.op = "DelCmd" -> [st EXCEPT !.cmds = {c \in st.cmds : c.seq # o.a}]
    [] o.op = "AddDir" -> LET decayed == {[d |-> e.d, score |-> Decay(e.score)] : e \in st.dirs}
                              old == {e \in decayed : e.d = o.d}
                              base == IF old = {} THEN 0 ELSE (CHOOSE e \in old : TRUE).score
                          IN [st EXCEPT !.dirs = {e \in decayed : e.d # o.d} \cup {[d |-> o.d, score |-> base + 5000 * o.f]},
                                        !.visits = st.visits + 1]
    [] o.op = "DelDir" -> [st EXCEPT !.dirs = {e \in st.dirs : e.d # o.d}]
    [] OTHER           -> st

(* got = sequence of [d, score] with score in milli-units as returned by the real store *)
DirsOK(st, o, got) ==
  LET want == {e \in st.dirs : \A i \in 1..Len(o.bl) : o.bl[i] # e.d}
      tol  == 2 * st.visits + 2
  IN /\ Len(got) = Cardinality(want)
     /\ {got[i].d : i \in 1..Len(got)} = {e.d : e \in want}
     /\ \A i \in 1..Len(got) : \E e \in want : e.d = got[i].d /\ got[i].score - e.score \in (-tol)..tol
     /\ \A i \in 1..(Len(got) - 1) : got[i].score >= got[i + 1].score

(* ---- invariants of the object (checked in MCHistStore over all reachable states) *)
SeqsBelowNext(st) == \A c \in st.cmds : 1 <= c.seq /\ c.seq <= st.next
SeqsUnique(st)    == \A c, e \in st.cmds : c.seq = e.seq => c = e
DirsUnique(st)    == \A c, e \in st.dirs : c.d = e.d => c = e
=============================================================================
